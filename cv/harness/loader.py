"""Load generated Python module source without touching the file system, and compile
cohdl entities with stdout isolated."""
from __future__ import annotations

import contextlib
import io
import itertools
import linecache
import sys
import types

_counter = itertools.count()


def load_module(source: str, name: str | None = None):
    n = next(_counter)
    name = name or f"cvgen_{n}"
    fn = f"<cvgen:{name}:{n}>"
    lines = source.splitlines(True)
    linecache.cache[fn] = (len(source), None, lines, fn)
    mod = types.ModuleType(name)
    mod.__file__ = fn
    sys.modules[name] = mod
    code = compile(source, fn, "exec")
    exec(code, mod.__dict__)
    return mod


def unload_module(mod):
    sys.modules.pop(mod.__name__, None)
    linecache.cache.pop(getattr(mod, "__file__", None), None)


class Rejected(Exception):
    """cohdl refused the design (allowed by every property)."""

    def __init__(self, exc):
        super().__init__(f"{type(exc).__name__}: {exc}")
        self.exc = exc
        self.exc_type = type(exc).__name__


def compile_entity(entity_cls) -> str:
    """VHDL text for an entity class, or Rejected."""
    from cohdl import std

    buf = io.StringIO()
    try:
        with contextlib.redirect_stdout(buf), contextlib.redirect_stderr(buf):
            return std.VhdlCompiler.to_string(entity_cls)
    except (KeyboardInterrupt, SystemExit):
        raise
    except RecursionError:
        raise
    except Exception as e:  # noqa: BLE001
        raise Rejected(e) from None


def compile_source(source: str, top: str = "Top") -> str:
    """exec module source (may itself be rejected while building classes) and compile `top`."""
    buf = io.StringIO()
    try:
        with contextlib.redirect_stdout(buf), contextlib.redirect_stderr(buf):
            mod = load_module(source)
    except (KeyboardInterrupt, SystemExit):
        raise
    except Exception as e:  # noqa: BLE001
        raise Rejected(e) from None
    try:
        return compile_entity(getattr(mod, top))
    finally:
        unload_module(mod)
