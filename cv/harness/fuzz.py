"""Coverage-guided shard: libFuzzer (atheris) mutates a byte string, Hypothesis decodes it with the
*same* strategy the plain shards use (`fuzz_one_input`), the property module's `check` is the oracle.

Run as a subprocess by the runner (libFuzzer never returns from Fuzz() and skips atexit handlers):

    python -m cv.harness.fuzz <module> <shard-json> <seed> <result-path>

The collector result is written to <result-path> every FLUSH executions and once more when the
requested number of executions has been reached; the parent reads whatever is there when the
process has ended.  Only `cohdl` is instrumented, so the coverage signal is the compiler's, not
the harness's.  A failing case is the decoded JSON case, so replay files bypass both libraries.
"""
import importlib
import json
import os
import sys
import time

FLUSH = 200


def main():
    modname, shard_json, seed, path = sys.argv[1:5]
    shard = json.loads(shard_json)
    seed = int(seed)
    import atheris

    with atheris.instrument_imports(include=["cohdl"], enable_loader_override=False):
        import cohdl  # noqa: F401
        from cohdl import std  # noqa: F401

    from cv.harness import runner

    runner._silence()
    mod = importlib.import_module(modname)
    col = runner._Collector(mod)
    t0 = time.time()
    state = {"execs": 0, "decoded": 0}
    runs = int(shard["runs"])

    import hypothesis
    from hypothesis import given

    @runner._hyp_settings(1)
    @given(mod.strategy(shard))
    def body(case):
        state["decoded"] += 1
        col.add(case, mod.check(case))

    fuzz_one = body.hypothesis.fuzz_one_input

    def flush(final=False):
        res = col.result()
        res["shard"] = shard["name"]
        res["wall_s"] = time.time() - t0
        res["counters"] = dict(res["counters"], fuzz_execs=state["execs"], fuzz_decoded=state["decoded"])
        res["final"] = final
        tmp = path + ".tmp"
        with open(tmp, "w") as f:
            json.dump(res, f)
        os.replace(tmp, path)

    def one(data):
        state["execs"] += 1
        fuzz_one(data)
        if state["execs"] % FLUSH == 0 or state["execs"] >= runs:
            flush(state["execs"] >= runs)

    corpus = path + ".corpus"
    os.makedirs(corpus, exist_ok=True)
    fseed = runner.shard_seed(seed, mod.PROPERTY, shard["name"]) % (2**31 - 1) + 1
    max_len = int(shard.get("max_len", 2048))
    # starting corpus: the empty corpus plus a few pseudo-random buffers long enough for the strategy to decode a whole case
    # (structured strategies reject short buffers, libFuzzer grows inputs slowly); a pure function of the shard seed
    import random

    rnd = random.Random(fseed)
    for i in range(int(shard.get("seeds", 24))):
        n = rnd.choice([64, 256, 1024, max_len])
        with open(os.path.join(corpus, f"seed{i:02d}"), "wb") as f:
            f.write(rnd.randbytes(min(n, max_len)))
    argv = [sys.argv[0], f"-runs={runs}", f"-seed={fseed}", f"-max_len={max_len}", "-len_control=0", f"-rss_limit_mb={int(shard.get('rss_limit_mb', 6144))}",
            "-print_final_stats=0", "-verbosity=0", corpus]
    atheris.Setup(argv, one)
    flush()
    atheris.Fuzz()


if __name__ == "__main__":
    main()
