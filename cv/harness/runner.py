"""Sharded, seeded, collect-then-shrink runner shared by all property checks.

A property module (cv/props/cNN.py) provides

    PROPERTY      "C13"
    RULE          text: how cases are generated and what makes one non-trivial
    ASSUMPTIONS   list of strings
    TECHNIQUE     short text
    plan(tier)            -> list of shard dicts (JSON-able).  shard["kind"] is
                             "hyp"  (Hypothesis strategy, shard["examples"] cases) or
                             "enum" (complete enumeration of a finite sub-space)
    strategy(shard)       -> Hypothesis strategy of JSON-able cases      (hyp shards)
    enumerate(shard)      -> iterable of JSON-able cases                 (enum shards)
    check(case)           -> Outcome   (pure function of the case and of /repo's tree)
    view(case)            -> JSON-able, human readable rendering for samples (optional)

The test body never raises on a violation: findings are collected with a signature
(root cause), the search continues, and each *new* signature is shrunk afterwards.
Exit codes: 0 held (KNOWN-FINDING lines allowed), 1 VIOLATION, 2 harness error.
"""
from __future__ import annotations

import hashlib
import importlib
import json
import multiprocessing as mp
import os
import sys
import time
import traceback
from collections import Counter
from dataclasses import dataclass, field
from pathlib import Path

ROOT = Path(__file__).resolve().parents[2]


# ----------------------------------------------------------------------------- outcome
@dataclass
class Outcome:
    status: str = "ok"  # ok | rejected | unspecified | blocked | ...
    findings: list = field(default_factory=list)  # [{"signature": {...}, "detail": str}]
    labels: list = field(default_factory=list)
    nontrivial: bool = False
    identity: str | None = None  # defaults to hash of the case
    counters: dict = field(default_factory=dict)
    exhaustive_cell: str | None = None  # name of a completely enumerated sub-space

    def add(self, signature: dict, detail: str = ""):
        self.findings.append({"signature": signature, "detail": detail})


class HarnessError(Exception):
    """Internal error of the verification machinery (never a violation)."""


def canon(obj) -> str:
    return json.dumps(obj, sort_keys=True, separators=(",", ":"), default=str)


def case_id(case) -> str:
    return hashlib.sha256(canon(case).encode()).hexdigest()[:16]


def sig_key(sig: dict) -> str:
    return canon(sig)


def sig_hash(sig: dict) -> str:
    return hashlib.sha256(sig_key(sig).encode()).hexdigest()[:12]


def shard_seed(seed: int, prop: str, name: str) -> int:
    return int(hashlib.sha256(f"{seed}/{prop}/{name}".encode()).hexdigest()[:8], 16)


# ----------------------------------------------------------------------------- known findings
def load_known(prop: str):
    p = ROOT / "known_findings.json"
    if not p.exists():
        return []
    return [e for e in json.loads(p.read_text()) if e.get("property") == prop]


def match_known(sig: dict, known) -> dict | None:
    for e in known:
        if e.get("status") != "known":
            continue
        pat = e.get("signature", {})
        ok = True
        for k, v in pat.items():
            if k not in sig:
                ok = False
                break
            if isinstance(v, list):
                if sig[k] not in v:
                    ok = False
                    break
            elif sig[k] != v:
                ok = False
                break
        if ok and pat:
            return e
    return None


# ----------------------------------------------------------------------------- worker
class _Collector:
    MAX_PER_SIG = 4

    def __init__(self, mod):
        self.mod = mod
        self.evaluations = 0
        self.status = Counter()
        self.labels = Counter()
        self.counters = Counter()
        self.nontrivial = set()
        self.samples = []
        self.findings = {}  # sigkey -> {"signature", "count", "cases":[(len, case, detail)]}
        self.exhaustive = Counter()

    def add(self, case, out: Outcome):
        self.evaluations += 1
        self.status[out.status] += 1
        for l in out.labels:
            self.labels[l] += 1
        for k, v in out.counters.items():
            self.counters[k] += v
        if out.exhaustive_cell:
            self.exhaustive[out.exhaustive_cell] += 1
        if out.nontrivial:
            self.nontrivial.add(out.identity or case_id(case))
            if len(self.samples) < 2:
                self.samples.append(_view(self.mod, case))
        for f in out.findings:
            k = sig_key(f["signature"])
            ent = self.findings.setdefault(
                k, {"signature": f["signature"], "count": 0, "cases": []}
            )
            ent["count"] += 1
            size = len(canon(case))
            cs = ent["cases"]
            if len(cs) < self.MAX_PER_SIG or size < cs[-1][0]:
                cs.append((size, case, f.get("detail", "")))
                cs.sort(key=lambda t: t[0])
                del cs[self.MAX_PER_SIG:]

    def result(self):
        return {
            "evaluations": self.evaluations,
            "status": dict(self.status),
            "labels": dict(self.labels),
            "counters": dict(self.counters),
            "nontrivial": sorted(self.nontrivial),
            "samples": self.samples,
            "exhaustive": dict(self.exhaustive),
            "findings": {
                k: {
                    "signature": v["signature"],
                    "count": v["count"],
                    "cases": [{"case": c, "detail": d} for _, c, d in v["cases"]],
                }
                for k, v in self.findings.items()
            },
        }


def _view(mod, case):
    try:
        if hasattr(mod, "view"):
            return mod.view(case)
    except Exception:  # a broken pretty-printer must not break the check
        pass
    return case


def _silence():
    # nothing the code under test prints may reach our stdout (VIOLATION lines are parsed)
    devnull = open(os.devnull, "w")
    sys.stdout = devnull
    if os.environ.get("VERIF_DEBUG") != "1":
        sys.stderr = devnull


def _hyp_settings(n, phases=None, **kw):
    from hypothesis import HealthCheck, Phase, settings

    return settings(
        max_examples=n,
        database=None,
        deadline=None,
        derandomize=False,
        report_multiple_bugs=False,
        phases=phases or [Phase.generate],
        suppress_health_check=[HealthCheck.too_slow, HealthCheck.data_too_large,
                               HealthCheck.large_base_example],
        **kw,
    )


def _run_shard(args):
    modname, shard, seed, tier = args
    _silence()
    t0 = time.time()
    try:
        mod = importlib.import_module(modname)
        col = _Collector(mod)
        if shard["kind"] == "enum":
            for case in mod.enumerate(shard):
                col.add(case, mod.check(case))
        elif shard["kind"] == "hyp":
            import hypothesis
            from hypothesis import given

            strat = mod.strategy(shard)
            n = int(shard["examples"])

            @hypothesis.seed(shard_seed(seed, mod.PROPERTY, shard["name"]))
            @_hyp_settings(n)
            @given(strat)
            def body(case):
                col.add(case, mod.check(case))

            body()
        elif shard["kind"] == "fuzz":
            return _run_fuzz_shard(modname, shard, seed, t0)
        else:
            raise HarnessError(f"unknown shard kind {shard['kind']}")
        res = col.result()
        res["shard"] = shard["name"]
        res["wall_s"] = time.time() - t0
        return res
    except BaseException as e:  # noqa: BLE001 - reported as harness error by the parent
        return {
            "shard": shard.get("name"),
            "harness_error": f"{type(e).__name__}: {e}",
            "traceback": traceback.format_exc()[-4000:],
        }


def _run_fuzz_shard(modname, shard, seed, t0):
    """coverage-guided shard (cv/harness/fuzz.py) in a subprocess; without atheris the shard is skipped and says so"""
    import shutil
    import subprocess
    import tempfile

    try:
        import atheris  # noqa: F401
    except ImportError:
        return {"shard": shard["name"], "evaluations": 0, "status": {}, "labels": {"fuzz_skipped_no_atheris": 1},
                "counters": {}, "nontrivial": [], "samples": [], "exhaustive": {}, "findings": {}, "wall_s": 0.0}
    d = tempfile.mkdtemp(prefix="cvfuzz.")
    try:
        path = os.path.join(d, "result.json")
        p = subprocess.run([sys.executable, "-m", "cv.harness.fuzz", modname, json.dumps(shard), str(seed), path],
                           stdout=subprocess.DEVNULL, stderr=subprocess.PIPE, text=True)
        if not os.path.exists(path):
            raise HarnessError(f"fuzz shard {shard['name']} produced no result (exit {p.returncode}): {p.stderr[-1500:]}")
        res = json.load(open(path))
        if not res.get("final") and res["counters"].get("fuzz_execs", 0) + FUZZ_FLUSH < int(shard["runs"]):
            raise HarnessError(f"fuzz shard {shard['name']} ended early (exit {p.returncode}) after "
                               f"{res['counters'].get('fuzz_execs')} executions: {p.stderr[-1500:]}")
        res.pop("final", None)
        res["wall_s"] = time.time() - t0
        return res
    finally:
        shutil.rmtree(d, ignore_errors=True)


FUZZ_FLUSH = 200


class _Found(Exception):
    pass


def _shrink_job(args):
    """Re-run one hyp shard with the shrink phase, failing only on the target signature."""
    modname, shard, seed, target_key, budget = args
    _silence()
    try:
        import hypothesis
        from hypothesis import Phase, given

        mod = importlib.import_module(modname)
        strat = mod.strategy(shard)
        best = {"case": None, "detail": "", "calls": 0}

        @hypothesis.seed(shard_seed(seed, mod.PROPERTY, shard["name"]))
        @_hyp_settings(int(shard["examples"]), phases=[Phase.generate, Phase.shrink])
        @given(strat)
        def body(case):
            if best["case"] is not None:
                best["calls"] += 1
                if best["calls"] > budget:
                    return  # budget exhausted: everything passes, shrinker stops
            out = mod.check(case)
            for f in out.findings:
                if sig_key(f["signature"]) == target_key:
                    size = len(canon(case))
                    if best["case"] is None or size <= best["size"]:
                        best.update(case=case, detail=f.get("detail", ""), size=size)
                    raise _Found()

        try:
            body()
        except _Found:
            pass
        except BaseException:  # noqa: BLE001
            pass
        return {"case": best["case"], "detail": best["detail"]}
    except BaseException as e:  # noqa: BLE001
        return {"case": None, "error": f"{type(e).__name__}: {e}"}


# ----------------------------------------------------------------------------- main entry
def _write_replay(prop, sig, case, detail, seed, tier, mod):
    d = ROOT / "replays" / prop
    d.mkdir(parents=True, exist_ok=True)
    p = d / f"{sig_hash(sig)}.json"
    doc = {
        "property": prop,
        "engine_version": "cv-1",
        "seed": seed,
        "tier": tier,
        "signature": sig,
        "detail": detail,
        "case": case,
        "view": _view(mod, case),
    }
    p.write_text(json.dumps(doc, indent=1, default=str))
    return p


def write_evidence(prop, tier, seed, coverage, assumptions, wall, violations, level="exploration"):
    # evidence/ only ever describes runs against /repo itself; a run against a patched scratch copy (CV_REPO, used to
    # evaluate seeded changes) leaves its record under replays/ (not committed)
    d = ROOT / ("replays/_scratch_copy_evidence" if os.environ.get("CV_REPO") else "evidence")
    d.mkdir(parents=True, exist_ok=True)
    doc = {
        "property_id": prop,
        "tier": tier,
        "seed": seed,
        "level": level,
        "coverage": coverage,
        "assumptions": assumptions,
        "wall_s": round(wall, 2),
        "violations": violations,
    }
    (d / f"{prop}.json").write_text(json.dumps(doc, indent=1, default=str))


def run_replay(modname, path):
    mod = importlib.import_module(modname)
    doc = json.loads(Path(path).read_text())
    case = doc["case"] if "case" in doc else doc
    import contextlib, io

    with contextlib.redirect_stdout(io.StringIO()):
        out = mod.check(case)
    known = load_known(mod.PROPERTY)
    rc = 0
    if not out.findings:
        print(f"replay {path}: status={out.status} no violation")
    for f in out.findings:
        e = match_known(f["signature"], known)
        if e:
            print(f"KNOWN-FINDING: property={mod.PROPERTY} {e['id']}: {e.get('description','')}")
        else:
            print(f"VIOLATION property={mod.PROPERTY} replay={path}")
            print("  signature:", canon(f["signature"]))
            print("  detail:", f.get("detail", "")[:2000])
            rc = 1
    return rc


def run_property(modname, tier="quick", seed=1, workers=None):
    t0 = time.time()
    mod = importlib.import_module(modname)
    prop = mod.PROPERTY
    workers = workers or int(os.environ.get("VERIF_WORKERS", "16"))
    known = load_known(prop)

    # optional fast self-test of the trusted base used by this property
    if hasattr(mod, "selfcheck"):
        try:
            mod.selfcheck()
        except Exception as e:  # noqa: BLE001
            print(f"HARNESS-ERROR property={prop} selfcheck failed: {type(e).__name__}: {e}")
            return 2

    shards = list(mod.plan(tier))
    # committed regressions first (seconds-long replay tier)
    reg_dir = ROOT / "regress" / prop
    reg_cases = []
    if reg_dir.is_dir():
        for p in sorted(reg_dir.glob("*.json")):
            doc = json.loads(p.read_text())
            reg_cases.append(doc["case"] if "case" in doc else doc)
    if reg_cases and hasattr(mod, "check"):
        shards.insert(0, {"kind": "enum", "name": "__regress__"})
        # the worker looks the cases up again (keeps the shard descriptor small)

    jobs = [(modname, s, seed, tier) for s in shards]
    ctx = mp.get_context("spawn")
    results = []
    with ctx.Pool(min(workers, max(1, len(jobs))), maxtasksperchild=1) as pool:
        for r in pool.imap_unordered(_dispatch, jobs):
            results.append(r)

    herrs = [r for r in results if "harness_error" in r]
    tot = Counter()
    status = Counter()
    labels = Counter()
    counters = Counter()
    exhaustive = Counter()
    nontrivial = set()
    samples = []
    findings = {}
    for r in results:
        if "harness_error" in r:
            continue
        tot["evaluations"] += r["evaluations"]
        status.update(r["status"])
        labels.update(r["labels"])
        counters.update(r["counters"])
        exhaustive.update(r["exhaustive"])
        nontrivial.update(r["nontrivial"])
        for s in r["samples"]:
            if len(samples) < 5:
                samples.append(s)
        for k, v in r["findings"].items():
            ent = findings.setdefault(k, {"signature": v["signature"], "count": 0, "cases": [], "shards": []})
            ent["count"] += v["count"]
            ent["cases"].extend(v["cases"])
            ent["shards"].append(r["shard"])

    new = []
    known_hit = {}
    excluded = 0
    for k, v in findings.items():
        e = match_known(v["signature"], known)
        if e:
            known_hit.setdefault(e["id"], [e, 0])[1] += v["count"]
            excluded += v["count"]
        else:
            new.append(v)

    # shrink every new signature (bounded by case count, not by time)
    replay_paths = []
    shard_by_name = {s["name"]: s for s in shards}
    budget = 250 if tier == "quick" else 1500
    shrink_jobs = []
    for v in new[:8]:
        v["cases"].sort(key=lambda c: len(canon(c["case"])))
        sh = next((shard_by_name[n] for n in v["shards"] if shard_by_name.get(n, {}).get("kind") == "hyp"), None)
        if sh is not None and os.environ.get("VERIF_NO_SHRINK") != "1":
            shrink_jobs.append((v, (modname, sh, seed, sig_key(v["signature"]), budget)))
    if shrink_jobs:
        with ctx.Pool(min(workers, len(shrink_jobs)), maxtasksperchild=1) as pool:
            outs = pool.map(_shrink_job, [j for _, j in shrink_jobs])
        for (v, _), o in zip(shrink_jobs, outs):
            if o.get("case") is not None:
                if len(canon(o["case"])) <= len(canon(v["cases"][0]["case"])):
                    v["cases"].insert(0, {"case": o["case"], "detail": o.get("detail", "")})
    for v in new:
        v["cases"].sort(key=lambda c: len(canon(c["case"])))
        c = v["cases"][0]
        replay_paths.append(
            (v, _write_replay(prop, v["signature"], c["case"], c["detail"], seed, tier, mod))
        )

    wall = time.time() - t0
    ev = tot["evaluations"]
    coverage = {
        "evaluations": ev,
        "distinct_nontrivial": len(nontrivial),
        "rule": mod.RULE,
        "samples": samples if samples else ["(no non-trivial case produced)"],
        "status_counts": dict(status),
        "label_histogram": dict(sorted(labels.items(), key=lambda kv: -kv[1])[:80]),
        "counters": dict(counters),
        "exhaustive": bool(getattr(mod, "EXHAUSTIVE", {}).get(tier, False)),
        "exhaustive_subspaces": len(exhaustive),
        "exhaustive_subspace_examples": sorted(exhaustive)[:20],
        "excluded_known_finding_cases": excluded,
        "known_findings_hit": sorted(known_hit),
        "new_violation_signatures": [v["signature"] for v in new],
        "shards": len(shards),
        "harness_errors": [h["harness_error"] for h in herrs][:5],
        "technique": getattr(mod, "TECHNIQUE", "property-based testing"),
    }
    if hasattr(mod, "extra_coverage"):
        try:
            coverage.update(mod.extra_coverage(tier, results))
        except Exception:  # noqa: BLE001
            pass
    write_evidence(prop, tier, seed, coverage, list(mod.ASSUMPTIONS), wall, len(new),
                   getattr(mod, "LEVEL", "exploration"))

    print(f"property={prop} tier={tier} seed={seed} evaluations={ev} "
          f"distinct_nontrivial={len(nontrivial)} status={dict(status)} wall={wall:.1f}s")
    for eid, (e, n) in sorted(known_hit.items()):
        print(f"KNOWN-FINDING: property={prop} {eid}: {e.get('description','')} [{n} cases excluded]")
    for v, p in replay_paths:
        print(f"VIOLATION property={prop} replay={p}")
        print("  signature:", canon(v["signature"]), "cases:", v["count"])
        print("  detail:", (v["cases"][0]["detail"] or "")[:1500].replace("\n", "\n    "))
    if new:
        return 1
    if herrs:
        for h in herrs[:3]:
            print(f"HARNESS-ERROR property={prop} shard={h['shard']}: {h['harness_error']}")
            print(h.get("traceback", ""))
        return 2
    if ev == 0:
        print(f"HARNESS-ERROR property={prop}: nothing evaluated")
        return 2
    return 0


def _dispatch(args):
    modname, shard, seed, tier = args
    if shard.get("name") == "__regress__":
        return _run_regress(modname)
    return _run_shard(args)


def _run_regress(modname):
    _silence()
    try:
        mod = importlib.import_module(modname)
        col = _Collector(mod)
        for p in sorted((ROOT / "regress" / mod.PROPERTY).glob("*.json")):
            doc = json.loads(p.read_text())
            case = doc["case"] if "case" in doc else doc
            out = mod.check(case)
            out.labels = list(out.labels) + ["regress"]
            col.add(case, out)
        res = col.result()
        res["shard"] = "__regress__"
        return res
    except BaseException as e:  # noqa: BLE001
        return {"shard": "__regress__", "harness_error": f"{type(e).__name__}: {e}",
                "traceback": traceback.format_exc()[-4000:]}
