"""VHDL lexer for the subset printed by cohdl's backend, written against LRM clause 13
(lexical elements) rather than against the printer."""
from __future__ import annotations

import re
from dataclasses import dataclass

RESERVED_93 = """abs access after alias all and architecture array assert attribute begin block body buffer
bus case component configuration constant disconnect downto else elsif end entity exit file for function
generate generic group guarded if impure in inertial inout is label library linkage literal loop map mod nand
new next nor not null of on open or others out package port postponed procedure process pure range record
register reject rem report return rol ror select severity signal shared sla sll sra srl subtype then to
transport type unaffected units until use variable wait when while with xnor xor""".split()
RESERVED_2008 = """assume assume_guarantee context cover default fairness force parameter property protected
release restrict restrict_guarantee sequence strong vmode vprop vunit""".split()
RESERVED = frozenset(RESERVED_93) | frozenset(RESERVED_2008)


class VhdlSyntaxError(Exception):
    def __init__(self, msg, line=0):
        super().__init__(f"line {line}: {msg}")
        self.msg = msg
        self.line = line


class Unsupported(Exception):
    """construct outside the subset cv.vhdl models (harness limitation, never a violation)"""


@dataclass
class Tok:
    kind: str  # id kw int real char str bitstr delim eof
    text: str
    line: int
    raw: str = ""  # original spelling (identifiers keep their case here)


_DELIMS2 = ("=>", "<=", ">=", "/=", ":=", "**", "<>", "?=", "??")
_DELIMS1 = "&'()*+,-./:;<=>|[]?@"
_ID = re.compile(r"[A-Za-z_][A-Za-z0-9_]*")
_NUM = re.compile(r"[0-9][0-9_]*(\.[0-9][0-9_]*)?([eE][+-]?[0-9]+)?")
_BASED = re.compile(r"[0-9]+#[0-9A-Fa-f_]+(\.[0-9A-Fa-f_]+)?#([eE][+-]?[0-9]+)?")
_BITSTR = re.compile(r"([0-9]*)([sSuU]?[bBoOxXdD])\"([^\"]*)\"")


def ident_problem(name: str) -> str | None:
    """None if `name` is a legal basic identifier (LRM 13.3.1), else the reason."""
    if not re.fullmatch(r"[A-Za-z][A-Za-z0-9_]*", name):
        if name.startswith("_"):
            return "leading_underscore"
        return "illegal_character"
    if name.endswith("_"):
        return "trailing_underscore"
    if "__" in name:
        return "double_underscore"
    return None


def lex(text: str):
    toks = []
    bad_idents = []  # (name, reason, line)
    i, n, line = 0, len(text), 1
    while i < n:
        c = text[i]
        if c == "\n":
            line += 1
            i += 1
            continue
        if c in " \t\r\f\v\xa0":
            i += 1
            continue
        if c == "-" and text.startswith("--", i):
            j = text.find("\n", i)
            j = n if j < 0 else j
            toks.append(Tok("comment", text[i + 2:j].strip(), line))
            i = j
            continue
        m = _BITSTR.match(text, i)
        if m and (m.group(1) or m.group(2)):
            toks.append(Tok("bitstr", m.group(0), line))
            i = m.end()
            continue
        m = _ID.match(text, i)
        if m:
            raw = m.group(0)
            low = raw.lower()
            if low in RESERVED:
                toks.append(Tok("kw", low, line, raw))
            else:
                prob = ident_problem(raw)
                if prob:
                    bad_idents.append((raw, prob, line))
                toks.append(Tok("id", low, line, raw))
            i = m.end()
            continue
        if c.isdigit():
            m = _BASED.match(text, i)
            if m:
                raise Unsupported(f"based literal {m.group(0)}")
            m = _NUM.match(text, i)
            s = m.group(0)
            if "." in s:
                toks.append(Tok("real", s.replace("_", ""), line))
            else:
                toks.append(Tok("int", s.replace("_", ""), line))
            i = m.end()
            # a letter directly after a number is a lexical error (e.g. 1x)
            if i < n and (text[i].isalpha() or text[i] == "_"):
                raise VhdlSyntaxError(f"identifier may not start with a digit: {text[m.start():i+8]!r}", line)
            continue
        if c == '"':
            j = i + 1
            buf = []
            while True:
                if j >= n or text[j] == "\n":
                    raise VhdlSyntaxError("unterminated string literal", line)
                if text[j] == '"':
                    if j + 1 < n and text[j + 1] == '"':
                        buf.append('"')
                        j += 2
                        continue
                    break
                buf.append(text[j])
                j += 1
            toks.append(Tok("str", "".join(buf), line))
            i = j + 1
            continue
        if c == "'":
            # character literal unless the previous token can end a prefix (name, ')', 'all')
            prev = next((t for t in reversed(toks) if t.kind != "comment"), None)
            is_tick = prev is not None and (prev.kind == "id" or prev.text in (")", "all", "]"))
            if not is_tick and i + 2 < n and text[i + 2] == "'":
                toks.append(Tok("char", text[i + 1], line))
                i += 3
                continue
            if is_tick and i + 2 < n and text[i + 2] == "'" and text[i + 1] != "(":
                # e.g.  x'('a') never printed; treat id'X' as tick followed by attribute
                pass
            toks.append(Tok("delim", "'", line))
            i += 1
            continue
        if c == "\\":
            raise Unsupported("extended identifier")
        two = text[i:i + 2]
        if two in _DELIMS2:
            toks.append(Tok("delim", two, line))
            i += 2
            continue
        if c in _DELIMS1:
            toks.append(Tok("delim", c, line))
            i += 1
            continue
        raise VhdlSyntaxError(f"illegal character {c!r}", line)
    toks.append(Tok("eof", "", line))
    return toks, bad_idents
