"""VHDL lexer for the subset printed by cohdl's backend, written against LRM clause 13
(lexical elements) rather than against the printer."""
from __future__ import annotations

import re
from dataclasses import dataclass

RESERVED_93 = """abs access after alias all and architecture array assert attribute begin block body buffer
bus case component configuration constant disconnect downto else elsif end entity exit file for function
generate generic group guarded if impure in inertial inout is label library linkage literal loop map mod nand
new next nor not null of on open or others out package port postponed procedure process pure range record
register reject rem report return rol ror select severity signal shared sla sll sra srl subtype then to
transport type unaffected units until use variable wait when while with xnor xor""".split()
RESERVED_2008 = """assume assume_guarantee context cover default fairness force parameter property protected
release restrict restrict_guarantee sequence strong vmode vprop vunit""".split()
RESERVED = frozenset(RESERVED_93) | frozenset(RESERVED_2008)
_RESERVED_93 = frozenset(RESERVED_93)
_RESERVED_2008_ONLY = frozenset(RESERVED_2008) - _RESERVED_93


class VhdlSyntaxError(Exception):
    def __init__(self, msg, line=0):
        super().__init__(f"line {line}: {msg}")
        self.msg = msg
        self.line = line


class Unsupported(Exception):
    """construct outside the subset cv.vhdl models (harness limitation, never a violation)"""


@dataclass
class Tok:
    kind: str  # id kw int real char str bitstr delim eof
    text: str
    line: int
    raw: str = ""  # original spelling (identifiers keep their case here)


_DELIMS2 = ("=>", "<=", ">=", "/=", ":=", "**", "<>", "?=", "??")
_DELIMS1 = "&'()*+,-./:;<=>|[]?@"
_ID = re.compile(r"[A-Za-z_][A-Za-z0-9_]*")
_NUM = re.compile(r"[0-9][0-9_]*(\.[0-9][0-9_]*)?([eE][+-]?[0-9]+)?")
_BASED = re.compile(r"[0-9]+#[0-9A-Fa-f_]+(\.[0-9A-Fa-f_]+)?#([eE][+-]?[0-9]+)?")
_BITSTR = re.compile(r"([0-9]*)([sSuU]?[bBoOxXdD])\"([^\"]*)\"")


def ident_problem(name: str) -> str | None:
    """None if `name` is a legal basic identifier (LRM 13.3.1), else the reason."""
    if not re.fullmatch(r"[A-Za-z][A-Za-z0-9_]*", name):
        if name.startswith("_"):
            return "leading_underscore"
        return "illegal_character"
    if name.endswith("_"):
        return "trailing_underscore"
    if "__" in name:
        return "double_underscore"
    return None


_MASTER = re.compile(
    r"(?P<ws>[ \t\r\f\v\xa0]+)"
    r"|(?P<nl>\n)"
    r"|(?P<comment>--[^\n]*)"
    r"|(?P<bitstr>[0-9]*[sSuU]?[bBoOxXdD]\"[^\"\n]*\")"
    r"|(?P<id>[A-Za-z_][A-Za-z0-9_]*)"
    r"|(?P<based>[0-9]+#[0-9A-Fa-f_]+(?:\.[0-9A-Fa-f_]+)?#(?:[eE][+-]?[0-9]+)?)"
    r"|(?P<num>[0-9][0-9_]*(?:\.[0-9][0-9_]*)?(?:[eE][+-]?[0-9]+)?)"
    r"|(?P<str>\"(?:[^\"\n]|\"\")*\")"
    r"|(?P<d2>=>|<=|>=|/=|:=|\*\*|<>|\?=|\?\?)"
    r"|(?P<tick>')"
    r"|(?P<d1>[&()*+,\-./:;<=>|\[\]?@])"
)


def lex(text: str):
    toks = []
    bad_idents = []  # (name, reason, line)
    i, n, line = 0, len(text), 1
    match = _MASTER.match
    append = toks.append
    prev = None  # previous non-comment token
    while i < n:
        m = match(text, i)
        if m is None:
            c = text[i]
            if c == '"':
                raise VhdlSyntaxError("unterminated string literal", line)
            if c == "\\":
                raise Unsupported("extended identifier")
            raise VhdlSyntaxError(f"illegal character {c!r}", line)
        kind = m.lastgroup
        j = m.end()
        if kind == "ws":
            i = j
            continue
        if kind == "nl":
            line += 1
            i = j
            continue
        if kind == "comment":
            append(Tok("comment", text[i + 2:j].strip(), line))
            i = j
            continue
        if kind == "id":
            raw = m.group()
            low = raw.lower()
            if low in _RESERVED_93:
                tok = Tok("kw", low, line, raw)
            else:
                if low in _RESERVED_2008_ONLY:
                    # reserved since VHDL-2008 only: a VHDL-93 tool accepts it as an identifier (union policy);
                    # none of these words is needed as a keyword in the modelled subset
                    bad_idents.append((raw, "reserved_2008_only", line))
                if raw[0] == "_" or raw[-1] == "_" or "__" in raw:
                    bad_idents.append((raw, ident_problem(raw), line))
                tok = Tok("id", low, line, raw)
        elif kind == "bitstr":
            tok = Tok("bitstr", m.group(), line)
        elif kind == "based":
            raise Unsupported(f"based literal {m.group()}")
        elif kind == "num":
            s_ = m.group()
            if j < n and (text[j].isalpha() or text[j] == "_"):
                raise VhdlSyntaxError(f"identifier may not start with a digit: {text[i:j+8]!r}", line)
            tok = Tok("real" if "." in s_ else "int", s_.replace("_", ""), line)
        elif kind == "str":
            tok = Tok("str", m.group()[1:-1].replace('""', '"'), line)
        elif kind == "tick":
            # character literal unless the previous token can end a prefix (name, ')', 'all')
            is_tick = prev is not None and (prev.kind == "id" or prev.text in (")", "all", "]"))
            if not is_tick and i + 2 < n and text[i + 2] == "'":
                tok = Tok("char", text[i + 1], line)
                j = i + 3
            else:
                tok = Tok("delim", "'", line)
        else:
            tok = Tok("delim", m.group(), line)
        append(tok)
        prev = tok
        i = j
    append(Tok("eof", "", line))
    return toks, bad_idents
