"""Expression analysis: overload resolution over std.standard / std_logic_1164 / numeric_std
profiles (VHDL-93 ∪ VHDL-2008: a use is accepted if either edition declares a matching
profile) and compilation of each expression into a Python closure `fn(ctx) -> value`.
"""
from __future__ import annotations

from . import values as V
from .lexer import Unsupported
from .types import (BOOLEAN, CHARACTER, INTEGER, NATURAL, PREDEFINED_FUNCTIONS, PREDEFINED_TYPES, SIGNED, SLV,
                    STD_ULOGIC, STRING, UNSIGNED, Ty)

ERR = Ty("err", "<error>")


class E:
    """analysed expression.  poly: None | 'uint' | 'str' | 'char' | 'agg'"""
    __slots__ = ("ty", "fn", "reads", "poly", "lit", "line", "obj", "static", "is_signal_name", "path")

    def __init__(self, ty, fn, reads=frozenset(), poly=None, lit=None, line=0, obj=None, is_signal_name=False, path=None):
        self.ty, self.fn, self.reads, self.poly, self.lit, self.line = ty, fn, reads, poly, lit, line
        self.obj = obj  # root object when the expression is a (possibly indexed) name
        self.is_signal_name = is_signal_name
        self.path = path
        self.static = None  # (value,) when evaluable without reading objects

    def static_value(self):
        """(value,) if the expression reads no object, else None."""
        if self.static is None:
            if self.reads or self.fn is None or self.ty is ERR or self.poly in ("agg",):
                self.static = ()
            else:
                try:
                    self.static = (self.fn(None),)
                except V.SimError:
                    self.static = ()
                except (TypeError, AttributeError, IndexError):
                    self.static = ()
        return self.static or None


def cat(ty):
    if ty is None:
        return "poly"
    if ty is ERR:
        return "err"
    if ty.kind == "sl":
        return "sl"
    if ty.kind == "bool":
        return "bool"
    if ty.kind == "int":
        return "int"
    if ty.kind == "enum":
        return "enum:" + ty.base
    if ty.kind == "char":
        return "char"
    if ty.kind == "array":
        if ty.base == "std_logic_vector":
            return "slv"
        if ty.base in ("unsigned", "signed", "string"):
            return ty.base
        return "arr:" + ty.base
    return "?"


VEC = ("slv", "unsigned", "signed")
NUM = ("unsigned", "signed")
LOGIC_T = {"and": V.AND_T, "or": V.OR_T, "xor": V.XOR_T}


def _raise(kind, msg):
    def fn(c):
        raise V.SimError(kind, msg)
    return fn


class ExprMixin:
    """Methods mixed into the Analyzer (needs self.error, self.lookup, self.read_obj...)."""

    # ------------------------------------------------------------------ entry
    def expr(self, n, scope, want=None):
        m = getattr(self, "_x_" + n.kind, None)
        if m is None:
            raise Unsupported(f"expression node {n.kind}")
        e = m(n, scope, want)
        e.line = n.line
        return e

    def err_e(self):
        return E(ERR, _raise("static_error", "expression with static error"))

    # ------------------------------------------------------------------ literals
    def _x_int(self, n, scope, want):
        v = n.value
        return E(None, lambda c: v, poly="uint", lit=v)

    def _x_char(self, n, scope, want):
        ch = n.value
        # an enumeration literal of a user type may also be a character; not printed by cohdl
        return E(None, None, poly="char", lit=ch)

    def _x_str(self, n, scope, want):
        return E(None, None, poly="str", lit=n.value)

    def _x_bitstr(self, n, scope, want):
        import re
        m = re.fullmatch(r"([0-9]*)([sSuU]?)([bBoOxXdD])\"([^\"]*)\"", n.text)
        base = m.group(3).lower()
        digits = m.group(4).replace("_", "")
        if m.group(1) or m.group(2) or base == "d":
            raise Unsupported("sized/signed bit string literal")
        per = {"b": 1, "o": 3, "x": 4}[base]
        out = []
        for d in digits:
            if d in "UXZWLH-" and base != "b":
                out.append(d * per)
            else:
                try:
                    out.append(format(int(d, 16), f"0{per}b"))
                except ValueError:
                    self.error("S-parse", f"bad digit {d!r} in bit string literal", n.line)
                    return self.err_e()
                if int(d, 16) >= (1 << per):
                    self.error("S-parse", f"digit {d!r} out of range in bit string literal", n.line)
                    return self.err_e()
        return E(None, None, poly="str", lit="".join(out))

    def _x_paren(self, n, scope, want):
        return self.expr(n.value, scope, want)

    def _x_aggregate(self, n, scope, want):
        e = E(None, None, poly="agg", lit=(n, scope))
        if want is not None and want is not ERR:
            return self.resolve(e, want, n.line)
        return e

    # ------------------------------------------------------------------ resolving polymorphic literals
    def resolve(self, e, ty, line, what="expression"):
        """give a polymorphic literal the type `ty` (or report S-type)."""
        if e.poly is None or e.ty is ERR:
            return e
        if ty is ERR or ty is None:
            return e if ty is None else self.err_e()
        if e.poly == "uint":
            if ty.kind == "int":
                v = e.lit
                fn = e.fn
                return E(INTEGER, fn, e.reads)
            self.error("S-type", f"integer literal where {ty} is required ({what})", line, found="integer", want=cat(ty))
            return self.err_e()
        if e.poly == "char":
            ch = e.lit
            if ty.kind == "sl":
                if ch not in V.CHAR2V:
                    self.error("S-type", f"character literal '{ch}' is not a std_logic value", line, want="sl")
                    return self.err_e()
                v = V.CHAR2V[ch]
                return E(STD_ULOGIC, lambda c: v)
            if ty.kind == "char":
                return E(CHARACTER, lambda c: ch)
            if ty.kind == "enum" and f"'{ch}'" in (ty.literals or []):
                v = ty.literals.index(f"'{ch}'")
                return E(ty, lambda c: v)
            self.error("S-type", f"character literal '{ch}' where {ty} is required ({what})", line, found="char", want=cat(ty))
            return self.err_e()
        if e.poly == "str":
            s = e.lit
            if ty.kind == "array" and ty.elem is not None and ty.elem.kind == "sl":
                for ch in s:
                    if ch not in V.CHAR2V:
                        self.error("S-type", f"string literal \"{s}\" contains {ch!r}, not a std_logic value", line, want=cat(ty))
                        return self.err_e()
                v = V.vec_from_str(s)
                return E(ty.with_length(len(v)), lambda c: v)
            if ty.kind == "array" and ty.elem is not None and ty.elem.kind == "char":
                return E(STRING.with_length(len(s)), lambda c: s)
            self.error("S-type", f"string literal \"{s}\" where {ty} is required ({what})", line, found="string", want=cat(ty))
            return self.err_e()
        if e.poly == "agg":
            return self.aggregate(e.lit[0], e.lit[1], ty)
        raise AssertionError(e.poly)

    def aggregate(self, n, scope, ty):
        if ty.kind != "array":
            self.error("S-type", f"aggregate where {ty} is required", n.line, found="aggregate", want=cat(ty))
            return self.err_e()
        elem_ty = ty.elem
        positional = []
        named = {}  # index -> E
        others = None
        reads = set()
        for choices, ex in n.elems:
            ee = self.fit(self.expr(ex, scope, elem_ty), elem_ty, ex.line, "aggregate element")
            reads |= ee.reads
            if choices is None:
                if named or others is not None:
                    self.error("S-parse", "positional association after named association in aggregate", n.line)
                positional.append(ee)
                continue
            for ch in choices:
                if ch.kind == "others":
                    if others is not None:
                        self.error("S-choice", "duplicate others in aggregate", n.line, where="aggregate")
                    others = ee
                elif ch.kind == "range":
                    lo = self.static_int(ch.left, scope)
                    hi = self.static_int(ch.right, scope)
                    if lo is None or hi is None:
                        raise Unsupported("non-static aggregate range")
                    rng = range(lo, hi + 1) if ch.dir == "to" else range(hi, lo + 1)
                    for i in rng:
                        if i in named:
                            self.error("S-choice", f"index {i} given twice in aggregate", n.line, where="aggregate")
                        named[i] = ee
                else:
                    i = self.static_int(ch, scope)
                    if i is None:
                        self.error("S-choice", "aggregate choice is not a static integer", n.line, where="aggregate")
                        return self.err_e()
                    if i in named:
                        self.error("S-choice", f"index {i} given twice in aggregate", n.line, where="aggregate")
                    named[i] = ee
        if positional and named:
            self.error("S-parse", "mixed positional and named association in array aggregate", n.line)
            return self.err_e()
        rng = ty.rng
        if rng is None:
            if others is not None:
                self.error("S-type", "others choice in an aggregate whose index range is not known from the context", n.line,
                           found="aggregate-others", want=cat(ty))
                return self.err_e()
            if positional:
                rng = (0, "to", len(positional) - 1)
            elif named:
                lo, hi = min(named), max(named)
                rng = (lo, "to", hi)
            else:
                self.error("S-parse", "empty aggregate", n.line)
                return self.err_e()
        rty = ty.constrained(rng)
        length = rty.length
        slots = [None] * length
        if positional:
            if len(positional) > length or (len(positional) < length and others is None):
                self.error("S-width", f"aggregate with {len(positional)} elements for {rty}", n.line, where="aggregate",
                           got=len(positional), want=length)
                return self.err_e()
            for k, ee in enumerate(positional):
                slots[k] = ee
        for i, ee in named.items():
            l, d, r = rng
            inside = (r <= i <= l) if d == "downto" else (l <= i <= r)
            if not inside:
                self.error("S-width", f"aggregate index {i} outside {rty}", n.line, where="aggregate", got=i, want=length)
                return self.err_e()
            slots[rty.index_pos(i)] = ee
        for k in range(length):
            if slots[k] is None:
                if others is None:
                    self.error("S-width", f"aggregate does not give a value for every element of {rty}", n.line,
                               where="aggregate", got=sum(s is not None for s in slots), want=length)
                    return self.err_e()
                slots[k] = others
        fns = tuple(s.fn for s in slots)
        return E(rty, lambda c: tuple(f(c) for f in fns), frozenset(reads))

    def static_int(self, n, scope):
        e = self.expr(n, scope, INTEGER)
        e = self.resolve(e, INTEGER, n.line)
        if e.ty is ERR or e.ty.kind != "int":
            return None
        sv = e.static_value()
        return sv[0] if sv else None

    # ------------------------------------------------------------------ compatibility
    def fit(self, e, ty, line, what="assignment"):
        """make `e` usable where a value of subtype `ty` is required; report S-type / S-width."""
        if e.ty is ERR or ty is ERR:
            return e if e.ty is ERR else self.err_e()
        if e.poly:
            e = self.resolve(e, ty, line, what)
            if e.ty is ERR:
                return e
        if not e.ty.same_base(ty):
            self.error("S-type", f"{what}: value of type {e.ty} where {ty} is required", line, found=cat(e.ty), want=cat(ty), where=what)
            return self.err_e()
        if ty.kind == "array":
            a, b = e.ty.length, ty.length
            if a is not None and b is not None and a != b:
                self.error("S-width", f"{what}: value of length {a} where length {b} is required", line, got=a, want=b,
                           where=what, base=cat(ty))
                return self.err_e()
            if ty.elem is not None and ty.elem.kind == "array":
                ea, eb = e.ty.elem.length, ty.elem.length
                if ea is not None and eb is not None and ea != eb:
                    self.error("S-width", f"{what}: element length {ea} where {eb} is required", line, got=ea, want=eb, where=what)
                    return self.err_e()
        return e

    # ------------------------------------------------------------------ names
    def _x_name(self, n, scope, want):
        ent = self.lookup(scope, n.id)
        if ent is None:
            if n.id in ("true", "false"):
                v = n.id == "true"
                return E(BOOLEAN, lambda c: v)
            if n.id in PREDEFINED_TYPES:
                self.error("S-type", f"type name {n.raw} used as a value", n.line, found="type")
                return self.err_e()
            self.error("S-unres", f"name {n.raw} is not declared", n.line, name=self.name_class(n.raw))
            return self.err_e()
        return self.name_entry(ent, n, scope, want)

    def name_entry(self, ent, n, scope, want):
        k = ent.kind
        if k == "object":
            return self.read_obj(ent, n)
        if k == "enumlit":
            cands = ent.cands  # [(Ty, pos)]
            if len(cands) == 1 or want is None:
                ty, pos = cands[0]
                if len(cands) > 1:
                    raise Unsupported("overloaded enumeration literal without context")
            else:
                m = [c for c in cands if c[0].same_base(want)]
                if not m:
                    self.error("S-type", f"enumeration literal {n.raw} where {want} is required", n.line, found="enumlit", want=cat(want))
                    return self.err_e()
                ty, pos = m[0]
            return E(ty, lambda c: pos)
        if k == "type":
            hidden = " (a user declaration hides the predefined name)" if getattr(ent, "user", False) else ""
            self.error("S-type", f"type name {n.raw} used as a value{hidden}", n.line, found="type")
            return self.err_e()
        if k == "function":
            return self.call_user(ent, [], n, scope)
        if k == "label":
            self.error("S-type", f"label {n.raw} used as a value", n.line, found="label")
            return self.err_e()
        raise Unsupported(f"name of kind {k}")

    def read_obj(self, obj, n):
        if obj.cls == "port" and obj.mode == "out":
            self.error("S-mode", f"output port {obj.raw} is read", n.line, port_mode="out", access="read")
        if obj.cls in ("signal", "port"):
            i = obj.idx
            self.note_read(obj)
            return E(obj.ty, lambda c: c.s[i].cur, frozenset((obj,)), obj=obj, is_signal_name=True, path=())
        if obj.cls == "variable":
            if obj.owner is not self.cur_owner:
                self.error("S-unres", f"variable {obj.raw} referenced outside its process", n.line, name="variable-outside-process")
                return self.err_e()
            i = obj.idx
            return E(obj.ty, lambda c: c.v[i], obj=obj, path=())
        if obj.cls == "constant":
            v = obj.value
            return E(obj.ty, lambda c: v, obj=obj, path=())
        if obj.cls == "param":
            i = obj.idx
            return E(obj.ty, lambda c: c.v[i], obj=obj, path=())
        raise AssertionError(obj.cls)

    def _x_selected(self, n, scope, want):
        raise Unsupported("selected name in expression")

    def _x_attribute(self, n, scope, want):
        attr = n.attr
        if attr in ("length", "left", "right", "high", "low"):
            p = self.expr(n.prefix, scope) if n.prefix.kind != "name" or self.lookup_kind(scope, n.prefix.id) != "type" else None
            ty = p.ty if p is not None else self.lookup(scope, n.prefix.id).ty
            if ty is ERR:
                return self.err_e()
            if ty.kind != "array" or ty.rng is None:
                raise Unsupported(f"attribute {attr} of {ty}")
            l, d, r = ty.rng
            v = {"length": ty.length, "left": l, "right": r, "high": max(l, r), "low": min(l, r)}[attr]
            return E(None, lambda c: v, poly="uint", lit=v)
        if attr == "event":
            p = self.expr(n.prefix, scope)
            if not p.is_signal_name or p.path != ():
                raise Unsupported("'event on non-signal")
            i = p.obj.idx
            return E(BOOLEAN, lambda c: c.s[i].event_id == c.k.cur_id, p.reads)
        raise Unsupported(f"attribute {attr}")

    def _x_qualified(self, n, scope, want):
        if n.mark.kind != "name":
            raise Unsupported("qualified expression with complex type mark")
        ty = self.type_mark(n.mark.id, n.mark.raw, scope, n.line)
        if ty is ERR:
            return self.err_e()
        inner = self.expr(n.value, scope, ty)
        e = self.fit(inner, ty, n.line, "qualified expression")
        if e.ty is ERR:
            return e
        # the result has the subtype of the type mark; for unconstrained marks the operand's bounds
        return E(e.ty if ty.kind == "array" and ty.rng is None else ty, e.fn, e.reads)

    # ------------------------------------------------------------------ apply: call / conversion / index / slice
    def _x_apply(self, n, scope, want):
        p = n.prefix
        if p.kind == "name":
            ent = self.lookup(scope, p.id)
            if ent is None:
                if p.id in PREDEFINED_TYPES:
                    return self.conversion(PREDEFINED_TYPES[p.id], n, scope)
                if p.id in PREDEFINED_FUNCTIONS:
                    return self.call_builtin(p.id, n, scope, want)
                self.error("S-unres", f"name {p.raw} is not declared", p.line, name=self.name_class(p.raw))
                for a in n.args:
                    if a.kind not in ("range", "named_arg"):
                        self.expr(a, scope)
                return self.err_e()
            if ent.kind == "type":
                return self.conversion(ent.ty, n, scope)
            if ent.kind == "function":
                return self.call_user(ent, n.args, n, scope)
            if ent.kind in ("object",) and (p.id in PREDEFINED_TYPES or p.id in PREDEFINED_FUNCTIONS):
                # a user object hides a predefined type/function: if the use only makes sense with the
                # predefined meaning, report the hiding
                before = len(self.errors)
                try:
                    e = self.index_or_slice(self.name_entry(ent, p, scope, None), n, scope)
                except Unsupported:
                    e = self.err_e()
                if e.ty is ERR:
                    del self.errors[before:]
                    self.error("S-hide", f"user declaration {ent.raw} hides predefined {p.id} which the text uses", p.line,
                               name=p.id)
                return e
            base = self.name_entry(ent, p, scope, None)
        else:
            base = self.expr(p, scope)
        return self.index_or_slice(base, n, scope)

    def index_or_slice(self, base, n, scope):
        if base.ty is ERR:
            for a in n.args:
                if a.kind not in ("range", "named_arg"):
                    self.expr(a, scope)
            return base
        ty = base.ty
        if base.poly or ty.kind != "array":
            self.error("S-type", f"indexed or sliced prefix is not an array ({ty})", n.line, found=cat(ty), where="index")
            return self.err_e()
        if len(n.args) != 1:
            self.error("S-type", f"{len(n.args)} indices for a one-dimensional array", n.line, where="index")
            return self.err_e()
        if base.obj is None:
            raise Unsupported("index/slice of an expression that is not a name")
        if ty.rng is None:
            raise Unsupported("index of unconstrained array value")
        a = n.args[0]
        bf = base.fn
        if a.kind == "range":
            le = self.fit(self.expr(a.left, scope, INTEGER), INTEGER, a.line, "slice bound")
            re_ = self.fit(self.expr(a.right, scope, INTEGER), INTEGER, a.line, "slice bound")
            if le.ty is ERR or re_.ty is ERR:
                return self.err_e()
            ls, rs = le.static_value(), re_.static_value()
            if not ls or not rs:
                raise Unsupported("slice with non-static bounds")
            l, r, d = ls[0], rs[0], a.dir
            if d != ty.rng[1]:
                n_elems = (l - r + 1) if d == "downto" else (r - l + 1)
                if n_elems > 0:
                    self.error("S-type", f"slice direction '{d}' does not match the direction of {ty}", n.line, where="slice-direction")
                    return self.err_e()
            rty = ty.constrained((l, d, r))
            ln = rty.length
            if ln == 0:
                return E(rty, lambda c: (), base.reads, obj=base.obj, is_signal_name=base.is_signal_name,
                         path=base.path + (("slc", ty, l, d, r),))
            tl, td, tr = ty.rng
            lo_ok = (tr <= r and l <= tl) if td == "downto" else (tl <= l and r <= tr)
            if not lo_ok:
                self.error("S-width", f"slice ({l} {d} {r}) outside the bounds of {ty}", n.line, where="slice-bounds", got=l, want=tl)
                return self.err_e()
            p0 = ty.index_pos(l)
            p1 = p0 + ln
            return E(rty, lambda c: bf(c)[p0:p1], base.reads, obj=base.obj, is_signal_name=base.is_signal_name,
                     path=base.path + (("slc", ty, l, d, r),))
        ie = self.fit(self.expr(a, scope, INTEGER), INTEGER, a.line, "array index")
        if ie.ty is ERR:
            return self.err_e()
        sv = ie.static_value()
        ety = ty.elem
        if sv:
            i = sv[0]
            tl, td, tr = ty.rng
            if not ((tr <= i <= tl) if td == "downto" else (tl <= i <= tr)):
                self.error("S-width", f"index {i} outside the bounds of {ty}", n.line, where="index-bounds", got=i, want=tl)
                return self.err_e()
            pos = ty.index_pos(i)
            return E(ety, lambda c: bf(c)[pos], base.reads, obj=base.obj, is_signal_name=base.is_signal_name,
                     path=base.path + (("idx", ty, ie),))
        ifn = ie.fn
        ip = ty.index_pos
        return E(ety, lambda c: bf(c)[ip(ifn(c))], base.reads | ie.reads, obj=base.obj, is_signal_name=base.is_signal_name,
                 path=base.path + (("idx", ty, ie),))

    def conversion(self, ty, n, scope):
        if len(n.args) != 1 or n.args[0].kind in ("range", "named_arg"):
            self.error("S-type", f"type conversion to {ty} needs exactly one operand", n.line, where="conversion")
            return self.err_e()
        a = self.expr(n.args[0], scope)
        if a.ty is ERR:
            return a
        if a.poly in ("str", "agg", "char"):
            self.error("S-type", f"operand of a type conversion to {ty} must have a type determinable without context "
                       f"(found a {a.poly} literal)", n.line, where="conversion", found=a.poly, want=cat(ty))
            return self.err_e()
        if ty.kind == "int":
            if a.poly == "uint":
                return E(INTEGER, a.fn, a.reads)
            if a.ty.kind == "int":
                return E(ty, a.fn, a.reads)
            self.error("S-type", f"no conversion from {a.ty} to {ty}", n.line, where="conversion", found=cat(a.ty), want=cat(ty))
            return self.err_e()
        if a.poly == "uint":
            self.error("S-type", f"no conversion from an integer to {ty}", n.line, where="conversion", found="int", want=cat(ty))
            return self.err_e()
        if ty.kind == "array" and a.ty.kind == "array" and ty.elem.base == a.ty.elem.base and ty.elem.kind != "array":
            # closely related array types: same element type, same index type
            if ty.rng is not None and a.ty.length is not None and ty.length != a.ty.length:
                self.error("S-width", f"conversion of length {a.ty.length} to {ty}", n.line, where="conversion", got=a.ty.length, want=ty.length)
                return self.err_e()
            rty = ty if ty.rng is not None else Ty("array", ty.base, elem=ty.elem, rng=a.ty.rng, name=ty.name)
            return E(rty, a.fn, a.reads)
        if ty.same_base(a.ty):
            return E(a.ty if ty.kind == "array" and ty.rng is None else ty, a.fn, a.reads)
        self.error("S-type", f"no conversion from {a.ty} to {ty}", n.line, where="conversion", found=cat(a.ty), want=cat(ty))
        return self.err_e()

    # ------------------------------------------------------------------ function calls
    def args_positional(self, n):
        for a in n.args:
            if a.kind == "range":
                self.error("S-type", "range used as a function argument", n.line, where="call")
                return None
            if a.kind == "named_arg":
                raise Unsupported("named association in function call")
        return n.args

    def call_builtin(self, name, n, scope, want):
        args = self.args_positional(n)
        if args is None:
            return self.err_e()

        def bad(msg, **kw):
            self.error("S-type", f"{name}: {msg}", n.line, where="call:" + name, **kw)
            return self.err_e()

        def numvec(k):
            a = self.expr(args[k], scope)
            if a.ty is ERR:
                return a
            if a.poly or cat(a.ty) not in NUM:
                if a.poly == "str":
                    return "ambiguous"
                return None
            return a

        def nat(k, what):
            a = self.fit(self.expr(args[k], scope, NATURAL), NATURAL, n.line, f"{name} {what}")
            return a

        if name in ("resize", "shift_left", "shift_right", "rotate_left", "rotate_right"):
            if len(args) != 2:
                return bad(f"expects 2 arguments, got {len(args)}")
            a = numvec(0)
            if a is None or a == "ambiguous":
                at = self.expr(args[0], scope)
                return bad(f"first argument must be UNSIGNED or SIGNED, found {at.ty if not at.poly else at.poly}",
                           found=cat(at.ty) if not at.poly else at.poly)
            b = nat(1, "count/size")
            if a.ty is ERR or b.ty is ERR:
                return self.err_e()
            signed = cat(a.ty) == "signed"
            af, bfn = a.fn, b.fn
            reads = a.reads | b.reads
            if name == "resize":
                rs = V.resize_s if signed else V.resize_u
                sv = b.static_value()
                rty = a.ty.with_length(sv[0] if sv and sv[0] >= 0 else None)
                return E(rty, lambda c: rs(af(c), bfn(c)), reads)
            f = {"shift_left": V.shift_left, "shift_right": V.shift_right}.get(name)
            if f:
                return E(a.ty.with_length(a.ty.length), lambda c: f(af(c), bfn(c), signed), reads)
            g = V.rotate_left if name == "rotate_left" else V.rotate_right
            return E(a.ty.with_length(a.ty.length), lambda c: g(af(c), bfn(c)), reads)
        if name == "to_integer":
            if len(args) != 1:
                return bad("expects 1 argument")
            a = numvec(0)
            if a is None or a == "ambiguous":
                at = self.expr(args[0], scope)
                return bad(f"argument must be UNSIGNED or SIGNED, found {at.ty if not at.poly else at.poly}",
                           found=cat(at.ty) if not at.poly else at.poly)
            if a.ty is ERR:
                return a
            af = a.fn
            f = V.to_integer_s if cat(a.ty) == "signed" else V.to_integer_u
            return E(INTEGER if cat(a.ty) == "signed" else NATURAL, lambda c: f(af(c)), a.reads)
        if name in ("to_unsigned", "to_signed"):
            if len(args) != 2:
                return bad(f"expects 2 arguments, got {len(args)}")
            t0 = NATURAL if name == "to_unsigned" else INTEGER
            a = self.fit(self.expr(args[0], scope, t0), t0, n.line, f"{name} ARG")
            b = nat(1, "SIZE")
            if a.ty is ERR or b.ty is ERR:
                return self.err_e()
            af, bfn = a.fn, b.fn
            f = V.to_unsigned if name == "to_unsigned" else V.to_signed
            sv = b.static_value()
            rty = (UNSIGNED if name == "to_unsigned" else SIGNED).with_length(sv[0] if sv and sv[0] >= 0 else None)
            return E(rty, lambda c: f(af(c), bfn(c)), a.reads | b.reads)
        if name in ("rising_edge", "falling_edge"):
            if len(args) != 1:
                return bad("expects 1 argument")
            a = self.expr(args[0], scope)
            if a.ty is ERR:
                return a
            if a.poly or a.ty.kind != "sl":
                return bad(f"argument must be a std_ulogic signal, found {a.ty if not a.poly else a.poly}",
                           found=cat(a.ty) if not a.poly else a.poly)
            if not a.is_signal_name:
                return bad("argument must be a signal", found="non-signal")
            if a.path != ():
                raise Unsupported("edge function on an element of a composite signal")
            i = a.obj.idx
            hi, lo = (V.L1, V.L0) if name == "rising_edge" else (V.L0, V.L1)
            TX = V.TO_X01

            def edge(c):
                s = c.s[i]
                return s.event_id == c.k.cur_id and TX[s.cur] == hi and TX[s.last] == lo
            e = E(BOOLEAN, edge, a.reads)
            self.note_edge(a.obj)
            return e
        if name in ("to_01",):
            a = numvec(0)
            if a in (None, "ambiguous") or a.ty is ERR:
                return bad("argument must be UNSIGNED or SIGNED")
            af = a.fn

            def to01(c):
                v = af(c)
                if V.u_to_int(v) is None:
                    return (V.L0,) * len(v)
                return tuple(V.TO_X01[x] for x in v)
            return E(a.ty, to01, a.reads)
        raise Unsupported(f"predefined function {name}")

    def call_user(self, ent, argnodes, n, scope):
        fdef = ent.fdef
        if any(a.kind in ("range", "named_arg") for a in argnodes):
            raise Unsupported("named association / range in user function call")
        if len(argnodes) != len(fdef.params):
            self.error("S-type", f"function {ent.raw} called with {len(argnodes)} arguments, declared with {len(fdef.params)}",
                       n.line, where="call:user")
            return self.err_e()
        args = []
        reads = set()
        for a, p in zip(argnodes, fdef.params):
            e = self.fit(self.expr(a, scope, p.ty), p.ty, n.line, f"argument {p.raw} of {ent.raw}")
            if e.ty is ERR:
                return e
            args.append(e.fn)
            reads |= e.reads
        args = tuple(args)

        def call(c):
            return fdef.invoke(c, [f(c) for f in args])
        return E(fdef.ret, call, frozenset(reads))

    # ------------------------------------------------------------------ operators
    def _x_unop(self, n, scope, want):
        op = n.op
        a = self.expr(n.arg, scope, want if op != "not" or (want is not None and want is not ERR and want.kind != "bool") else want)
        if a.ty is ERR:
            return a
        if op in ("-", "+", "abs"):
            if a.poly == "uint":
                v = a.lit
                if v is not None:
                    nv = -v if op == "-" else abs(v) if op == "abs" else v
                    return E(None, lambda c: nv, poly="uint", lit=nv)
            if a.poly:
                self.error("S-type", f"unary {op} on a {a.poly} literal", n.line, op="unary" + op, left=a.poly)
                return self.err_e()
            k = cat(a.ty)
            af = a.fn
            if k == "int":
                if op == "-":
                    return E(INTEGER, lambda c: V.check_integer(-af(c)), a.reads)
                if op == "abs":
                    return E(INTEGER, lambda c: V.check_integer(abs(af(c))), a.reads)
                return E(INTEGER, af, a.reads)
            if k == "signed":
                if op == "-":
                    return E(a.ty.with_length(a.ty.length), lambda c: V.neg_s(af(c)), a.reads)
                if op == "abs":
                    return E(a.ty.with_length(a.ty.length), lambda c: V.abs_s(af(c)), a.reads)
                return E(a.ty, af, a.reads)
            self.error("S-type", f"no unary operator \"{op}\" for {a.ty} (numeric_std declares it for SIGNED only)", n.line,
                       op="unary" + op, left=k)
            return self.err_e()
        if op == "not":
            if a.poly:
                if want is not None and want is not ERR:
                    a = self.resolve(a, want, n.line)
                    if a.ty is ERR:
                        return a
                else:
                    self.error("S-type", f"operand type of 'not' cannot be determined ({a.poly} literal)", n.line, op="not", left=a.poly)
                    return self.err_e()
            k = cat(a.ty)
            af = a.fn
            if k == "bool":
                return E(BOOLEAN, lambda c: not af(c), a.reads)
            if k == "sl":
                NT = V.NOT_T
                return E(STD_ULOGIC, lambda c: NT[af(c)], a.reads)
            if k in VEC:
                return E(a.ty, lambda c: V.vec_not(af(c)), a.reads)
            self.error("S-type", f"no operator \"not\" for {a.ty}", n.line, op="not", left=k)
            return self.err_e()
        raise Unsupported(f"unary {op}")

    def _x_binop(self, n, scope, want):
        from .binop import binop
        return binop(self, n, scope, want)
