"""Definite-assignment dataflow over the processes of emitted VHDL (used by C08), written on
the raw parse tree, independent of cohdl's own temporaries analysis.

For every process variable declared WITHOUT initial value (compiler intermediates; user
variables are passed in `exclude`) a read must be dominated by a whole-variable write on every
path through one activation of the process.  Also provides the run-time counterpart:
`poison(sim, design)` re-sets those variables to their uninitialised value before every
activation, so that any dependence on a value left over from an earlier activation shows up
as a changed (or undefined) output.
"""
from __future__ import annotations

from .parser import N, parse


def _reads(node, acc):
    """collect lower-case identifiers read by an expression / name tree"""
    if node is None:
        return
    if isinstance(node, (list, tuple)):
        for x in node:
            _reads(x, acc)
        return
    if not isinstance(node, N):
        return
    if node.kind == "name":
        acc.add(node.id)
        return
    for v in node.__dict__.values():
        if isinstance(v, (N, list, tuple)):
            _reads(v, acc)


def _target_root(t):
    idx_reads = set()
    whole = True
    while t.kind == "apply":
        whole = False
        _reads(t.args, idx_reads)
        t = t.prefix
    return (t.id if t.kind == "name" else None), whole, idx_reads


class Flow:
    def __init__(self, temps):
        self.temps = temps
        self.violations = []  # (variable, line, why)

    def use(self, names, defined, line, why):
        for n in names:
            if n in self.temps and n not in defined:
                self.violations.append((n, line, why))

    def block(self, stmts, defined):
        for s in stmts:
            defined = self.stmt(s, defined)
        return defined

    def stmt(self, s, defined):
        k = s.kind
        if k in ("var_assign", "sig_assign"):
            r = set()
            _reads(s.value, r)
            root, whole, idx = _target_root(s.target)
            self.use(r | idx, defined, s.line, "read in assignment source/index")
            if k == "var_assign" and root is not None:
                if whole:
                    defined = defined | {root}
                else:
                    # a partial write keeps the other elements: the variable must already hold a value
                    self.use({root}, defined, s.line, "partial write to an unassigned intermediate")
            return defined
        if k == "if":
            outs = []
            for cond, body in s.arms:
                r = set()
                _reads(cond, r)
                self.use(r, defined, s.line, "read in if condition")
                outs.append(self.block(body, defined))
            outs.append(self.block(s.orelse, defined) if s.orelse else defined)
            res = outs[0]
            for o in outs[1:]:
                res = res & o
            return res
        if k == "case":
            r = set()
            _reads(s.selector, r)
            self.use(r, defined, s.line, "read in case expression")
            outs = [self.block(body, defined) for _, body in s.arms]
            has_others = any(ch.kind == "others" for chs, _ in s.arms for ch in chs)
            if not has_others:
                outs.append(defined)
            res = outs[0]
            for o in outs[1:]:
                res = res & o
            return res
        if k == "assert":
            r = set()
            _reads(s.cond, r)
            self.use(r, defined, s.line, "read in assert")
            return defined
        if k == "return":
            r = set()
            _reads(s.value, r)
            self.use(r, defined, s.line, "read in return")
            return defined
        return defined


def _excluded(name, exclude):
    """user variables keep their name, possibly with a uniquifying decimal suffix"""
    return name in exclude or name.rstrip("0123456789") in exclude


def analyse_text(vhdl: str, exclude=()):
    """-> list of dicts {entity, process, variable, line, why}; and the number of intermediates examined"""
    units, _ = parse(vhdl)
    exclude = {e.lower() for e in exclude}
    out = []
    n_temps = 0
    n_procs = 0
    for u in units:
        if u.kind != "architecture":
            continue
        for st in u.stmts:
            if st.kind != "process":
                continue
            n_procs += 1
            temps = {d.name for d in st.decls if d.kind == "object" and d.cls == "variable" and d.init is None
                     and not _excluded(d.name, exclude)}
            n_temps += len(temps)
            fl = Flow(temps)
            fl.block(st.body, frozenset())
            for var, line, why in fl.violations:
                out.append({"entity": u.entity, "process": st.label, "variable": var, "line": line, "why": why})
    return out, n_temps, n_procs


def _poison_value(ty, mode):
    if mode == 0:
        return ty.default_value()
    if ty.kind == "bool":
        return True
    if ty.kind == "sl":
        return 3  # '1'
    if ty.kind == "int":
        return 0 if ty.lo <= 0 <= ty.hi else ty.hi
    if ty.kind == "enum":
        return len(ty.literals) - 1
    if ty.kind == "array":
        return (_poison_value(ty.elem, mode),) * ty.length
    return ty.default_value()


def poison(sim, exclude=(), mode=0):
    """wrap every process of `sim` so that its uninitialised variables are re-set before each run
    (mode 0: to their uninitialised value 'U'/false/integer'left; mode 1: to ones/true/0).
    Returns the number of variables poisoned."""
    exclude = {e.lower() for e in exclude}
    count = 0
    design = sim.design
    # map (ctx index) -> architecture info: contexts were created in elaboration order
    infos = {}
    for p in sim.procs:
        infos.setdefault(id(p.ctx), p.ctx)
    for ent in design.entities.values():
        ai = ent.arch
        if ai is None:
            continue
        for pinfo in ai.procs:
            if pinfo.kind != "process" or pinfo.body is None:
                continue
            idxs = [(o.idx, o.ty) for o in pinfo.var_objs if o.init is None and not _excluded(o.name, exclude) and o.cls == "variable"]
            if not idxs:
                continue
            for pr in sim.procs:
                if pr.fn is pinfo.body:
                    count += len(idxs)

                    def wrapped(c, fn=pinfo.body, idxs=tuple(idxs), mode=mode):
                        for i, ty in idxs:
                            c.v[i] = _poison_value(ty, mode)
                        fn(c)
                    pr.fn = wrapped
    return count
