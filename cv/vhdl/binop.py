"""Binary operator resolution (see expr.py).  Profiles transcribed from the package
declarations of std.standard, ieee.std_logic_1164 and ieee.numeric_std."""
from __future__ import annotations

from . import values as V
from .expr import E, ERR, LOGIC_T, NUM, VEC, cat
from .lexer import Unsupported
from .types import BOOLEAN, INTEGER, SIGNED, SLV, STD_ULOGIC, UNSIGNED

LOGICAL = ("and", "or", "xor", "nand", "nor", "xnor")
RELOPS = ("=", "/=", "<", "<=", ">", ">=")


def _pd(e):
    return e.poly if e.poly else cat(e.ty)


def binop(an, n, scope, want):
    op = n.op
    if op in LOGICAL:
        return _logical(an, n, scope, want)
    if op in RELOPS:
        return _relational(an, n, scope)
    if op in ("+", "-", "*", "/", "mod", "rem"):
        return _arith(an, n, scope, want)
    if op == "&":
        return _concat(an, n, scope, want)
    if op == "**":
        l = an.fit(an.expr(n.left, scope, INTEGER), INTEGER, n.line, "operand of **")
        r = an.fit(an.expr(n.right, scope, INTEGER), INTEGER, n.line, "operand of **")
        if l.ty is ERR or r.ty is ERR:
            return an.err_e()
        lf, rf = l.fn, r.fn

        def power(c):
            b = rf(c)
            if b < 0:
                raise V.SimError("range_check", "negative exponent")
            return V.check_integer(lf(c) ** b)
        return E(INTEGER, power, l.reads | r.reads)
    raise Unsupported(f"operator {op}")


def _notype(an, n, l, r):
    an.error("S-type", f"no operator \"{n.op}\" for operands ({_show(l)}, {_show(r)})", n.line, op=n.op, left=_pd(l), right=_pd(r))
    return an.err_e()


def _show(e):
    return f"{e.poly} literal" if e.poly else repr(e.ty)


# ---------------------------------------------------------------------------- logical
def _logical(an, n, scope, want):
    op = n.op
    l = an.expr(n.left, scope, want)
    r = an.expr(n.right, scope, want)
    if l.ty is ERR or r.ty is ERR:
        return an.err_e()
    if l.poly and not r.poly:
        l = an.resolve(l, r.ty, n.line, f"operand of {op}")
    elif r.poly and not l.poly:
        r = an.resolve(r, l.ty, n.line, f"operand of {op}")
    elif l.poly and r.poly:
        if want is None or want is ERR:
            an.error("S-type", f"operand types of \"{op}\" cannot be determined", n.line, op=op, left=_pd(l), right=_pd(r))
            return an.err_e()
        l = an.resolve(l, want, n.line)
        r = an.resolve(r, want, n.line)
    if l.ty is ERR or r.ty is ERR:
        return an.err_e()
    kl, kr = cat(l.ty), cat(r.ty)
    neg = op in ("nand", "nor", "xnor")
    base = {"nand": "and", "nor": "or", "xnor": "xor"}.get(op, op)
    lf, rf = l.fn, r.fn
    reads = l.reads | r.reads
    if kl == kr == "bool":
        if base == "and":
            f = lambda c: lf(c) and rf(c)  # noqa: E731
        elif base == "or":
            f = lambda c: lf(c) or rf(c)  # noqa: E731
        else:
            f = lambda c: lf(c) != rf(c)  # noqa: E731
        # VHDL evaluates both operands of a non-short-circuit... "and"/"or" on BOOLEAN are short-circuit
        if neg:
            g = f
            f = lambda c: not g(c)  # noqa: E731
        return E(BOOLEAN, f, reads)
    T = LOGIC_T[base]
    NT = V.NOT_T
    if kl == kr == "sl":
        if neg:
            return E(STD_ULOGIC, lambda c: NT[T[lf(c)][rf(c)]], reads)
        return E(STD_ULOGIC, lambda c: T[lf(c)][rf(c)], reads)
    if kl == kr and kl in VEC:
        a, b = l.ty.length, r.ty.length
        if a is not None and b is not None and a != b:
            an.error("S-width", f"operator \"{op}\" on vectors of length {a} and {b}", n.line, where="logical", got=b, want=a, op=op)
            return an.err_e()
        if neg:
            return E(l.ty.with_length(a), lambda c: V.vec_not(V.vec_logic(T, lf(c), rf(c))), reads)
        return E(l.ty.with_length(a), lambda c: V.vec_logic(T, lf(c), rf(c)), reads)
    if kl in VEC and kr == "sl":  # VHDL-2008
        f = lambda c: tuple(T[x][rf(c)] for x in lf(c))  # noqa: E731
        return E(l.ty, (lambda c: V.vec_not(f(c))) if neg else f, reads)
    if kl == "sl" and kr in VEC:  # VHDL-2008
        f = lambda c: tuple(T[lf(c)][x] for x in rf(c))  # noqa: E731
        return E(r.ty, (lambda c: V.vec_not(f(c))) if neg else f, reads)
    return _notype(an, n, l, r)


# ---------------------------------------------------------------------------- relational
def _relational(an, n, scope):
    op = n.op
    l = an.expr(n.left, scope)
    r = an.expr(n.right, scope)
    if l.ty is ERR or r.ty is ERR:
        return an.err_e()
    reads = l.reads | r.reads
    # universal integer against numeric vector: numeric_std (vec, INTEGER/NATURAL) profiles
    for a, b, swapped in ((l, r, False), (r, l, True)):
        if not a.poly and cat(a.ty) in NUM and (b.poly == "uint" or (not b.poly and cat(b.ty) == "int")):
            signed = cat(a.ty) == "signed"
            af, bf = a.fn, b.fn
            return E(BOOLEAN, lambda c: V.compare_int(af(c), bf(c), signed, op, swapped), reads)
    if l.poly and r.poly:
        if l.poly == "uint" and r.poly == "uint":
            lf, rf = l.fn, r.fn
            return E(BOOLEAN, lambda c: V._cmp(lf(c), rf(c), op), reads)
        an.error("S-type", f"operand types of \"{op}\" cannot be determined (ambiguous literals)", n.line, op=op, left=_pd(l), right=_pd(r))
        return an.err_e()
    if l.poly:
        l = an.resolve(l, r.ty, n.line, f"operand of {op}")
    elif r.poly:
        r = an.resolve(r, l.ty, n.line, f"operand of {op}")
    if l.ty is ERR or r.ty is ERR:
        return an.err_e()
    kl, kr = cat(l.ty), cat(r.ty)
    lf, rf = l.fn, r.fn
    if kl != kr:
        return _notype(an, n, l, r)
    if kl in NUM:
        signed = kl == "signed"
        return E(BOOLEAN, lambda c: V.compare(lf(c), rf(c), signed, op), reads)
    if kl in ("sl", "bool", "int", "char") or kl.startswith("enum:"):
        return E(BOOLEAN, lambda c: V._cmp(lf(c), rf(c), op), reads)
    if kl == "slv" or kl == "string":
        return E(BOOLEAN, lambda c: V.predefined_array_compare(lf(c), rf(c), op), reads)
    if kl.startswith("arr:"):
        if op in ("=", "/="):
            return E(BOOLEAN, lambda c: (lf(c) == rf(c)) == (op == "="), reads)
        return _notype(an, n, l, r)
    return _notype(an, n, l, r)


# ---------------------------------------------------------------------------- arithmetic
def _arith(an, n, scope, want):
    op = n.op
    l = an.expr(n.left, scope)
    r = an.expr(n.right, scope)
    if l.ty is ERR or r.ty is ERR:
        return an.err_e()
    reads = l.reads | r.reads
    pl, pr = _pd(l), _pd(r)
    # universal / INTEGER arithmetic
    if pl in ("uint", "int") and pr in ("uint", "int"):
        lf, rf = l.fn, r.fn

        def iop(c):
            a, b = lf(c), rf(c)
            if op == "+":
                v = a + b
            elif op == "-":
                v = a - b
            elif op == "*":
                v = a * b
            else:
                if b == 0:
                    raise V.SimError("division_by_zero", f"integer {op}")
                if op == "/":
                    v = V._trunc_div(a, b)
                elif op == "rem":
                    v = a - b * V._trunc_div(a, b)
                else:
                    v = a % b
            return V.check_integer(v)
        if pl == "uint" and pr == "uint":
            e = E(None, iop, reads, poly="uint")
            try:
                e.lit = iop(None)
            except V.SimError:
                e.lit = None
            return e
        return E(INTEGER, iop, reads)
    # string literal against numeric vector: the literal takes the vector's type
    if pl == "str" and pr in NUM:
        l = an.resolve(l, r.ty, n.line)
        pl = _pd(l)
    if pr == "str" and pl in NUM:
        r = an.resolve(r, l.ty, n.line)
        pr = _pd(r)
    if l.ty is ERR or r.ty is ERR:
        return an.err_e()
    lf, rf = l.fn, r.fn
    if pl in NUM and pr == pl:
        signed = pl == "signed"
        a, b = l.ty.length, r.ty.length
        if op in ("+", "-"):
            f = V.add if op == "+" else V.sub
            ln = max(a, b) if a is not None and b is not None else None
        elif op == "*":
            f = V.mul
            ln = a + b if a is not None and b is not None else None
        elif op == "/":
            f = V.div
            ln = a
        else:
            f = V.rem if op == "rem" else V.mod
            ln = b
        return E(l.ty.with_length(ln), lambda c: f(lf(c), rf(c), signed), reads)
    for vec, other, int_left in ((l, r, False), (r, l, True)):
        pv, po = _pd(vec), _pd(other)
        if pv in NUM and po in ("uint", "int"):
            signed = pv == "signed"
            vf, of = vec.fn, other.fn
            ln = vec.ty.length
            if op in ("+", "-"):
                return E(vec.ty.with_length(ln), lambda c: V.addsub_int(vf(c), of(c), signed, op, int_left), reads)
            if op == "*":
                return E(vec.ty.with_length(2 * ln if ln is not None else None),
                         lambda c: V.mul_int(vf(c), of(c), signed, int_left), reads)
            return E(vec.ty.with_length(ln), lambda c: V.divlike_int(vf(c), of(c), signed, op, int_left), reads)
        if pv in NUM and po == "sl" and op in ("+", "-"):  # VHDL-2008 (vec, std_ulogic)
            signed = pv == "signed"
            vf, of = vec.fn, other.fn

            def f2008(c):
                v, b = vf(c), of(c)
                bv = (V.L0,) * (len(v) - 1) + (b,)
                return (V.add if op == "+" else V.sub)(bv, v, signed) if int_left else (V.add if op == "+" else V.sub)(v, bv, signed)
            return E(vec.ty.with_length(vec.ty.length), f2008, reads)
    return _notype(an, n, l, r)


# ---------------------------------------------------------------------------- concatenation
def _concat(an, n, scope, want):
    l = an.expr(n.left, scope)
    r = an.expr(n.right, scope)
    if l.ty is ERR or r.ty is ERR:
        return an.err_e()
    reads = l.reads | r.reads
    pl, pr = _pd(l), _pd(r)

    def arr_of(e):
        return not e.poly and e.ty.kind == "array"

    res_ty = None
    if arr_of(l):
        res_ty = l.ty
    elif arr_of(r):
        res_ty = r.ty
    elif want is not None and want is not ERR and want.kind == "array":
        res_ty = want
    else:
        # element & element (or literals only) without context
        an.error("S-type", "result type of \"&\" cannot be determined without context (ambiguous)", n.line, op="&", left=pl, right=pr)
        return an.err_e()
    if arr_of(l) and arr_of(r) and not l.ty.same_base(r.ty):
        return _notype(an, n, l, r)
    elem = res_ty.elem

    def side(e):
        """-> (fn producing tuple, length or None) or None on error"""
        if e.poly == "str" or e.poly == "agg":
            ee = an.resolve(e, Ty_unconstrained(res_ty), n.line, "operand of &")
            if ee.ty is ERR:
                return None
            return ee.fn, ee.ty.length
        if e.poly == "char" or e.poly == "uint":
            ee = an.resolve(e, elem, n.line, "operand of &")
            if ee.ty is ERR:
                return None
            f = ee.fn
            return (lambda c: (f(c),)), 1
        if e.ty.kind == "array":
            if not e.ty.same_base(res_ty):
                return "mismatch"
            return e.fn, e.ty.length
        if e.ty.same_base(elem):
            f = e.fn
            return (lambda c: (f(c),)), 1
        return "mismatch"

    a, b = side(l), side(r)
    if a is None or b is None:
        return an.err_e()
    if a == "mismatch" or b == "mismatch":
        return _notype(an, n, l, r)
    (af, al), (bf, bl) = a, b
    ln = al + bl if al is not None and bl is not None else None
    return E(Ty_unconstrained(res_ty).with_length(ln), lambda c: tuple(af(c)) + tuple(bf(c)), reads)


def Ty_unconstrained(ty):
    from .types import Ty
    return Ty("array", ty.base, elem=ty.elem, rng=None, name=ty.name)
