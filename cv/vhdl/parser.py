"""Recursive-descent parser for the VHDL subset of DESIGN.md appendix B.

Produces plain `N` nodes (kind + attributes + line).  Written from the LRM grammar:
anything cohdl could print that is *not* legal VHDL must fail here (VhdlSyntaxError);
legal VHDL outside the modelled subset raises Unsupported.
"""
from __future__ import annotations

from .lexer import Tok, Unsupported, VhdlSyntaxError, lex


class N:
    __slots__ = ("kind", "line", "__dict__")

    def __init__(self, kind, line=0, **kw):
        self.kind = kind
        self.line = line
        self.__dict__.update(kw)

    def __repr__(self):
        items = ", ".join(f"{k}={v!r}" for k, v in self.__dict__.items())
        return f"{self.kind}({items})"


LOGICAL = ("and", "or", "xor", "nand", "nor", "xnor")
RELOPS = ("=", "/=", "<", "<=", ">", ">=", "?=")
SHIFTS = ("sll", "srl", "sla", "sra", "rol", "ror")
ADDING = ("+", "-", "&")
MULT = ("*", "/", "mod", "rem")


class Parser:
    def __init__(self, text: str):
        toks, self.bad_idents = lex(text)
        self.comments = [t for t in toks if t.kind == "comment"]
        self.toks = [t for t in toks if t.kind != "comment"]
        self.all_toks = toks
        self.p = 0

    # ------------------------------------------------------------------ helpers
    @property
    def t(self) -> Tok:
        return self.toks[self.p]

    def peek(self, k=1) -> Tok:
        return self.toks[min(self.p + k, len(self.toks) - 1)]

    def err(self, msg):
        raise VhdlSyntaxError(f"{msg}, found {self.t.text!r}", self.t.line)

    def at(self, *texts):
        return self.t.kind in ("kw", "delim") and self.t.text in texts

    def accept(self, *texts):
        if self.at(*texts):
            tok = self.t
            self.p += 1
            return tok
        return None

    def expect(self, *texts):
        tok = self.accept(*texts)
        if tok is None:
            self.err(f"expected {' or '.join(texts)}")
        return tok

    def ident(self):
        if self.t.kind != "id":
            if self.t.kind == "kw":
                raise VhdlSyntaxError(f"reserved word {self.t.text!r} used as identifier", self.t.line)
            self.err("expected identifier")
        tok = self.t
        self.p += 1
        return tok

    # ------------------------------------------------------------------ design file
    def design_file(self):
        units = []
        ctx = []
        while self.t.kind != "eof":
            if self.at("library"):
                self.p += 1
                names = [self.ident().text]
                while self.accept(","):
                    names.append(self.ident().text)
                self.expect(";")
                ctx.append(N("library", names=names))
            elif self.at("use"):
                self.p += 1
                parts = [self.ident().text]
                while self.accept("."):
                    if self.accept("all"):
                        parts.append("all")
                    else:
                        parts.append(self.ident().text)
                self.expect(";")
                ctx.append(N("use", parts=parts))
            elif self.at("entity"):
                u = self.entity_decl()
                u.context = ctx
                ctx = []
                units.append(u)
            elif self.at("architecture"):
                u = self.architecture_body()
                u.context = ctx
                ctx = []
                units.append(u)
            elif self.at("package", "configuration", "context"):
                raise Unsupported(f"design unit {self.t.text}")
            else:
                self.err("expected design unit")
        return units

    def entity_decl(self):
        line = self.expect("entity").line
        name = self.ident()
        self.expect("is")
        generics, ports = [], []
        if self.accept("generic"):
            self.expect("(")
            generics = self.interface_list(generic=True)
            self.expect(")")
            self.expect(";")
        if self.accept("port"):
            self.expect("(")
            ports = self.interface_list()
            self.expect(")")
            self.expect(";")
        self.expect("end")
        self.accept("entity")
        if self.t.kind == "id":
            end = self.ident()
            if end.text != name.text:
                raise VhdlSyntaxError(f"entity {name.raw} closed with name {end.raw}", end.line)
        self.expect(";")
        return N("entity", line, name=name.text, raw=name.raw, generics=generics, ports=ports)

    def interface_list(self, generic=False):
        items = []
        while True:
            self.accept("signal") or self.accept("constant")
            names = [self.ident()]
            while self.accept(","):
                names.append(self.ident())
            self.expect(":")
            mode = "in"
            if self.at("in", "out", "inout", "buffer", "linkage"):
                mode = self.t.text
                self.p += 1
            st = self.subtype_indication()
            default = None
            if self.accept(":="):
                default = self.expression()
            for nm in names:
                items.append(N("port" if not generic else "generic", nm.line, name=nm.text, raw=nm.raw,
                               mode=mode, subtype=st, default=default))
            if not self.accept(";"):
                break
            if self.at(")"):
                raise VhdlSyntaxError("';' before ')' in interface list", self.t.line)
        return items

    def subtype_indication(self):
        line = self.t.line
        mark = self.ident()
        constraint = None
        if self.at("("):
            self.p += 1
            left = self.expression()
            if self.at("downto", "to"):
                d = self.t.text
                self.p += 1
                right = self.expression()
                constraint = (left, d, right)
            else:
                self.err("expected range in constraint")
            self.expect(")")
        elif self.at("range"):
            self.p += 1
            left = self.expression()
            d = self.expect("to", "downto").text
            right = self.expression()
            return N("subtype", line, mark=mark.text, raw=mark.raw, constraint=None, range=(left, d, right))
        return N("subtype", line, mark=mark.text, raw=mark.raw, constraint=constraint, range=None)

    def architecture_body(self):
        line = self.expect("architecture").line
        name = self.ident()
        self.expect("of")
        ent = self.ident()
        self.expect("is")
        decls = self.declarative_part(("begin",))
        self.expect("begin")
        stmts = []
        while not self.at("end"):
            stmts.append(self.concurrent_statement())
        self.expect("end")
        self.accept("architecture")
        if self.t.kind == "id":
            end = self.ident()
            if end.text != name.text:
                raise VhdlSyntaxError(f"architecture {name.raw} closed with name {end.raw}", end.line)
        self.expect(";")
        return N("architecture", line, name=name.text, raw=name.raw, entity=ent.text, decls=decls, stmts=stmts)

    # ------------------------------------------------------------------ declarations
    def declarative_part(self, stop):
        decls = []
        while not self.at(*stop):
            if self.at("signal", "variable", "constant", "shared"):
                self.accept("shared")
                cls = self.t.text
                line = self.t.line
                self.p += 1
                names = [self.ident()]
                while self.accept(","):
                    names.append(self.ident())
                self.expect(":")
                st = self.subtype_indication()
                init = None
                if self.accept(":="):
                    init = self.expression()
                self.expect(";")
                for nm in names:
                    decls.append(N("object", nm.line, cls=cls, name=nm.text, raw=nm.raw, subtype=st, init=init))
            elif self.at("type"):
                decls.append(self.type_decl())
            elif self.at("subtype"):
                line = self.t.line
                self.p += 1
                nm = self.ident()
                self.expect("is")
                st = self.subtype_indication()
                self.expect(";")
                decls.append(N("subtype_decl", line, name=nm.text, raw=nm.raw, subtype=st))
            elif self.at("function", "pure", "impure"):
                decls.append(self.function_body())
            elif self.at("attribute"):
                decls.append(self.attribute())
            elif self.at("component", "procedure", "alias", "file", "use", "for", "group", "disconnect"):
                raise Unsupported(f"declaration {self.t.text}")
            else:
                self.err("expected declaration or begin")
        return decls

    def type_decl(self):
        line = self.expect("type").line
        nm = self.ident()
        self.expect("is")
        if self.accept("("):
            lits = []
            while True:
                if self.t.kind == "char":
                    lits.append(Tok("id", f"'{self.t.text}'", self.t.line, f"'{self.t.text}'"))
                    self.p += 1
                else:
                    lits.append(self.ident())
                if not self.accept(","):
                    break
            self.expect(")")
            self.expect(";")
            return N("enum_type", line, name=nm.text, raw=nm.raw, literals=[(l.text, l.raw, l.line) for l in lits])
        if self.accept("array"):
            self.expect("(")
            left = self.expression()
            if self.at("to", "downto"):
                d = self.t.text
                self.p += 1
                right = self.expression()
            else:
                raise Unsupported("unconstrained / type-mark array index")
            self.expect(")")
            self.expect("of")
            elem = self.subtype_indication()
            self.expect(";")
            return N("array_type", line, name=nm.text, raw=nm.raw, range=(left, d, right), elem=elem)
        raise Unsupported(f"type definition starting with {self.t.text}")

    def attribute(self):
        line = self.expect("attribute").line
        nm = self.ident()
        if self.accept(":"):
            mark = self.ident()
            self.expect(";")
            return N("attr_decl", line, name=nm.text, raw=nm.raw, mark=mark.text)
        self.expect("of")
        target = self.ident()
        self.expect(":")
        if self.t.kind != "kw":
            self.err("expected entity class")
        ecls = self.t.text
        self.p += 1
        self.expect("is")
        val = self.expression()
        self.expect(";")
        return N("attr_spec", line, name=nm.text, target=target.text, ecls=ecls, value=val)

    def function_body(self):
        self.accept("pure") or self.accept("impure")
        line = self.expect("function").line
        nm = self.ident()
        params = []
        if self.accept("("):
            params = self.interface_list()
            self.expect(")")
        self.expect("return")
        ret = self.ident()
        self.expect("is")
        decls = self.declarative_part(("begin",))
        self.expect("begin")
        body = self.sequence(("end",))
        self.expect("end")
        self.accept("function")
        if self.t.kind == "id":
            end = self.ident()
            if end.text != nm.text:
                raise VhdlSyntaxError(f"function {nm.raw} closed with name {end.raw}", end.line)
        self.expect(";")
        return N("function", line, name=nm.text, raw=nm.raw, params=params, ret=ret.text, decls=decls, body=body)

    # ------------------------------------------------------------------ concurrent statements
    def concurrent_statement(self):
        line = self.t.line
        label = None
        if self.t.kind == "id" and self.peek().kind == "delim" and self.peek().text == ":":
            label = self.ident()
            self.expect(":")
        if self.at("postponed"):
            raise Unsupported("postponed")
        if self.at("process"):
            return self.process(label)
        if self.at("entity"):
            if label is None:
                raise VhdlSyntaxError("instantiation without label", line)
            return self.instantiation(label)
        if self.at("with"):
            return self.selected_assignment(label)
        if self.at("assert"):
            s = self.assert_stmt()
            s.kind = "conc_assert"
            return s
        if self.at("block", "component", "for", "if"):
            raise Unsupported(f"concurrent {self.t.text}")
        if self.t.kind == "id" and label is not None and not self._looks_like_assignment():
            raise Unsupported("component instantiation")
        target = self.target()
        self.expect("<=")
        if self.at("transport", "reject", "inertial", "guarded"):
            raise Unsupported("delay mechanism")
        waves = [(self.waveform(), None)]
        if self.at("after"):
            raise Unsupported("after clause")
        while self.accept("when"):
            cond = self.expression()
            waves[-1] = (waves[-1][0], cond)
            if self.accept("else"):
                waves.append((self.waveform(), None))
            else:
                break
        self.expect(";")
        if len(waves) == 1 and waves[0][1] is None:
            return N("conc_assign", line, label=label, target=target, value=waves[0][0])
        return N("cond_assign", line, label=label, target=target, waves=waves)

    def waveform(self):
        if self.at("unaffected"):
            line = self.t.line
            self.p += 1
            return N("unaffected", line)
        return self.expression()

    def _looks_like_assignment(self):
        # scan to ';' at depth 0 looking for '<='
        d, k = 0, self.p
        while self.toks[k].kind != "eof":
            tx = self.toks[k].text
            if self.toks[k].kind == "delim":
                if tx == "(":
                    d += 1
                elif tx == ")":
                    d -= 1
                elif tx == ";" and d == 0:
                    return False
                elif tx == "<=" and d == 0:
                    return True
            k += 1
        return False

    def process(self, label):
        line = self.expect("process").line
        sens = None
        if self.accept("("):
            sens = []
            if self.accept("all"):
                sens = "all"
            elif self.at(")"):
                raise VhdlSyntaxError("empty sensitivity list", self.t.line)
            else:
                sens.append(self.name())
                while self.accept(","):
                    sens.append(self.name())
            self.expect(")")
        self.accept("is")
        decls = self.declarative_part(("begin",))
        self.expect("begin")
        body = self.sequence(("end",))
        self.expect("end")
        self.accept("postponed")
        self.expect("process")
        if self.t.kind == "id":
            end = self.ident()
            if label is None or end.text != label.text:
                raise VhdlSyntaxError(f"process closed with label {end.raw}", end.line)
        self.expect(";")
        return N("process", line, label=label.text if label else None, label_raw=label.raw if label else None,
                 sens=sens, decls=decls, body=body)

    def instantiation(self, label):
        line = self.expect("entity").line
        lib = self.ident()
        self.expect(".")
        ent = self.ident()
        arch = None
        if self.accept("("):
            arch = self.ident().text
            self.expect(")")
        gmap, pmap = [], []
        if self.accept("generic"):
            self.expect("map")
            self.expect("(")
            gmap = self.assoc_list()
            self.expect(")")
        if self.accept("port"):
            self.expect("map")
            self.expect("(")
            pmap = self.assoc_list()
            self.expect(")")
        self.expect(";")
        return N("instance", line, label=label.text, label_raw=label.raw, lib=lib.text, entity=ent.text,
                 entity_raw=ent.raw, arch=arch, gmap=gmap, pmap=pmap)

    def assoc_list(self):
        items = []
        while True:
            line = self.t.line
            # named association: formal => actual
            save = self.p
            formal = None
            if self.t.kind == "id":
                try:
                    f = self.name()
                    if self.accept("=>"):
                        formal = f
                    else:
                        self.p = save
                except VhdlSyntaxError:
                    self.p = save
            if self.accept("open"):
                actual = None
            else:
                actual = self.expression()
            items.append(N("assoc", line, formal=formal, actual=actual))
            if not self.accept(","):
                break
        return items

    def selected_assignment(self, label):
        line = self.expect("with").line
        sel = self.expression()
        self.expect("select")
        target = self.target()
        self.expect("<=")
        arms = []
        while True:
            val = self.waveform()
            self.expect("when")
            choices = self.choices()
            arms.append((val, choices))
            if not self.accept(","):
                break
        self.expect(";")
        return N("select_assign", line, label=label, selector=sel, target=target, arms=arms)

    def choices(self):
        out = []
        while True:
            if self.accept("others"):
                out.append(N("others", self.t.line))
            else:
                e = self.expression()
                if self.at("to", "downto"):
                    d = self.t.text
                    self.p += 1
                    r = self.expression()
                    e = N("range", e.line, left=e, dir=d, right=r)
                out.append(e)
            if not self.accept("|"):
                break
        return out

    # ------------------------------------------------------------------ sequential statements
    def sequence(self, stop):
        out = []
        while not self.at(*stop):
            out.append(self.sequential_statement())
        return out

    def sequential_statement(self):
        line = self.t.line
        if self.t.kind == "id" and self.peek().text == ":" and self.peek().kind == "delim":
            self.ident()
            self.expect(":")
        if self.at("if"):
            self.p += 1
            arms = []
            cond = self.expression()
            self.expect("then")
            arms.append((cond, self.sequence(("elsif", "else", "end"))))
            orelse = []
            while True:
                if self.accept("elsif"):
                    c = self.expression()
                    self.expect("then")
                    arms.append((c, self.sequence(("elsif", "else", "end"))))
                elif self.accept("else"):
                    orelse = self.sequence(("end",))
                    break
                else:
                    break
            self.expect("end")
            self.expect("if")
            self.expect(";")
            return N("if", line, arms=arms, orelse=orelse)
        if self.at("case"):
            self.p += 1
            sel = self.expression()
            self.expect("is")
            arms = []
            if not self.at("when"):
                raise VhdlSyntaxError("case statement without alternatives", self.t.line)
            while self.accept("when"):
                ch = self.choices()
                self.expect("=>")
                arms.append((ch, self.sequence(("when", "end"))))
            self.expect("end")
            self.expect("case")
            self.expect(";")
            return N("case", line, selector=sel, arms=arms)
        if self.at("assert"):
            return self.assert_stmt()
        if self.at("report"):
            self.p += 1
            msg = self.expression()
            if self.accept("severity"):
                self.expression()
            self.expect(";")
            return N("report", line, msg=msg)
        if self.at("null"):
            self.p += 1
            self.expect(";")
            return N("null", line)
        if self.at("return"):
            self.p += 1
            val = None
            if not self.at(";"):
                val = self.expression()
            self.expect(";")
            return N("return", line, value=val)
        if self.at("wait"):
            self.p += 1
            if self.accept(";"):
                return N("wait_forever", line)
            raise Unsupported("wait statement with condition/timeout")
        if self.at("for", "while", "loop", "next", "exit"):
            raise Unsupported(f"sequential {self.t.text}")
        target = self.target()
        if self.accept("<="):
            if self.at("transport", "reject", "inertial"):
                raise Unsupported("delay mechanism")
            val = self.expression()
            if self.at("after", "when", ","):
                raise Unsupported("waveform / conditional sequential assignment")
            self.expect(";")
            return N("sig_assign", line, target=target, value=val)
        if self.accept(":="):
            val = self.expression()
            if self.at("when"):
                raise Unsupported("conditional variable assignment")
            self.expect(";")
            return N("var_assign", line, target=target, value=val)
        if self.at(";"):
            raise Unsupported("procedure call")
        self.err("expected <= or :=")

    def assert_stmt(self):
        line = self.expect("assert").line
        cond = self.expression()
        msg = None
        if self.accept("report"):
            msg = self.expression()
        if self.accept("severity"):
            self.expression()
        self.expect(";")
        return N("assert", line, cond=cond, msg=msg)

    def target(self):
        if self.at("("):
            raise Unsupported("aggregate target")
        return self.name()

    # ------------------------------------------------------------------ names and expressions
    def name(self):
        tok = self.ident()
        node = N("name", tok.line, id=tok.text, raw=tok.raw)
        while True:
            if self.at("("):
                line = self.t.line
                self.p += 1
                args = []
                while True:
                    save = self.p
                    formal = None
                    if self.t.kind == "id" and self.peek().text == "=>" and self.peek().kind == "delim":
                        formal = self.ident().text
                        self.p += 1
                    e = self.expression()
                    if self.at("downto", "to"):
                        d = self.t.text
                        self.p += 1
                        r = self.expression()
                        e = N("range", e.line, left=e, dir=d, right=r)
                    if formal is not None:
                        e = N("named_arg", e.line, formal=formal, value=e)
                    args.append(e)
                    if not self.accept(","):
                        break
                self.expect(")")
                node = N("apply", line, prefix=node, args=args)
            elif self.at("."):
                self.p += 1
                if self.accept("all"):
                    raise Unsupported("access dereference")
                sel = self.ident()
                node = N("selected", sel.line, prefix=node, id=sel.text, raw=sel.raw)
            elif self.at("'"):
                if self.peek().text == "(" and self.peek().kind == "delim":
                    line = self.t.line
                    self.p += 1  # tick
                    self.expect("(")
                    inner = self.paren_body()
                    node = N("qualified", line, mark=node, value=inner)
                else:
                    self.p += 1
                    if self.t.kind == "kw" and self.t.text == "range":
                        attr = "range"
                        self.p += 1
                    else:
                        attr = self.ident().text
                    node = N("attribute", self.t.line, prefix=node, attr=attr)
            else:
                return node

    def expression(self):
        line = self.t.line
        left = self.relation()
        if self.at(*LOGICAL):
            op = self.t.text
            while self.at(*LOGICAL):
                if self.t.text != op:
                    raise VhdlSyntaxError(f"mixing logical operators '{op}' and '{self.t.text}' without parentheses", self.t.line)
                self.p += 1
                right = self.relation()
                left = N("binop", line, op=op, left=left, right=right)
                if op in ("nand", "nor") and self.at(*LOGICAL):
                    raise VhdlSyntaxError(f"'{op}' is not associative", self.t.line)
        return left

    def relation(self):
        line = self.t.line
        left = self.shift_expression()
        if self.at(*RELOPS):
            op = self.t.text
            self.p += 1
            right = self.shift_expression()
            left = N("binop", line, op=op, left=left, right=right)
            if self.at(*RELOPS):
                raise VhdlSyntaxError("chained relational operators", self.t.line)
        return left

    def shift_expression(self):
        line = self.t.line
        left = self.simple_expression()
        if self.at(*SHIFTS):
            op = self.t.text
            self.p += 1
            right = self.simple_expression()
            left = N("binop", line, op=op, left=left, right=right)
        return left

    def simple_expression(self):
        line = self.t.line
        sign = None
        if self.at("+", "-"):
            sign = self.t.text
            self.p += 1
        left = self.term()
        if sign is not None:
            left = N("unop", line, op=sign, arg=left)
        while self.at(*ADDING):
            op = self.t.text
            self.p += 1
            right = self.term()
            left = N("binop", line, op=op, left=left, right=right)
        return left

    def term(self):
        line = self.t.line
        left = self.factor()
        while self.at(*MULT):
            op = self.t.text
            self.p += 1
            right = self.factor()
            left = N("binop", line, op=op, left=left, right=right)
        return left

    def factor(self):
        line = self.t.line
        if self.at("abs", "not"):
            op = self.t.text
            self.p += 1
            return N("unop", line, op=op, arg=self.primary())
        left = self.primary()
        if self.at("**"):
            self.p += 1
            right = self.primary()
            left = N("binop", line, op="**", left=left, right=right)
        return left

    def paren_body(self):
        """after '(' : aggregate or parenthesised expression; consumes ')'."""
        line = self.t.line
        elems = []
        named = False
        while True:
            if self.at("others"):
                ch = self.choices()
                self.expect("=>")
                elems.append((ch, self.expression()))
                named = True
            else:
                save = self.p
                e = self.expression()
                if self.at("to", "downto"):
                    d = self.t.text
                    self.p += 1
                    r = self.expression()
                    e = N("range", e.line, left=e, dir=d, right=r)
                if self.at("|", "=>"):
                    ch = [e]
                    while self.accept("|"):
                        c = self.expression()
                        if self.at("to", "downto"):
                            d = self.t.text
                            self.p += 1
                            r = self.expression()
                            c = N("range", c.line, left=c, dir=d, right=r)
                        ch.append(c)
                    self.expect("=>")
                    elems.append((ch, self.expression()))
                    named = True
                else:
                    elems.append((None, e))
            if not self.accept(","):
                break
        self.expect(")")
        if len(elems) == 1 and elems[0][0] is None:
            return N("paren", line, value=elems[0][1])
        return N("aggregate", line, elems=elems, named=named)

    def primary(self):
        tok = self.t
        if tok.kind == "int":
            self.p += 1
            return N("int", tok.line, value=int(tok.text))
        if tok.kind == "real":
            raise Unsupported("real literal")
        if tok.kind == "char":
            self.p += 1
            return N("char", tok.line, value=tok.text)
        if tok.kind == "str":
            self.p += 1
            return N("str", tok.line, value=tok.text)
        if tok.kind == "bitstr":
            self.p += 1
            return N("bitstr", tok.line, text=tok.text)
        if tok.kind == "kw" and tok.text == "null":
            raise Unsupported("null literal")
        if tok.kind == "kw" and tok.text == "new":
            raise Unsupported("allocator")
        if self.at("("):
            self.p += 1
            return self.paren_body()
        if tok.kind == "id":
            return self.name()
        if self.at("+", "-"):
            raise VhdlSyntaxError("sign is not allowed here (a signed operand must be parenthesised)", tok.line)
        self.err("expected primary")


def parse(text: str):
    p = Parser(text)
    units = p.design_file()
    return units, p
