"""Static semantics + compilation to closures for the VHDL subset cohdl prints.

`analyse(text)` -> Design.  Design.errors lists static errors (rule ids S-*, see
DESIGN.md 1.2); a design without blocking errors can be elaborated by cv.vhdl.sim.Sim.
"""
from __future__ import annotations

from . import values as V
from .expr import E, ERR, ExprMixin, cat
from .lexer import RESERVED, Unsupported, VhdlSyntaxError, ident_problem
from .parser import N, parse
from .types import (BOOLEAN, INTEGER, PREDEFINED_FUNCTIONS, PREDEFINED_NAMES, PREDEFINED_TYPES, STD_ULOGIC, STRING, Ty)


class StaticError:
    __slots__ = ("rule", "msg", "line", "extra", "unit")

    def __init__(self, rule, msg, line, unit, extra):
        self.rule, self.msg, self.line, self.unit, self.extra = rule, msg, line, unit, extra

    def __repr__(self):
        return f"{self.rule}@{self.unit}:{self.line}: {self.msg}"

    def signature(self):
        d = {"rule": self.rule}
        d.update({k: v for k, v in self.extra.items() if isinstance(v, (str, bool)) or v is None})
        return d


class Entry:
    def __init__(self, kind, **kw):
        self.kind = kind
        self.__dict__.update(kw)


class Obj(Entry):
    """declared object: cls in signal|port|variable|constant|param"""

    def __init__(self, cls, name, raw, ty, line, mode=None, owner=None):
        super().__init__("object", cls=cls, name=name, raw=raw, ty=ty, line=line, mode=mode, owner=owner,
                         idx=None, init=None, value=None)

    def __repr__(self):
        return f"<{self.cls} {self.raw}:{self.ty}>"


class Scope:
    def __init__(self, parent=None, what=""):
        self.parent = parent
        self.names = {}
        self.what = what


class _Return(Exception):
    def __init__(self, value):
        self.value = value


class FuncDef:
    def __init__(self, name, params, ret):
        self.name, self.params, self.ret = name, params, ret
        self.body = None
        self.nvars = 0

    def invoke(self, c, args):
        fr = _Frame(c, args + [None] * (self.nvars - len(args)))
        try:
            self.body(fr)
        except _Return as r:
            return r.value
        raise V.SimError("function_no_return", self.name)


class _Frame:
    __slots__ = ("s", "v", "k")

    def __init__(self, c, v):
        self.s = c.s if c is not None else None
        self.k = c.k if c is not None else None
        self.v = v


class ProcInfo:
    def __init__(self, label, kind, line):
        self.label, self.kind, self.line = label, kind, line  # kind: process | conc | select | inst-in | inst-out
        self.sens = []          # Obj list
        self.reads_unguarded = set()
        self.reads = set()
        self.drives = {}        # Obj -> list of static ranges (lo,hi) positions or None (= whole)
        self.body = None        # fn(ctx)
        self.edge_objs = set()
        self.block = None       # name of the cohdl concurrent block (from the backend's comment), if any
        self.var_objs = []


class InstInfo:
    def __init__(self, label, entity, line):
        self.label, self.entity, self.line = label, entity, line
        self.assocs = []  # (formal Obj of the child entity, kind 'in'|'out', E or target)


class ArchInfo:
    def __init__(self, name, entity):
        self.name, self.entity = name, entity
        self.sig_objs = []   # signals + ports in index order
        self.nvars = 0
        self.procs = []
        self.insts = []
        self.var_inits = []  # (idx, fn) evaluated once at elaboration


class EntityInfo:
    def __init__(self, name, raw, line):
        self.name, self.raw, self.line = name, raw, line
        self.ports = []
        self.generics = []
        self.arch = None
        self.scope = None


class Design:
    def __init__(self):
        self.entities = {}
        self.order = []
        self.errors = []
        self.notes = []
        self.unsupported = None

    @property
    def ok(self):
        return not self.errors and self.unsupported is None

    def error_rules(self):
        return sorted({e.rule for e in self.errors})


class Analyzer(ExprMixin):
    def __init__(self):
        self.design = Design()
        self.errors = self.design.errors
        self.unit = "?"
        self.cur_owner = None   # ProcInfo / FuncDef whose variables are visible
        self.cur_proc = None
        self.guard_depth = 0
        self.arch = None

    # ------------------------------------------------------------------ utilities
    def error(self, rule, msg, line, **extra):
        self.errors.append(StaticError(rule, msg, line, self.unit, extra))

    @staticmethod
    def name_class(raw):
        low = raw.lower()
        if low in RESERVED:
            return "reserved"
        p = ident_problem(raw)
        if p:
            return p
        if low in PREDEFINED_NAMES:
            return "predefined"
        return "plain"

    def lookup(self, scope, name):
        s = scope
        while s is not None:
            if name in s.names:
                return s.names[name]
            s = s.parent
        return None

    def lookup_kind(self, scope, name):
        e = self.lookup(scope, name)
        if e is None:
            return "type" if name in PREDEFINED_TYPES else None
        return e.kind

    def declare(self, scope, name, raw, entry, line, overloadable=False):
        old = scope.names.get(name)
        if old is not None:
            if overloadable and old.kind == entry.kind == "enumlit":
                old.cands.extend(entry.cands)
                return old
            self.error("S-dup", f"{raw} is declared twice in the same declarative region ({scope.what}); "
                       f"first as {getattr(old, 'raw', name)}", line,
                       name=self.name_class(raw), same_spelling=(getattr(old, "raw", raw) == raw),
                       kinds="/".join(sorted({self._ek(old), self._ek(entry)})))
            return old
        scope.names[name] = entry
        entry.raw = raw
        return entry

    @staticmethod
    def _ek(e):
        return e.cls if e.kind == "object" else e.kind

    def note_read(self, obj):
        p = self.cur_proc
        if p is not None:
            p.reads.add(obj)
            if self.guard_depth == 0:
                p.reads_unguarded.add(obj)

    def note_edge(self, obj):
        if self.cur_proc is not None:
            self.cur_proc.edge_objs.add(obj)

    def type_mark(self, name, raw, scope, line):
        ent = self.lookup(scope, name)
        if ent is None:
            if name in PREDEFINED_TYPES:
                return PREDEFINED_TYPES[name]
            self.error("S-unres", f"type {raw} is not declared", line, name=self.name_class(raw))
            return ERR
        if ent.kind != "type":
            if name in PREDEFINED_TYPES:
                self.error("S-hide", f"{raw} is used as a type mark but a user declaration ({self._ek(ent)}) hides the "
                           f"predefined type", line, name=name)
            else:
                self.error("S-type", f"{raw} is not a type", line, found=self._ek(ent))
            return ERR
        return ent.ty

    def subtype(self, st, scope):
        ty = self.type_mark(st.mark, st.raw, scope, st.line)
        if ty is ERR:
            return ERR
        if st.range is not None:
            if ty.kind != "int":
                self.error("S-type", f"range constraint on {ty}", st.line)
                return ERR
            lo = self.static_int(st.range[0], scope)
            hi = self.static_int(st.range[2], scope)
            if lo is None or hi is None:
                raise Unsupported("non-static range constraint")
            if st.range[1] == "downto":
                lo, hi = hi, lo
            return Ty("int", "integer", lo=lo, hi=hi, name=f"integer range {lo} to {hi}")
        if st.constraint is not None:
            if ty.kind != "array":
                self.error("S-type", f"index constraint on non-array type {ty}", st.line, found=cat(ty), where="constraint")
                return ERR
            if ty.rng is not None:
                self.error("S-type", f"index constraint on already constrained type {ty}", st.line, found=cat(ty), where="constraint")
                return ERR
            l = self.static_int(st.constraint[0], scope)
            r = self.static_int(st.constraint[2], scope)
            if l is None or r is None:
                raise Unsupported("non-static index constraint")
            if min(l, r) < 0 and ty.base in ("std_logic_vector", "unsigned", "signed", "string"):
                self.error("S-width", f"index constraint {l} {st.constraint[1]} {r} outside NATURAL", st.line, where="constraint")
                return ERR
            return ty.constrained((l, st.constraint[1], r))
        return ty

    # ------------------------------------------------------------------ design units
    def run(self, text):
        d = self.design
        try:
            units, parser = parse(text)
        except VhdlSyntaxError as e:
            self.unit = "file"
            reserved = "reserved word" in e.msg
            self.error("S-ident" if reserved else "S-parse", e.msg, e.line, **({"name": "reserved"} if reserved else {}))
            return d
        except Unsupported as e:
            d.unsupported = str(e)
            return d
        self.comments = parser.comments
        for raw, prob, line in parser.bad_idents:
            self.unit = "file"
            if prob == "reserved_2008_only":
                d.notes.append(("reserved_2008_only", raw, line))
                continue
            self.error("S-ident", f"illegal identifier {raw}", line, name=prob)
        try:
            for u in units:
                if u.kind == "entity":
                    self.entity(u)
                else:
                    self.architecture(u)
        except Unsupported as e:
            d.unsupported = str(e)
        return d

    def entity(self, u):
        self.unit = u.raw
        d = self.design
        if u.name in d.entities:
            self.error("S-struct", f"entity {u.raw} is declared twice", u.line, what="entity-twice")
            return
        ei = EntityInfo(u.name, u.raw, u.line)
        ei.scope = Scope(None, f"entity {u.raw}")
        if u.generics:
            d.unsupported = d.unsupported or "generics"
        idx = 0
        for p in u.ports:
            ty = self.subtype(p.subtype, ei.scope)
            o = Obj("port", p.name, p.raw, ty, p.line, mode=p.mode)
            if ty is not ERR and ty.kind == "array" and ty.rng is None:
                self.error("S-type", f"port {p.raw} of unconstrained type {ty}", p.line, where="port-unconstrained")
            if p.mode not in ("in", "out", "inout"):
                raise Unsupported(f"port mode {p.mode}")
            o.idx = idx
            idx += 1
            if p.default is not None and ty is not ERR:
                o.init = self.fit(self.expr(p.default, ei.scope, ty), ty, p.line, "port default")
            self.declare(ei.scope, p.name, p.raw, o, p.line)
            ei.ports.append(o)
        d.entities[u.name] = ei
        d.order.append(("entity", u.name))

    def architecture(self, u):
        d = self.design
        self.unit = f"{u.raw}"
        ei = d.entities.get(u.entity)
        if ei is None:
            self.error("S-struct", f"architecture {u.raw} of undeclared entity {u.entity}", u.line, what="arch-without-entity")
            return
        if ei.arch is not None:
            self.error("S-struct", f"second architecture for entity {ei.raw}", u.line, what="arch-twice")
            return
        ai = ArchInfo(u.name, ei)
        self.arch = ai
        ai.sig_objs = list(ei.ports)
        # entity + architecture form one declarative region (LRM 10.1): use a child scope only to
        # keep entity scopes reusable, but check homographs against the ports as well.
        scope = Scope(None, f"entity {ei.raw} / architecture {u.raw}")
        scope.names.update(ei.scope.names)
        if u.name in scope.names:
            pass  # an architecture name lives in the library's name space of the entity, not in the region
        for dcl in u.decls:
            self.declaration(dcl, scope, ai, owner=None)
        # labels are implicitly declared in the architecture region
        for st in u.stmts:
            lab = getattr(st, "label", None)
            raw = getattr(st, "label_raw", None)
            if isinstance(lab, str):
                self.declare(scope, lab, raw or lab, Entry("label"), st.line)
            elif lab is not None and hasattr(lab, "text"):
                self.declare(scope, lab.text, lab.raw, Entry("label"), st.line)
        block_of = self._block_names(u)
        for st in u.stmts:
            before = len(ai.procs)
            self.concurrent(st, scope, ai)
            for p in ai.procs[before:]:
                p.block = block_of(st.line)
        self.check_drivers(ai)
        ei.arch = ai
        d.order.append(("architecture", u.entity))
        self.arch = None

    def _block_names(self, u):
        marks = []
        for c in self.comments:
            t = c.text
            if t.startswith("CONCURRENT BLOCK (") and t.endswith(")"):
                marks.append((c.line, t[len("CONCURRENT BLOCK ("):-1]))

        def block_of(line):
            best = None
            for ln, name in marks:
                if ln <= line:
                    best = (ln, name)
            return f"{best[1]}@{best[0]}" if best else None
        return block_of

    # ------------------------------------------------------------------ declarations
    def declaration(self, dcl, scope, ai, owner):
        k = dcl.kind
        if k == "object":
            ty = self.subtype(dcl.subtype, scope)
            cls = dcl.cls
            if owner is None and cls == "variable":
                self.error("S-type", f"variable {dcl.raw} declared in an architecture", dcl.line, where="variable-in-arch")
            if owner is not None and cls == "signal":
                self.error("S-type", f"signal {dcl.raw} declared in a process or function", dcl.line, where="signal-in-process")
            o = Obj(cls, dcl.name, dcl.raw, ty, dcl.line, owner=owner)
            if ty is not ERR and ty.kind == "array" and ty.rng is None and cls != "constant":
                self.error("S-type", f"{cls} {dcl.raw} of unconstrained type {ty}", dcl.line, where="object-unconstrained")
                o.ty = ERR
            init = None
            if dcl.init is not None and ty is not ERR:
                init = self.fit(self.expr(dcl.init, scope, ty), ty, dcl.line, f"initial value of {dcl.raw}")
                if init.ty is ERR:
                    init = None
            if cls == "signal":
                o.idx = len(ai.sig_objs)
                ai.sig_objs.append(o)
                o.init = init
            elif cls == "variable":
                if isinstance(owner, FuncDef):
                    o.cls = "param"
                    o.idx = owner.nvars
                    owner.nvars += 1
                    o.init = init
                    owner.local_inits.append((o.idx, init, o.ty))
                else:
                    o.idx = ai.nvars
                    ai.nvars += 1
                    o.init = init
                    ai.var_inits.append((o.idx, init.fn if init is not None else None, o.ty))
                    if owner is not None:
                        owner.var_objs.append(o)
            elif cls == "constant":
                if init is None:
                    if dcl.init is None:
                        self.error("S-parse", f"constant {dcl.raw} without value", dcl.line)
                    o.ty = ERR
                else:
                    sv = init.static_value()
                    if not sv:
                        raise Unsupported("non-static constant")
                    o.value = sv[0]
                    if ty.kind == "array" and ty.rng is None:
                        o.ty = init.ty
            self.declare(scope, dcl.name, dcl.raw, o, dcl.line)
        elif k == "enum_type":
            ty = Ty("enum", dcl.name, literals=[l[0] for l in dcl.literals], name=dcl.raw)
            self.declare(scope, dcl.name, dcl.raw, Entry("type", ty=ty, user=True), dcl.line)
            seen = set()
            for pos, (lit, raw, line) in enumerate(dcl.literals):
                if lit in seen:
                    self.error("S-dup", f"enumeration literal {raw} given twice in type {dcl.raw}", line, name=self.name_class(raw),
                               same_spelling=True, kinds="enumlit")
                    continue
                seen.add(lit)
                self.declare(scope, lit, raw, Entry("enumlit", cands=[(ty, pos)]), line, overloadable=True)
        elif k == "array_type":
            elem = self.subtype(dcl.elem, scope)
            l = self.static_int(dcl.range[0], scope)
            r = self.static_int(dcl.range[2], scope)
            if l is None or r is None:
                raise Unsupported("non-static array bounds")
            if elem is ERR:
                ty = ERR
            else:
                if elem.kind == "array" and elem.rng is None:
                    self.error("S-type", f"array type {dcl.raw} with unconstrained element type {elem}", dcl.line, where="array-elem-unconstrained")
                    ty = ERR
                else:
                    ty = Ty("array", dcl.name, elem=elem, rng=(l, dcl.range[1], r), name=dcl.raw)
            self.declare(scope, dcl.name, dcl.raw, Entry("type", ty=ty, user=True), dcl.line)
        elif k == "subtype_decl":
            ty = self.subtype(dcl.subtype, scope)
            self.declare(scope, dcl.name, dcl.raw, Entry("type", ty=ty, user=True), dcl.line)
        elif k == "function":
            self.function(dcl, scope, ai)
        elif k == "attr_decl":
            self.type_mark(dcl.mark, dcl.mark, scope, dcl.line)
            self.declare(scope, dcl.name, dcl.raw, Entry("attribute"), dcl.line)
        elif k == "attr_spec":
            a = self.lookup(scope, dcl.name)
            if a is None or a.kind != "attribute":
                if dcl.name not in ("keep", "mark_debug"):
                    self.error("S-unres", f"attribute {dcl.name} is not declared", dcl.line, name="attribute")
            t = self.lookup(scope, dcl.target)
            if t is None:
                self.error("S-unres", f"attribute target {dcl.target} is not declared", dcl.line, name="attribute-target")
        else:
            raise Unsupported(f"declaration {k}")

    def function(self, dcl, scope, ai):
        ret = self.type_mark(dcl.ret, dcl.ret, scope, dcl.line)
        fscope = Scope(scope, f"function {dcl.raw}")
        params = []
        fdef = FuncDef(dcl.raw, params, ret)
        fdef.local_inits = []
        for p in dcl.params:
            ty = self.subtype(p.subtype, scope)
            o = Obj("param", p.name, p.raw, ty, p.line, owner=fdef)
            o.idx = fdef.nvars
            fdef.nvars += 1
            self.declare(fscope, p.name, p.raw, o, p.line)
            params.append(o)
        ent = Entry("function", fdef=fdef)
        self.declare(scope, dcl.name, dcl.raw, ent, dcl.line)
        saved = (self.cur_owner, self.cur_proc)
        self.cur_owner, self.cur_proc = fdef, None
        for d2 in dcl.decls:
            self.declaration(d2, fscope, ai, owner=fdef)
        self.func_ret = ret
        body = self.sequence(dcl.body, fscope)
        inits = list(fdef.local_inits)

        def run(fr):
            for idx, init, ty in inits:
                fr.v[idx] = init.fn(fr) if init is not None else ty.default_value()
            body(fr)
        fdef.body = run
        self.cur_owner, self.cur_proc = saved

    # ------------------------------------------------------------------ concurrent statements
    def concurrent(self, st, scope, ai):
        k = st.kind
        if k == "process":
            self.process(st, scope, ai)
        elif k == "conc_assign":
            p = ProcInfo(None, "conc", st.line)
            self._implicit(p, scope, ai, lambda: self.signal_assign(st.target, st.value, scope, st.line))
        elif k == "cond_assign":
            p = ProcInfo(None, "conc", st.line)

            def build():
                arms = []
                for val, cond in st.waves:
                    ce = None
                    if cond is not None:
                        ce = self.condition(cond, scope, "condition of conditional assignment")
                    arms.append((ce.fn if ce is not None else None, self.signal_assign(st.target, val, scope, st.line)))

                def run(c):
                    for cf, af in arms:
                        if cf is None or cf(c):
                            af(c)
                            return
                return run
            self._implicit(p, scope, ai, build)
        elif k == "select_assign":
            p = ProcInfo(None, "select", st.line)
            self._implicit(p, scope, ai, lambda: self.select_assign(st, scope))
        elif k == "instance":
            self.instance(st, scope, ai)
        elif k == "conc_assert":
            p = ProcInfo(None, "conc", st.line)
            self._implicit(p, scope, ai, lambda: self.statement(N("assert", st.line, cond=st.cond, msg=st.msg), scope))
        else:
            raise Unsupported(f"concurrent statement {k}")

    def _implicit(self, p, scope, ai, build):
        saved = (self.cur_owner, self.cur_proc, self.guard_depth)
        self.cur_owner, self.cur_proc, self.guard_depth = p, p, 0
        p.body = build()
        p.sens = sorted(p.reads, key=lambda o: o.idx)
        self.cur_owner, self.cur_proc, self.guard_depth = saved
        ai.procs.append(p)

    def process(self, st, scope, ai):
        p = ProcInfo(st.label_raw, "process", st.line)
        pscope = Scope(scope, f"process {st.label_raw}")
        saved = (self.cur_owner, self.cur_proc, self.guard_depth)
        self.cur_owner, self.cur_proc, self.guard_depth = p, p, 0
        for dcl in st.decls:
            self.declaration(dcl, pscope, ai, owner=p)
        run_once = False
        if st.sens is None:
            # the only modelled form: straight-line process that ends in `wait;` (runs once at initialisation)
            def has_wait(stmts):
                for x in stmts:
                    if x.kind == "wait_forever":
                        return True
                    if x.kind == "if" and (any(has_wait(b) for _, b in x.arms) or has_wait(x.orelse)):
                        return True
                    if x.kind == "case" and any(has_wait(b) for _, b in x.arms):
                        return True
                return False
            if not st.body or st.body[-1].kind != "wait_forever" or has_wait(st.body[:-1]):
                raise Unsupported("process without sensitivity list (general wait statements)")
            run_once = True
            st.sens = []
        if st.sens == "all":
            sens_all = True
        else:
            sens_all = False
            for sn in st.sens:
                if sn.kind != "name":
                    raise Unsupported("sensitivity list entry that is not a simple name")
                ent = self.lookup(scope, sn.id)
                if ent is None:
                    self.error("S-unres", f"name {sn.raw} in sensitivity list is not declared", sn.line, name=self.name_class(sn.raw))
                    continue
                if ent.kind != "object" or ent.cls not in ("signal", "port"):
                    self.error("S-sens", f"{sn.raw} in sensitivity list is not a signal", sn.line, what="not-a-signal")
                    continue
                if ent.cls == "port" and ent.mode == "out":
                    self.error("S-mode", f"output port {ent.raw} is read (sensitivity list)", sn.line, port_mode="out", access="sensitivity")
                if ent in p.sens:
                    pass
                p.sens.append(ent)
        p.body = self.sequence(st.body, pscope)
        if sens_all:
            p.sens = sorted(p.reads, key=lambda o: o.idx)
        elif run_once:
            pass
        else:
            if not p.sens:
                self.error("S-sens", f"process {st.label_raw} has an empty sensitivity list", st.line, what="empty")
            missing = [o for o in p.reads_unguarded if o not in p.sens]
            if missing:
                names = ", ".join(sorted(o.raw for o in missing))
                self.error("S-sens", f"process {st.label_raw}: signals read outside a clock-edge guard are missing from the "
                           f"sensitivity list: {names}", st.line, what="incomplete", clocked=bool(p.edge_objs))
        self.cur_owner, self.cur_proc, self.guard_depth = saved
        ai.procs.append(p)

    def condition(self, node, scope, what):
        e = self.expr(node, scope, BOOLEAN)
        if e.ty is ERR:
            return e
        if e.poly or e.ty.kind != "bool":
            self.error("S-type", f"{what} must be BOOLEAN, found {e.ty if not e.poly else e.poly + ' literal'}", node.line,
                       where="condition", found=cat(e.ty) if not e.poly else e.poly)
            return self.err_e()
        return e

    def select_assign(self, st, scope):
        sel = self.expr(st.selector, scope)
        if sel.poly:
            self.error("S-type", "type of the selector of a selected assignment cannot be determined", st.line, where="select")
            sel = self.err_e()
        arms = []
        seen = {}
        has_others = False
        for val, choices in st.arms:
            af = self.signal_assign(st.target, val, scope, st.line)
            keys = []
            for ch in choices:
                if ch.kind == "others":
                    if has_others:
                        self.error("S-choice", "others given twice", st.line, where="select")
                    has_others = True
                    keys.append(None)
                    continue
                if ch.kind == "range":
                    raise Unsupported("range choice")
                if sel.ty is ERR:
                    continue
                ce = self.fit(self.expr(ch, scope, sel.ty), sel.ty, ch.line, "choice of selected assignment")
                if ce.ty is ERR:
                    continue
                sv = ce.static_value()
                if not sv:
                    self.error("S-choice", "choice is not locally static", ch.line, where="select", what="non-static")
                    continue
                if sv[0] in seen:
                    self.error("S-choice", f"choice given twice in selected assignment", ch.line, where="select", what="duplicate")
                seen[sv[0]] = True
                keys.append(sv[0])
            arms.append((keys, af))
        if has_others and arms and None not in arms[-1][0]:
            self.error("S-choice", "others is not the last choice", st.line, where="select", what="others-not-last")
        if sel.ty is not ERR and not has_others:
            self._coverage(sel.ty, seen, st.line, "select")
        sf = sel.fn
        table = {}
        default = None
        for keys, af in arms:
            for k in keys:
                if k is None:
                    default = af
                else:
                    table.setdefault(k, af)

        def run(c):
            v = sf(c)
            f = table.get(v, default)
            if f is None:
                raise V.SimError("no_choice", "selected assignment: no choice matches the selector value")
            f(c)
        return run

    def _coverage(self, ty, seen, line, where):
        if ty.kind == "enum":
            if len(seen) < len(ty.literals):
                self.error("S-choice", f"choices do not cover all values of {ty} and there is no others", line, where=where, what="incomplete")
        elif ty.kind == "bool":
            if len(seen) < 2:
                self.error("S-choice", "choices do not cover true and false and there is no others", line, where=where, what="incomplete")
        elif ty.kind == "sl":
            if len(seen) < 9:
                self.error("S-choice", "choices do not cover all nine values of std_ulogic and there is no others", line, where=where, what="incomplete")
        elif ty.kind == "array" and ty.elem is not None and ty.elem.kind == "sl":
            n = ty.length
            if n is None or len(seen) < 9 ** n:
                self.error("S-choice", f"choices of a {ty} selector cannot cover all values without others", line, where=where, what="incomplete")
        elif ty.kind == "int":
            if ty.hi - ty.lo + 1 > len(seen):
                self.error("S-choice", f"choices do not cover the range of {ty} and there is no others", line, where=where, what="incomplete")
        else:
            self.error("S-choice", f"no others choice for selector of type {ty}", line, where=where, what="incomplete")

    # ------------------------------------------------------------------ instantiation
    def instance(self, st, scope, ai):
        d = self.design
        if st.lib != "work":
            raise Unsupported(f"instantiation from library {st.lib}")
        hid = self.lookup(scope, "work")
        if hid is not None:
            self.error("S-hide", f"instance {st.label_raw}: the library name work is hidden by a user declaration "
                       f"({self._ek(hid)} {getattr(hid, 'raw', 'work')})", st.line, name="work")
        child = d.entities.get(st.entity)
        if child is None:
            self.error("S-struct", f"instance {st.label_raw}: entity {st.entity_raw} has not been analysed before its use "
                       f"(units must appear in dependency order)", st.line, what="entity-after-use")
            return
        if child.arch is None:
            self.error("S-struct", f"instance {st.label_raw}: entity {st.entity_raw} has no architecture yet", st.line, what="arch-after-use")
            return
        if st.arch is not None and st.arch != child.arch.name:
            self.error("S-struct", f"instance {st.label_raw}: architecture {st.arch} of {st.entity_raw} does not exist", st.line, what="arch-name")
            return
        if st.gmap:
            raise Unsupported("generic map")
        inst = InstInfo(st.label_raw, child, st.line)
        formals = {p.name: p for p in child.ports}
        done = set()
        for k, a in enumerate(st.pmap):
            formal_conv = None
            if a.formal is None:
                if k >= len(child.ports):
                    self.error("S-struct", f"instance {st.label_raw}: too many positional associations", st.line, what="too-many")
                    continue
                f = child.ports[k]
            else:
                fnode = a.formal
                if (fnode.kind == "apply" and fnode.prefix.kind == "name" and len(fnode.args) == 1
                        and fnode.args[0].kind == "name"):
                    # type conversion on the formal: type_mark(formal) => actual  (LRM 93 4.3.2.2)
                    tm = self.lookup(scope, fnode.prefix.id)
                    cty = tm.ty if (tm is not None and tm.kind == "type") else (
                        PREDEFINED_TYPES.get(fnode.prefix.id) if tm is None else None)
                    if cty is None:
                        raise Unsupported("function/indexed formal in port map")
                    formal_conv = cty
                    fnode = fnode.args[0]
                if fnode.kind != "name":
                    raise Unsupported("partial/indexed formal in port map")
                f = formals.get(fnode.id)
                if f is None:
                    self.error("S-struct", f"instance {st.label_raw}: entity {st.entity_raw} has no port {fnode.raw}", st.line,
                               what="unknown-formal", name=self.name_class(fnode.raw))
                    continue
            if f.name in done:
                self.error("S-struct", f"instance {st.label_raw}: port {f.raw} associated twice", st.line, what="formal-twice")
                continue
            done.add(f.name)
            if a.actual is None:
                if f.mode == "in" and f.init is None:
                    self.error("S-struct", f"instance {st.label_raw}: input port {f.raw} is open", st.line, what="in-open")
                continue
            if f.ty is ERR:
                continue
            fty = f.ty
            if formal_conv is not None:
                if f.mode != "out":
                    raise Unsupported("type conversion on an input formal")
                ok = (formal_conv.kind == "array" and fty.kind == "array" and formal_conv.elem is not None
                      and fty.elem is not None and formal_conv.elem.base == fty.elem.base and fty.elem.kind != "array")
                if not ok:
                    self.error("S-type", f"instance {st.label_raw}: no conversion from {fty} to {formal_conv} on formal {f.raw}",
                               st.line, where="port-association", found=cat(fty), want=cat(formal_conv))
                    continue
                fty = formal_conv.constrained(fty.rng) if formal_conv.rng is None else formal_conv
            if f.mode == "in":
                p = ProcInfo(f"{st.label_raw}.{f.raw}", "inst-in", st.line)
                saved = (self.cur_owner, self.cur_proc, self.guard_depth)
                self.cur_owner, self.cur_proc, self.guard_depth = p, p, 0
                e = self.fit(self.expr(a.actual, scope, f.ty), f.ty, st.line, f"association of port {f.raw}")
                self.cur_owner, self.cur_proc, self.guard_depth = saved
                if e.ty is ERR:
                    continue
                whole = e.is_signal_name and e.path == () and e.obj.cls in ("signal", "port")
                inst.assocs.append((f, "in", e, whole, p))
            elif f.mode in ("out", "inout"):
                if f.mode == "inout":
                    raise Unsupported("inout port association")
                p = ProcInfo(f"{st.label_raw}.{f.raw}", "inst-out", st.line)
                saved = (self.cur_owner, self.cur_proc, self.guard_depth)
                self.cur_owner, self.cur_proc, self.guard_depth = p, p, 0
                tgt = self.target(a.actual, scope, "signal", st.line, from_port=f)
                self.cur_owner, self.cur_proc, self.guard_depth = saved
                if tgt is None:
                    continue
                obj, tty, assign, whole = tgt
                if not tty.same_base(fty) or (tty.length is not None and fty.length is not None and tty.length != fty.length):
                    rule = "S-type" if not tty.same_base(fty) else "S-width"
                    self.error(rule, f"instance {st.label_raw}: port {f.raw} of type {fty} associated with an actual of type {tty}",
                               st.line, where="port-association", found=cat(tty), want=cat(fty))
                    continue
                inst.assocs.append((f, "out", (obj, assign), whole, p))
                p.block = None
                ai.procs.append(p)  # counts as a driver of the actual; body installed at elaboration
                p.body = None
        for f in child.ports:
            if f.name not in done and f.mode == "in" and f.init is None:
                self.error("S-struct", f"instance {st.label_raw}: input port {f.raw} is not associated", st.line, what="in-missing")
        ai.insts.append(inst)

    # ------------------------------------------------------------------ driver check
    def check_drivers(self, ai):
        by_obj = {}
        for p in ai.procs:
            for obj, ranges in p.drives.items():
                by_obj.setdefault(obj, []).append((p, ranges))
        ai.drivers = by_obj
        for obj, lst in by_obj.items():
            if len(lst) < 2:
                continue
            # two driver processes conflict when their statically known regions overlap
            def overlap(a, b):
                if a is None or b is None:
                    return True
                for (a0, a1), (b0, b1) in zip(a, b):
                    if a1 < b0 or b1 < a0:
                        return False
                return True
            conflict = False
            for i in range(len(lst)):
                for j in range(i + 1, len(lst)):
                    if any(overlap(a, b) for a in lst[i][1] for b in lst[j][1]):
                        conflict = True
            if conflict:
                kinds = sorted({p.kind for p, _ in lst})
                blocks = {p.block for p, _ in lst if p.kind in ("conc", "select")}
                same_block = len(blocks) == 1 and all(p.kind in ("conc", "select") for p, _ in lst)
                self.error("S-driver", f"signal {obj.raw} has {len(lst)} drivers "
                           f"({', '.join((p.label or p.kind) for p, _ in lst)})", obj.line,
                           kinds="+".join(kinds), same_concurrent_block=same_block, obj=obj.cls)

    # ------------------------------------------------------------------ statements (-> closures)
    def sequence(self, stmts, scope):
        fns = [self.statement(s, scope) for s in stmts]
        fns = [f for f in fns if f is not None]
        if not fns:
            return lambda c: None
        if len(fns) == 1:
            return fns[0]
        fns = tuple(fns)

        def run(c):
            for f in fns:
                f(c)
        return run

    def statement(self, s, scope):
        k = s.kind
        if k == "sig_assign":
            return self.signal_assign(s.target, s.value, scope, s.line)
        if k == "var_assign":
            return self.variable_assign(s.target, s.value, scope, s.line)
        if k == "if":
            arms = []
            for cond, body in s.arms:
                ce = self.condition(cond, scope, "condition of if")
                guarded = self._is_edge_guard(cond, scope)
                if guarded:
                    self.guard_depth += 1
                bf = self.sequence(body, scope)
                if guarded:
                    self.guard_depth -= 1
                arms.append((ce.fn, bf))
            ef = self.sequence(s.orelse, scope) if s.orelse else None
            if len(arms) == 1:
                cf, bf = arms[0]
                if ef is None:
                    def run1(c):
                        if cf(c):
                            bf(c)
                    return run1

                def run2(c):
                    if cf(c):
                        bf(c)
                    else:
                        ef(c)
                return run2
            arms = tuple(arms)

            def runn(c):
                for cf, bf in arms:
                    if cf(c):
                        bf(c)
                        return
                if ef is not None:
                    ef(c)
            return runn
        if k == "case":
            return self.case(s, scope)
        if k in ("null", "wait_forever"):
            return None
        if k == "assert":
            ce = self.condition(s.cond, scope, "condition of assert")
            if s.msg is not None:
                m = self.expr(s.msg, scope, STRING)
                self.fit(m, STRING, s.line, "report message")
            cf = ce.fn
            line = s.line

            def run_assert(c):
                if not cf(c):
                    c.k.assertion_failed(line)
            return run_assert
        if k == "report":
            return None
        if k == "return":
            if not isinstance(self.cur_owner, FuncDef):
                self.error("S-parse", "return outside a function", s.line)
                return None
            if s.value is None:
                self.error("S-type", "function return without value", s.line, where="return")
                return None
            e = self.fit(self.expr(s.value, scope, self.func_ret), self.func_ret, s.line, "return value")
            f = e.fn

            def run_ret(c):
                raise _Return(f(c))
            return run_ret
        raise Unsupported(f"statement {k}")

    def _is_edge_guard(self, cond, scope):
        """condition is rising_edge/falling_edge(sig) possibly and-ed with other terms."""
        n = cond
        while n.kind == "paren":
            n = n.value
        if n.kind == "apply" and n.prefix.kind == "name" and n.prefix.id in ("rising_edge", "falling_edge") \
                and self.lookup(scope, n.prefix.id) is None:
            return True
        if n.kind == "binop" and n.op == "and":
            return self._is_edge_guard(n.left, scope) or self._is_edge_guard(n.right, scope)
        if n.kind == "binop" and n.op == "or":
            return self._is_edge_guard(n.left, scope) and self._is_edge_guard(n.right, scope)
        return False

    def case(self, s, scope):
        sel = self.expr(s.selector, scope)
        if sel.poly:
            self.error("S-type", "type of the case expression cannot be determined", s.line, where="case")
            sel = self.err_e()
        if sel.ty is not ERR and sel.ty.kind == "array":
            if sel.ty.length is None:
                self.error("S-type", "case expression of an array type without locally static subtype", s.line, where="case-subtype")
            if not (sel.ty.elem.kind in ("sl", "char", "enum")):
                self.error("S-type", f"case expression of type {sel.ty}", s.line, where="case")
        seen = {}
        has_others = False
        table = {}
        default = None
        for idx, (choices, body) in enumerate(s.arms):
            bf = self.sequence(body, scope)
            for ch in choices:
                if ch.kind == "others":
                    if has_others:
                        self.error("S-choice", "others given twice", s.line, where="case", what="duplicate-others")
                    has_others = True
                    if idx != len(s.arms) - 1 or len(choices) != 1:
                        self.error("S-choice", "others must be the only choice of the last alternative", s.line, where="case", what="others-not-last")
                    default = bf
                    continue
                if ch.kind == "range":
                    raise Unsupported("range choice")
                if sel.ty is ERR:
                    continue
                ce = self.fit(self.expr(ch, scope, sel.ty), sel.ty, ch.line, "case choice")
                if ce.ty is ERR:
                    continue
                sv = ce.static_value()
                if not sv:
                    self.error("S-choice", "case choice is not locally static", ch.line, where="case", what="non-static")
                    continue
                if sv[0] in seen:
                    self.error("S-choice", "case choice given twice", ch.line, where="case", what="duplicate")
                seen[sv[0]] = True
                table.setdefault(sv[0], bf)
        if sel.ty is not ERR and not has_others:
            self._coverage(sel.ty, seen, s.line, "case")
        sf = sel.fn

        def run(c):
            f = table.get(sf(c), default)
            if f is None:
                raise V.SimError("no_choice", "case: no choice matches")
            f(c)
        return run

    # ------------------------------------------------------------------ assignment targets
    def target(self, node, scope, want_cls, line, from_port=None):
        """-> (root Obj, target type, assign(c, value), whole: bool) or None"""
        accessors = []
        n = node
        while n.kind == "apply":
            if len(n.args) != 1:
                self.error("S-type", "target with several indices", line, where="target")
                return None
            accessors.append(n.args[0])
            n = n.prefix
        if n.kind != "name":
            if n.kind in ("qualified", "binop", "unop", "int", "str", "char", "aggregate", "paren"):
                self.error("S-type", "assignment target / output actual is not a name", line, where="target-not-name")
                return None
            raise Unsupported(f"target {n.kind}")
        accessors.reverse()
        ent = self.lookup(scope, n.id)
        if ent is None:
            self.error("S-unres", f"name {n.raw} is not declared", n.line, name=self.name_class(n.raw))
            return None
        if ent.kind != "object":
            self.error("S-type", f"{n.raw} is not an object and cannot be assigned", n.line, where="target", found=ent.kind)
            return None
        obj = ent
        if want_cls == "signal":
            if obj.cls not in ("signal", "port"):
                self.error("S-type", f"signal assignment to {obj.cls} {obj.raw}", line, where="target-class", found=obj.cls)
                return None
            if obj.cls == "port" and obj.mode == "in":
                self.error("S-mode", f"input port {obj.raw} is assigned", line, port_mode="in", access="write")
                return None
        else:
            if obj.cls not in ("variable", "param"):
                self.error("S-type", f"variable assignment to {obj.cls} {obj.raw}", line, where="target-class", found=obj.cls)
                return None
            if obj.cls == "variable" and obj.owner is not self.cur_owner:
                self.error("S-unres", f"variable {obj.raw} assigned outside its process", line, name="variable-outside-process")
                return None
        ty = obj.ty
        if ty is ERR:
            return None
        steps = []  # (kind, ty, static pos or fn, length)
        static_range = (0, None)  # positions within the root value when fully static and one level deep
        fully_static = True
        depth = 0
        for a in accessors:
            if ty.kind != "array":
                self.error("S-type", f"indexed target {obj.raw} is not an array at this level ({ty})", line, where="target-index", found=cat(ty))
                return None
            if ty.rng is None:
                raise Unsupported("unconstrained target")
            if steps and steps[-1][0] == "slc":
                raise Unsupported("index of a slice in a target")
            if a.kind == "range":
                l = self.static_int(a.left, scope)
                r = self.static_int(a.right, scope)
                if l is None or r is None:
                    raise Unsupported("non-static slice target")
                d = a.dir
                sty = ty.constrained((l, d, r))
                ln = sty.length
                if d != ty.rng[1] and ln > 0:
                    self.error("S-type", f"slice direction '{d}' does not match the direction of {ty}", line, where="slice-direction")
                    return None
                tl, td, tr = ty.rng
                ok = ln == 0 or ((tr <= r and l <= tl) if td == "downto" else (tl <= l and r <= tr))
                if not ok:
                    self.error("S-width", f"slice ({l} {d} {r}) outside the bounds of {ty}", line, where="slice-bounds", got=l, want=tl)
                    return None
                p0 = ty.index_pos(l) if ln else 0
                steps.append(("slc", ty, p0, ln))
                ty = sty
            else:
                ie = self.fit(self.expr(a, scope, INTEGER), INTEGER, line, "index of target")
                if ie.ty is ERR:
                    return None
                sv = ie.static_value()
                if sv:
                    i = sv[0]
                    tl, td, tr = ty.rng
                    if not ((tr <= i <= tl) if td == "downto" else (tl <= i <= tr)):
                        self.error("S-width", f"index {i} outside the bounds of {ty}", line, where="index-bounds", got=i, want=tl)
                        return None
                    steps.append(("idx", ty, ty.index_pos(i), None))
                else:
                    fully_static = False
                    steps.append(("dyn", ty, (ie.fn, ty.index_pos), None))
                ty = ty.elem
            depth += 1
        # statically known region driven: one (lo, hi) position range per level up to the first
        # run-time index (everything below a run-time index counts as driven)
        region = []
        for st_ in steps:
            if st_[0] == "slc":
                region.append((st_[2], st_[2] + st_[3] - 1))
            elif st_[0] == "idx":
                region.append((st_[2], st_[2]))
            else:
                break
        drv_range = tuple(region) if region else None
        steps = tuple(steps)

        def upd(old, c, new, k=0):
            if k == len(steps):
                return new
            kind, sty, arg, ln = steps[k]
            if kind == "slc":
                if len(new) != ln:
                    raise V.SimError("length_mismatch", f"slice of length {ln} assigned a value of length {len(new)}")
                return old[:arg] + tuple(new) + old[arg + ln:]
            pos = arg if kind == "idx" else arg[1](arg[0](c))
            return old[:pos] + (upd(old[pos], c, new, k + 1),) + old[pos + 1:]

        idx = obj.idx
        is_sig = want_cls == "signal"
        tlen = ty.length if ty.kind == "array" else None
        lo, hi = (ty.lo, ty.hi) if ty.kind == "int" else (None, None)

        def check(v):
            if tlen is not None and len(v) != tlen:
                raise V.SimError("length_mismatch", f"target of length {tlen} assigned a value of length {len(v)}")
            if lo is not None and not (lo <= v <= hi):
                raise V.SimError("range_check", f"value {v} outside {lo} to {hi}")

        if is_sig:
            if not steps:
                def assign(c, v):
                    check(v)
                    s = c.s[idx]
                    s.drv = v
                    c.k.active.add(s)
            else:
                def assign(c, v):
                    check(v)
                    s = c.s[idx]
                    s.drv = upd(s.drv, c, v)
                    c.k.active.add(s)
            if self.cur_proc is not None:
                self.cur_proc.drives.setdefault(obj, []).append(drv_range)
        else:
            if not steps:
                def assign(c, v):
                    check(v)
                    c.v[idx] = v
            else:
                def assign(c, v):
                    check(v)
                    c.v[idx] = upd(c.v[idx], c, v)
        return obj, ty, assign, not steps

    def signal_assign(self, target, value, scope, line):
        if value.kind == "unaffected":
            self.target(target, scope, "signal", line)
            return lambda c: None
        t = self.target(target, scope, "signal", line)
        if t is None:
            self.expr(value, scope)  # still analyse the source for further errors
            return None
        obj, ty, assign, _ = t
        e = self.fit(self.expr(value, scope, ty), ty, line, f"signal assignment to {obj.raw}")
        if e.ty is ERR:
            return None
        f = e.fn
        return lambda c: assign(c, f(c))

    def variable_assign(self, target, value, scope, line):
        t = self.target(target, scope, "variable", line)
        if t is None:
            self.expr(value, scope)
            return None
        obj, ty, assign, _ = t
        e = self.fit(self.expr(value, scope, ty), ty, line, f"variable assignment to {obj.raw}")
        if e.ty is ERR:
            return None
        f = e.fn
        return lambda c: assign(c, f(c))


def analyse(text: str) -> Design:
    return Analyzer().run(text)
