"""Static type model for the analysed VHDL subset."""
from __future__ import annotations

from . import values as V


class Ty:
    """kind: 'sl' | 'bool' | 'int' | 'enum' | 'array' | 'string' | 'char'
    base: name of the base type (identity for type checking)
    array: elem (Ty), rng = (left, dir, right) or None when unconstrained
    int:   lo, hi (subtype range)
    enum:  literals (list of names)"""

    __slots__ = ("kind", "base", "elem", "rng", "lo", "hi", "literals", "name")

    def __init__(self, kind, base, elem=None, rng=None, lo=None, hi=None, literals=None, name=None):
        self.kind, self.base, self.elem, self.rng = kind, base, elem, rng
        self.lo, self.hi, self.literals = lo, hi, literals
        self.name = name or base

    def __repr__(self):
        if self.kind == "array" and self.rng:
            return f"{self.base}({self.rng[0]} {self.rng[1]} {self.rng[2]})"
        return self.name

    @property
    def length(self):
        if self.kind != "array" or self.rng is None:
            return None
        l, d, r = self.rng
        n = (l - r + 1) if d == "downto" else (r - l + 1)
        return max(n, 0)

    def constrained(self, rng):
        return Ty("array", self.base, elem=self.elem, rng=rng, name=self.name)

    def with_length(self, n):
        """anonymous result subtype of known length (bounds n-1 downto 0 as numeric_std results)."""
        if n is None:
            return Ty("array", self.base, elem=self.elem, rng=None, name=self.name)
        return Ty("array", self.base, elem=self.elem, rng=(n - 1, "downto", 0), name=self.name)

    def same_base(self, other):
        return other is not None and self.base == other.base

    def is_vec(self):
        return self.kind == "array" and self.elem is not None and self.elem.kind == "sl"

    def is_numeric_vec(self):
        return self.base in ("unsigned", "signed")

    def index_pos(self, i):
        """position in the value tuple of index i (bound checked)."""
        l, d, r = self.rng
        if d == "downto":
            if i > l or i < r:
                raise V.SimError("index_out_of_range", f"index {i} not in {l} downto {r}")
            return l - i
        if i < l or i > r:
            raise V.SimError("index_out_of_range", f"index {i} not in {l} to {r}")
        return i - l

    def default_value(self):
        if self.kind == "sl":
            return V.U
        if self.kind == "bool":
            return False
        if self.kind == "int":
            return self.lo
        if self.kind == "enum":
            return 0
        if self.kind == "array":
            n = self.length
            if n is None:
                raise V.SimError("unconstrained", "object of unconstrained array type")
            return (self.elem.default_value(),) * n
        raise AssertionError(self.kind)


STD_ULOGIC = Ty("sl", "std_ulogic", name="std_logic")
BOOLEAN = Ty("bool", "boolean")
INTEGER = Ty("int", "integer", lo=V.INT_MIN, hi=V.INT_MAX)
NATURAL = Ty("int", "integer", lo=0, hi=V.INT_MAX, name="natural")
POSITIVE = Ty("int", "integer", lo=1, hi=V.INT_MAX, name="positive")
SLV = Ty("array", "std_logic_vector", elem=STD_ULOGIC)
UNSIGNED = Ty("array", "unsigned", elem=STD_ULOGIC)
SIGNED = Ty("array", "signed", elem=STD_ULOGIC)
CHARACTER = Ty("char", "character")
STRING = Ty("array", "string", elem=CHARACTER)
SEVERITY = Ty("enum", "severity_level", literals=["note", "warning", "error", "failure"])
BIT = Ty("enum", "bit", literals=["'0'", "'1'"])

PREDEFINED_TYPES = {
    "std_logic": STD_ULOGIC, "std_ulogic": STD_ULOGIC,
    "std_logic_vector": SLV, "std_ulogic_vector": SLV,
    "unsigned": UNSIGNED, "signed": SIGNED,
    "unresolved_unsigned": UNSIGNED, "unresolved_signed": SIGNED, "u_unsigned": UNSIGNED, "u_signed": SIGNED,
    "boolean": BOOLEAN, "integer": INTEGER, "natural": NATURAL, "positive": POSITIVE,
    "string": STRING, "character": CHARACTER, "severity_level": SEVERITY,
}

# names of std.standard / ieee packages visible through the emitted use clauses that the
# backend's own text can rely on (used for the "hides a predefined name" rule)
PREDEFINED_FUNCTIONS = {
    "resize", "to_integer", "to_unsigned", "to_signed", "shift_left", "shift_right", "rotate_left",
    "rotate_right", "rising_edge", "falling_edge", "std_match", "to_01", "to_x01", "to_bit", "to_bitvector",
    "to_stdulogic", "to_stdlogicvector", "to_stdulogicvector", "is_x", "to_ux01", "to_x01z", "minimum", "maximum",
    "now",
}
PREDEFINED_LITERALS = {"true", "false", "note", "warning", "error", "failure"}
PREDEFINED_NAMES = set(PREDEFINED_TYPES) | PREDEFINED_FUNCTIONS | PREDEFINED_LITERALS | {
    "bit", "bit_vector", "real", "time", "delay_length", "file_open_kind", "file_open_status",
    "ieee", "std", "work", "std_logic_1164", "numeric_std", "standard", "x01", "x01z", "ux01", "ux01z",
}
