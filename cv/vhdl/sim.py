"""Event-driven simulation kernel (delta cycles, zero delay) for analysed designs."""
from __future__ import annotations

from . import values as V
from .analyze import Design, analyse
from .expr import ERR
from .lexer import Unsupported


class Blocked(Exception):
    """the design cannot be simulated (static errors or unsupported construct)"""


class Sig:
    __slots__ = ("name", "ty", "cur", "last", "drv", "event_id", "fanout")

    def __init__(self, name, ty, init):
        self.name, self.ty = name, ty
        self.cur = self.last = self.drv = init
        self.event_id = -1
        self.fanout = []

    def __repr__(self):
        return f"Sig({self.name}={self.cur!r})"


class Ctx:
    __slots__ = ("s", "v", "k", "path")

    def __init__(self, k, path):
        self.k = k
        self.path = path
        self.s = []
        self.v = []


class Proc:
    __slots__ = ("ctx", "fn", "order", "name")

    def __init__(self, ctx, fn, order, name):
        self.ctx, self.fn, self.order, self.name = ctx, fn, order, name


class Sim:
    MAX_DELTAS = 2000

    def __init__(self, design, top=None, check_static=True, inputs=None):
        """inputs: initial values of top-level input ports (like initialised test-bench signals);
        ports not listed start as 'U' / leftmost value."""
        if isinstance(design, str):
            design = analyse(design)
        self.design = design
        if design.unsupported:
            raise Blocked(f"unsupported: {design.unsupported}")
        # an incomplete sensitivity list (S-sens) is legal VHDL: the process simply is not resumed by the missing signals,
        # which is what the kernel does with the list as written; every other static finding blocks the simulation
        blocking = [e for e in design.errors if e.rule != "S-sens"]
        if check_static and blocking:
            raise Blocked(f"static errors: {blocking[:3]}")
        if top is None:
            top = [n for k, n in design.order if k == "architecture"][-1]
        top = top.lower()
        if top not in design.entities or design.entities[top].arch is None:
            raise Blocked(f"no architecture for top entity {top}")
        self.active = set()
        self.cur_id = 0
        self.procs = []
        self.sigs = []
        self.ctxs = []
        self.assert_failures = 0
        self.deltas = 0
        self.top_ent = design.entities[top]
        self.top = self._elab(self.top_ent, top, {})
        self.ports = {p.name: self.top.s[p.idx] for p in self.top_ent.ports}
        self.port_objs = {p.name: p for p in self.top_ent.ports}
        for name, val in (inputs or {}).items():
            sg = self.ports[name.lower()]
            sg.cur = sg.last = sg.drv = self._encode(sg.ty, val)
        # initialisation: every process runs once
        for p in self.procs:
            p.fn(p.ctx)
        self.settle()

    # ------------------------------------------------------------------ elaboration
    def _elab(self, ei, path, bound):
        """bound: port Obj -> Sig supplied by the parent (collapsed association)"""
        ai = ei.arch
        c = Ctx(self, path)
        self.ctxs.append(c)
        for o in ai.sig_objs:
            if o.ty is ERR:
                raise Blocked(f"object {o.raw} has no valid type")
            if o in bound:
                c.s.append(bound[o])
                continue
            if o.init is not None:
                init = o.init.fn(None)
            else:
                init = o.ty.default_value()
            s = Sig(f"{path}.{o.raw}", o.ty, init)
            self.sigs.append(s)
            c.s.append(s)
        c.v = [None] * ai.nvars
        for idx, fn, ty in ai.var_inits:
            c.v[idx] = fn(c) if fn is not None else ty.default_value()
        for p in ai.procs:
            if p.kind in ("inst-out", "inst-in") or p.body is None:
                continue
            pr = Proc(c, p.body, len(self.procs), f"{path}:{p.label or p.kind}@{p.line}")
            self.procs.append(pr)
            for o in p.sens:
                c.s[o.idx].fanout.append(pr)
        for inst in ai.insts:
            child = inst.entity
            cb = {}
            later = []
            for f, kind, x, whole, pinfo in inst.assocs:
                if kind == "in":
                    e = x
                    if whole and e.obj.ty.length == f.ty.length:
                        cb[f] = c.s[e.obj.idx]
                    else:
                        later.append((f, kind, x))
                else:
                    obj, assign = x
                    if whole:
                        cb[f] = c.s[obj.idx]
                    else:
                        later.append((f, kind, x))
            cc = self._elab(child, f"{path}.{inst.label}", cb)
            for f, kind, x in later:
                fs = cc.s[f.idx]
                if kind == "in":
                    e = x
                    efn = e.fn

                    def copy_in(ctx, efn=efn, fs=fs):
                        v = efn(ctx)
                        fs.drv = v
                        ctx.k.active.add(fs)
                    pr = Proc(c, copy_in, len(self.procs), f"{path}.{inst.label}:in:{f.raw}")
                    self.procs.append(pr)
                    for o in e.reads:
                        c.s[o.idx].fanout.append(pr)
                else:
                    obj, assign = x

                    def copy_out(ctx, assign=assign, fs=fs):
                        assign(ctx, fs.cur)
                    pr = Proc(c, copy_out, len(self.procs), f"{path}.{inst.label}:out:{f.raw}")
                    self.procs.append(pr)
                    fs.fanout.append(pr)
        return c

    # ------------------------------------------------------------------ kernel
    def assertion_failed(self, line):
        self.assert_failures += 1

    def settle(self):
        n = 0
        while self.active:
            n += 1
            if n > self.MAX_DELTAS:
                raise V.SimError("delta_overflow", "no quiescence after %d delta cycles (combinational loop?)" % self.MAX_DELTAS)
            self.cur_id += 1
            cid = self.cur_id
            run = {}
            act = self.active
            self.active = set()
            for s in act:
                if s.drv != s.cur:
                    s.last = s.cur
                    s.cur = s.drv
                    s.event_id = cid
                    for p in s.fanout:
                        run[p.order] = p
            for k in sorted(run):
                p = run[k]
                p.fn(p.ctx)
        self.deltas += n
        # after quiescence no signal has an event any more
        self.cur_id += 1

    # ------------------------------------------------------------------ harness API
    def _encode(self, ty, value):
        if ty.kind == "sl":
            if isinstance(value, str):
                return V.CHAR2V[value]
            return V.L1 if value else V.L0
        if ty.kind == "bool":
            return bool(value)
        if ty.kind in ("int", "enum"):
            return int(value)
        if ty.kind == "array":
            n = ty.length
            if isinstance(value, str):
                v = V.vec_from_str(value)
                if len(v) != n:
                    raise ValueError(f"value {value!r} for {ty}")
                return v
            if isinstance(value, int) and ty.elem.kind == "sl":
                return V.int_to_vec(value, n)
            if isinstance(value, (list, tuple)):
                if len(value) != n:
                    raise ValueError(f"{len(value)} elements for {ty}")
                return tuple(self._encode(ty.elem, x) for x in value)
        raise ValueError(f"cannot encode {value!r} as {ty}")

    def set(self, port, value):
        s = self.ports[port.lower()]
        v = self._encode(s.ty, value)
        s.drv = v
        self.active.add(s)

    def poke(self, **kw):
        for k, v in kw.items():
            self.set(k, v)
        self.settle()

    def raw(self, port):
        return self.ports[port.lower()].cur

    def get_str(self, port):
        s = self.ports[port.lower()]
        return self._show(s.ty, s.cur)

    def _show(self, ty, v):
        if ty.kind == "sl":
            return V.CHARS[v]
        if ty.kind == "array":
            if ty.elem.kind == "sl":
                return V.vec_to_str(v)
            return [self._show(ty.elem, x) for x in v]
        if ty.kind == "enum":
            return ty.literals[v]
        return v

    def get(self, port):
        """int for fully defined sl/vectors (two's complement for signed), bool, int; None if it has metavalues."""
        s = self.ports[port.lower()]
        return self._decode(s.ty, s.cur)

    def _decode(self, ty, v):
        if ty.kind == "sl":
            t = V.TO_X01[v]
            return 1 if t == V.L1 else 0 if t == V.L0 else None
        if ty.kind == "array":
            if ty.elem.kind == "sl":
                return V.s_to_int(v) if ty.base == "signed" else V.u_to_int(v)
            return [self._decode(ty.elem, x) for x in v]
        return v

    def clock(self, name="clk", **inputs):
        """apply inputs (while the clock is low), then a full clock period: rise, settle, fall, settle."""
        if self.ports[name.lower()].cur != V.L0:
            inputs = dict(inputs)
            inputs[name] = 0  # a rising edge needs a defined '0' first (an 'U' -> '1' change is not one)
        if inputs:
            self.poke(**inputs)
        self.set(name, 1)
        self.settle()
        self.set(name, 0)
        self.settle()

    def snapshot(self):
        return (tuple((s.cur, s.last, s.drv) for s in self.sigs), tuple(tuple(c.v) for c in self.ctxs))

    def restore(self, snap):
        sv, vv = snap
        for s, (cur, last, drv) in zip(self.sigs, sv):
            s.cur, s.last, s.drv = cur, last, drv
            s.event_id = -1
        for c, v in zip(self.ctxs, vv):
            c.v = list(v)
        self.active.clear()

    def find(self, path):
        """signal by hierarchical name 'top.inst.sig' (case-insensitive suffix match)."""
        path = path.lower()
        hits = [s for s in self.sigs if s.name.lower().endswith(path)]
        if len(hits) != 1:
            raise KeyError(f"{path}: {len(hits)} matches")
        return hits[0]
