"""Value model: std_ulogic (9-valued) scalars and vectors, and the ieee.numeric_std /
std_logic_1164 functions the backend uses, transcribed from the package bodies.

std_ulogic values are ints = position in ('U','X','0','1','Z','W','L','H','-').
Vectors are tuples of those ints, leftmost element first.
"""
from __future__ import annotations

CHARS = "UX01ZWLH-"
U, X, L0, L1, Z, W, WL, WH, DC = range(9)
CHAR2V = {c: i for i, c in enumerate(CHARS)}

INT_MIN, INT_MAX = -(2 ** 31), 2 ** 31 - 1


class SimError(Exception):
    """A VHDL run-time error (bound check, range check, division by zero...)."""

    def __init__(self, kind, msg=""):
        super().__init__(f"{kind}: {msg}")
        self.kind = kind


class Warnings:
    count = 0
    kinds = {}

    @classmethod
    def warn(cls, kind):
        cls.count += 1
        cls.kinds[kind] = cls.kinds.get(kind, 0) + 1


# ------------------------------------------------------------------ std_logic_1164 tables
def _tbl(rows):
    return tuple(tuple(CHAR2V[c] for c in r.replace(" ", "")) for r in rows)


AND_T = _tbl([
    "U U 0 U U U 0 U U",
    "U X 0 X X X 0 X X",
    "0 0 0 0 0 0 0 0 0",
    "U X 0 1 X X 0 1 X",
    "U X 0 X X X 0 X X",
    "U X 0 X X X 0 X X",
    "0 0 0 0 0 0 0 0 0",
    "U X 0 1 X X 0 1 X",
    "U X 0 X X X 0 X X",
])
OR_T = _tbl([
    "U U U 1 U U U 1 U",
    "U X X 1 X X X 1 X",
    "U X 0 1 X X 0 1 X",
    "1 1 1 1 1 1 1 1 1",
    "U X X 1 X X X 1 X",
    "U X X 1 X X X 1 X",
    "U X 0 1 X X 0 1 X",
    "1 1 1 1 1 1 1 1 1",
    "U X X 1 X X X 1 X",
])
XOR_T = _tbl([
    "U U U U U U U U U",
    "U X X X X X X X X",
    "U X 0 1 X X 0 1 X",
    "U X 1 0 X X 1 0 X",
    "U X X X X X X X X",
    "U X X X X X X X X",
    "U X 0 1 X X 0 1 X",
    "U X 1 0 X X 1 0 X",
    "U X X X X X X X X",
])
NOT_T = tuple(CHAR2V[c] for c in "UX10XX10X")
RESOLVE_T = _tbl([
    "U U U U U U U U U",
    "U X X X X X X X X",
    "U X 0 X 0 0 0 0 X",
    "U X X 1 1 1 1 1 X",
    "U X 0 1 Z W L H X",
    "U X 0 1 W W W W X",
    "U X 0 1 L W L W X",
    "U X 0 1 H W W H X",
    "U X X X X X X X X",
])
# to_x01: 'L'->'0', 'H'->'1', others 'X'
TO_X01 = (X, X, L0, L1, X, X, L0, L1, X)


def sl_and(a, b):
    return AND_T[a][b]


def sl_or(a, b):
    return OR_T[a][b]


def sl_xor(a, b):
    return XOR_T[a][b]


def sl_not(a):
    return NOT_T[a]


def vec_logic(tbl, a, b):
    if len(a) != len(b):
        raise SimError("length_mismatch", f"logical operator on vectors of length {len(a)} and {len(b)}")
    return tuple(tbl[x][y] for x, y in zip(a, b))


def vec_not(a):
    return tuple(NOT_T[x] for x in a)


def is_edge_value(v):
    return v


def to_x01_bit(v):
    return TO_X01[v]


# ------------------------------------------------------------------ helpers
def vec_from_str(s):
    try:
        return tuple(CHAR2V[c] for c in s)
    except KeyError as e:
        raise SimError("bad_literal", f"character {e} is not a std_logic value") from None


def vec_to_str(v):
    return "".join(CHARS[x] for x in v)


def _to01(v):
    """numeric_std TO_01(v, 'X'): returns tuple over {0,1} as python ints list or None if metavalue."""
    out = 0
    for x in v:
        if x == L1 or x == WH:
            out = (out << 1) | 1
        elif x == L0 or x == WL:
            out = out << 1
        else:
            return None
    return out


def u_to_int(v):
    return _to01(v)


def s_to_int(v):
    r = _to01(v)
    if r is None:
        return None
    n = len(v)
    if n and (r >> (n - 1)) & 1:
        r -= 1 << n
    return r


def int_to_vec(val, n):
    """two's complement / modulo encoding of val into n bits."""
    val &= (1 << n) - 1 if n else 0
    return tuple(L1 if (val >> (n - 1 - i)) & 1 else L0 for i in range(n))


def all_x(n):
    return (X,) * n


def check_integer(v):
    if v < INT_MIN or v > INT_MAX:
        raise SimError("integer_overflow", f"{v} is outside the range of INTEGER")
    return v


def check_natural(v, what="NATURAL"):
    if v < 0 or v > INT_MAX:
        raise SimError("range_check", f"{v} is not in the range of {what}")
    return v


# ------------------------------------------------------------------ numeric_std
def to_unsigned(arg, size):
    check_natural(arg, "NATURAL (to_unsigned ARG)")
    check_natural(size, "NATURAL (to_unsigned SIZE)")
    if size < 1:
        return ()
    if arg >> size:
        Warnings.warn("to_unsigned_truncated")
    return int_to_vec(arg, size)


def to_signed(arg, size):
    check_integer(arg)
    check_natural(size, "NATURAL (to_signed SIZE)")
    if size < 1:
        return ()
    if not (-(1 << (size - 1)) <= arg < (1 << (size - 1))):
        Warnings.warn("to_signed_truncated")
    return int_to_vec(arg, size)


def to_integer_u(v):
    if len(v) < 1:
        Warnings.warn("to_integer_null")
        return 0
    r = u_to_int(v)
    if r is None:
        Warnings.warn("to_integer_metavalue")
        return 0
    return check_natural(r, "NATURAL (to_integer result)")


def to_integer_s(v):
    if len(v) < 1:
        Warnings.warn("to_integer_null")
        return 0
    r = s_to_int(v)
    if r is None:
        Warnings.warn("to_integer_metavalue")
        return 0
    return check_integer(r)


def resize_u(v, n):
    check_natural(n, "NATURAL (resize NEW_SIZE)")
    if n < 1:
        return ()
    k = len(v)
    if k == 0:
        return (L0,) * n
    if n >= k:
        return (L0,) * (n - k) + tuple(v)
    return tuple(v[k - n:])


def resize_s(v, n):
    check_natural(n, "NATURAL (resize NEW_SIZE)")
    if n < 1:
        return ()
    k = len(v)
    if k == 0:
        return (L0,) * n
    if n >= k:
        return (v[0],) * (n - k) + tuple(v)
    # keep sign bit, then the n-1 rightmost bits
    return (v[0],) + tuple(v[k - (n - 1):]) if n > 1 else (v[0],)


def _arith(l, r, signed, fn):
    """numeric_std "+", "-": result length = max(len); metavalue -> all X."""
    size = max(len(l), len(r))
    if len(l) < 1 or len(r) < 1:
        return ()
    a = (s_to_int if signed else u_to_int)(l)
    b = (s_to_int if signed else u_to_int)(r)
    if a is None or b is None:
        Warnings.warn("arith_metavalue")
        return all_x(size)
    return int_to_vec(fn(a, b), size)


def add(l, r, signed):
    return _arith(l, r, signed, lambda a, b: a + b)


def sub(l, r, signed):
    return _arith(l, r, signed, lambda a, b: a - b)


def mul(l, r, signed):
    if len(l) < 1 or len(r) < 1:
        return ()
    size = len(l) + len(r)
    a = (s_to_int if signed else u_to_int)(l)
    b = (s_to_int if signed else u_to_int)(r)
    if a is None or b is None:
        Warnings.warn("arith_metavalue")
        return all_x(size)
    return int_to_vec(a * b, size)


def _trunc_div(a, b):
    q = abs(a) // abs(b)
    return q if (a < 0) == (b < 0) else -q


def div(l, r, signed):
    if len(l) < 1 or len(r) < 1:
        return ()
    a = (s_to_int if signed else u_to_int)(l)
    b = (s_to_int if signed else u_to_int)(r)
    if a is None or b is None:
        Warnings.warn("arith_metavalue")
        return all_x(len(l))
    if b == 0:
        raise SimError("division_by_zero", "numeric_std \"/\"")
    return int_to_vec(_trunc_div(a, b), len(l))


def rem(l, r, signed):
    if len(l) < 1 or len(r) < 1:
        return ()
    a = (s_to_int if signed else u_to_int)(l)
    b = (s_to_int if signed else u_to_int)(r)
    if a is None or b is None:
        Warnings.warn("arith_metavalue")
        return all_x(len(r))
    if b == 0:
        raise SimError("division_by_zero", "numeric_std rem")
    return int_to_vec(a - b * _trunc_div(a, b), len(r))


def mod(l, r, signed):
    if len(l) < 1 or len(r) < 1:
        return ()
    a = (s_to_int if signed else u_to_int)(l)
    b = (s_to_int if signed else u_to_int)(r)
    if a is None or b is None:
        Warnings.warn("arith_metavalue")
        return all_x(len(r))
    if b == 0:
        raise SimError("division_by_zero", "numeric_std mod")
    return int_to_vec(a % b, len(r))  # python % has the sign of the divisor, like VHDL mod


def neg_s(v):
    if len(v) < 1:
        return ()
    a = s_to_int(v)
    if a is None:
        Warnings.warn("arith_metavalue")
        return all_x(len(v))
    return int_to_vec(-a, len(v))


def abs_s(v):
    if len(v) < 1:
        return ()
    a = s_to_int(v)
    if a is None:
        Warnings.warn("arith_metavalue")
        return all_x(len(v))
    return int_to_vec(abs(a), len(v))


def compare(l, r, signed, op):
    """numeric_std relational operators on two vectors (different lengths allowed)."""
    if len(l) < 1 or len(r) < 1:
        Warnings.warn("compare_null")
        return op == "/="
    a = (s_to_int if signed else u_to_int)(l)
    b = (s_to_int if signed else u_to_int)(r)
    if a is None or b is None:
        Warnings.warn("compare_metavalue")
        return op == "/="
    return _cmp(a, b, op)


def compare_int(l, i, signed, op, swapped=False):
    """vector op integer (or integer op vector when swapped).  For UNSIGNED the integer
    parameter is NATURAL (range check)."""
    if not signed:
        check_natural(i, "NATURAL (numeric_std comparison operand)")
    else:
        check_integer(i)
    if len(l) < 1:
        Warnings.warn("compare_null")
        return op == "/="
    a = (s_to_int if signed else u_to_int)(l)
    if a is None:
        Warnings.warn("compare_metavalue")
        return op == "/="
    return _cmp(i, a, op) if swapped else _cmp(a, i, op)


def _cmp(a, b, op):
    if op == "=":
        return a == b
    if op == "/=":
        return a != b
    if op == "<":
        return a < b
    if op == "<=":
        return a <= b
    if op == ">":
        return a > b
    if op == ">=":
        return a >= b
    raise AssertionError(op)


def int_operand(i, n, signed):
    """TO_UNSIGNED(i, n) / TO_SIGNED(i, n) as numeric_std does for mixed integer operands."""
    return to_signed(i, n) if signed else to_unsigned(i, n)


def shift_left(v, count, signed):
    check_natural(count, "NATURAL (shift_left COUNT)")
    n = len(v)
    if n < 1:
        return ()
    if count >= n:
        return (L0,) * n
    return tuple(v[count:]) + (L0,) * count


def shift_right(v, count, signed):
    check_natural(count, "NATURAL (shift_right COUNT)")
    n = len(v)
    if n < 1:
        return ()
    fill = v[0] if signed else L0
    if count >= n:
        return (fill,) * n
    return (fill,) * count + tuple(v[: n - count])


def rotate_left(v, count):
    check_natural(count, "NATURAL")
    n = len(v)
    if n < 1:
        return ()
    c = count % n
    return tuple(v[c:]) + tuple(v[:c])


def rotate_right(v, count):
    check_natural(count, "NATURAL")
    n = len(v)
    if n < 1:
        return ()
    c = count % n
    return tuple(v[n - c:]) + tuple(v[: n - c]) if c else tuple(v)


def predefined_array_compare(a, b, op):
    """Predefined relational operators of one-dimensional discrete arrays (LRM 7.2.2):
    equality element-wise incl. length; ordering lexicographic on element positions."""
    if op == "=":
        return tuple(a) == tuple(b)
    if op == "/=":
        return tuple(a) != tuple(b)
    ta, tb = tuple(a), tuple(b)
    if op == "<":
        return ta < tb
    if op == "<=":
        return ta <= tb
    if op == ">":
        return ta > tb
    if op == ">=":
        return ta >= tb
    raise AssertionError(op)


# ------------------------------------------------------------------ mixed integer operands
def unsigned_num_bits(n):
    b = 1
    n >>= 1
    while n > 0:
        b += 1
        n >>= 1
    return b


def signed_num_bits(n):
    b = 1
    x = n if n >= 0 else -(n + 1)
    while x > 0:
        b += 1
        x >>= 1
    return b


def _ck(i, signed):
    if signed:
        check_integer(i)
    else:
        check_natural(i, "NATURAL (numeric_std integer operand of an UNSIGNED operator)")


def addsub_int(v, i, signed, op, int_left):
    """L + R with one integer operand: the integer is converted with TO_(UN)SIGNED(i, other'length)."""
    _ck(i, signed)
    if len(v) < 1:
        return ()
    iv = int_operand(i, len(v), signed)
    l, r = (iv, v) if int_left else (v, iv)
    return add(l, r, signed) if op == "+" else sub(l, r, signed)


def mul_int(v, i, signed, int_left):
    _ck(i, signed)
    if len(v) < 1:
        return ()
    iv = int_operand(i, len(v), signed)
    return mul(iv, v, signed) if int_left else mul(v, iv, signed)


def divlike_int(v, i, signed, op, int_left):
    """"/", rem, mod with one integer operand (numeric_std bodies): the integer is converted at
    max(len, num_bits) so it is *not* truncated; the result is resized to the vector's length."""
    _ck(i, signed)
    n = len(v)
    if n < 1:
        return ()
    nb = (signed_num_bits if signed else unsigned_num_bits)(i)
    big = max(n, nb)
    iv = int_operand(i, big, signed)
    rs = resize_s if signed else resize_u
    fn = {"/": div, "rem": rem, "mod": mod}[op]
    if int_left:
        # (L:int, R:vec): XL := TO_x(L, max(nb, R'len)); result := RESIZE(XL op R, R'LENGTH)
        return rs(fn(iv, v, signed), n)
    # (L:vec, R:int): XR := TO_x(R, max(L'len, nb)); "/" returns zeros when R needs more bits than L has
    if op == "/" and big > n:
        return (L0,) * n
    return rs(fn(v, iv, signed), n)
