"""Design pools for C11 (history independence of compilation).

Every design is a *module source text* (self contained, imports only cohdl) rendered
from a template with a small finite parameter space (widths, constants, name suffixes),
so that Hypothesis can draw variants while the number of distinct designs (= number of
fresh-interpreter goldens) stays bounded.

    DESIGNS[name] = {
        "src":    template text, parameters written as @W@, @K@, @N@ ...
        "params": {"W": [..], ...}           finite domain of every parameter
        "tops":   {"Top": "valid" | "<reject stage>"}   entity classes of the module
        "tags":   features of the valid tops (used to describe the *victim* of a finding)
    }

A top whose value is "valid" is expected to compile in a fresh interpreter, any other
value names the stage at which the fresh interpreter is expected to reject it.  These
expectations are *not* used as an oracle (the oracle is the fresh-interpreter golden);
they only classify cases (labels, signatures) and are verified by `selfcheck_pools()`.

A module may contain several tops that share sub-entity classes / helper objects
("shared_*"): compiling one after (a rejected or accepted) other one exercises the
per-class caches (`EntityInfo.instantiated*`).
"""
from __future__ import annotations

import itertools
import re

HEADER = '''from __future__ import annotations
import cohdl
from cohdl import std, enum
from cohdl import Bit, BitVector, Unsigned, Signed, Port, Signal, Variable, Temporary
from cohdl import Null, Full, always, expr
'''

DESIGNS: dict[str, dict] = {}


def _d(name, src, tops=None, tags=(), **params):
    assert name not in DESIGNS
    DESIGNS[name] = {
        "src": HEADER + src,
        "params": {k: list(v) for k, v in params.items()},
        "tops": tops or {"Top": "valid"},
        "tags": list(tags),
    }


# =============================================================================== valid
_d("comb_logic", '''
class Top(cohdl.Entity):
    a@N@ = Port.input(BitVector[@W@])
    b@N@ = Port.input(BitVector[@W@])
    sel = Port.input(Bit)
    y = Port.output(BitVector[@W@])
    z = Port.output(Bit)

    def architecture(self):
        @std.concurrent
        def logic():
            self.y <<= (self.a@N@ & self.b@N@) if self.sel else (self.a@N@ | self.b@N@)
            self.z <<= self.a@N@[0] ^ self.b@N@[@W@ - 1]
''', tags=["concurrent"], W=[2, 4, 8], N=["", "_x"])

_d("seq_counter", '''
class Top(cohdl.Entity):
    clk = Port.input(Bit)
    rst = Port.input(Bit)
    en = Port.input(Bit)
    cnt = Port.output(Unsigned[@W@], default=Null)

    def architecture(self):
        @std.sequential(std.Clock(self.clk), std.Reset(self.rst))
        def proc_@N@():
            if self.en:
                if self.cnt == @K@:
                    self.cnt <<= 0
                else:
                    self.cnt <<= self.cnt + 1
''', tags=["sequential"], W=[3, 5, 8], K=[2, 5], N=["count", "tick"])

_d("seq_variable_match", '''
class Top(cohdl.Entity):
    clk = Port.input(Bit)
    code = Port.input(BitVector[2])
    data = Port.input(Unsigned[@W@])
    acc = Port.output(Unsigned[@W@], default=Null)

    def architecture(self):
        v = Variable[Unsigned[@W@]](0)

        @std.sequential(std.Clock(self.clk))
        def proc():
            nonlocal v
            match self.code:
                case "00":
                    v @= self.data
                case "01":
                    v @= v + @K@
                case "10":
                    v @= v - self.data
                case _:
                    pass
            self.acc <<= v
''', tags=["sequential", "match", "variable"], W=[4, 6], K=[1, 3])

_d("functions_multi_return", '''
def pick(sel, a, b):
    if sel:
        return a
    return b


def pick3(code, a, b, c):
    for cmp, val in (("00", a), ("01", b)):
        if code == cmp:
            return val
    else:
        return c


class Top(cohdl.Entity):
    code = Port.input(BitVector[2])
    a = Port.input(BitVector[@W@])
    b = Port.input(BitVector[@W@])
    c = Port.input(BitVector[@W@])
    x = Port.output(BitVector[@W@])
    y = Port.output(BitVector[@W@])

    def architecture(self):
        @std.sequential
        def proc():
            self.x <<= pick(self.code[0], self.a, self.b)
            self.y <<= pick3(self.code, self.a, pick(self.code[1], self.b, self.c), self.c)
''', tags=["sequential", "functions", "temporaries"], W=[2, 5])

_d("coro_await", '''
class Top(cohdl.Entity):
    clk = Port.input(Bit)
    enable = Port.input(Bit)
    inp = Port.input(BitVector[@W@])
    outp = Port.output(BitVector[@W@])

    def architecture(self):
        @std.sequential(std.Clock(self.clk))
        async def proc_@N@():
            await self.enable
            self.outp <<= self.inp
            await expr(not self.enable)
            self.outp <<= ~self.inp
''', tags=["coroutine"], W=[1, 4], N=["simple", "other"])

_d("coro_while_break_continue", '''
class Top(cohdl.Entity):
    clk = Port.input(Bit)
    reset = Port.input(Bit)
    state = Port.output(Unsigned[@W@], default=Null)
    step = Port.input(Bit)
    do_continue = Port.input(Bit)

    def architecture(self):
        cnt = Variable[Unsigned[@W@]](@K@)

        @std.sequential(std.Clock(self.clk), std.Reset(self.reset))
        async def proc():
            nonlocal cnt
            self.state <<= cnt + 1
            while True:
                cnt @= cnt - 1
                self.state <<= cnt
                await self.step
                if self.do_continue:
                    continue
                else:
                    break
''', tags=["coroutine", "while"], W=[3, 4], K=[7, 2])

_d("coro_while_cond_subcoro", '''
async def wait_n(sig, n):
    for _ in range(n):
        await sig


class Top(cohdl.Entity):
    clk = Port.input(Bit)
    go = Port.input(Bit)
    busy = Port.output(Bit, default=False)
    cnt = Port.output(Unsigned[@W@], default=Null)

    def architecture(self):
        @std.sequential(std.Clock(self.clk))
        async def proc():
            await self.go
            self.busy <<= True
            await wait_n(self.go, @K@)
            while self.cnt != @K@:
                self.cnt <<= self.cnt + 1
            self.busy <<= False
''', tags=["coroutine", "while", "subcoroutine"], W=[3, 4], K=[1, 2, 3])

_d("coro_two_machines", '''
class Top(cohdl.Entity):
    clk = Port.input(Bit)
    a = Port.input(Bit)
    b = Port.input(Bit)
    x = Port.output(Bit, default=False)
    y = Port.output(Unsigned[@W@], default=Null)

    def architecture(self):
        clk = std.Clock(self.clk)

        @std.sequential(clk)
        async def first():
            await self.a
            self.x <<= True
            await self.b
            self.x <<= False

        @std.sequential(clk)
        async def second():
            while not self.b:
                self.y <<= self.y + 1
            await self.a
            self.y <<= @K@
''', tags=["coroutine", "while", "multi_context"], W=[2, 4], K=[0, 1])

_d("always_expr", '''
class Top(cohdl.Entity):
    clk = Port.input(Bit)
    enable = Port.input(Bit)
    inp1 = Port.input(BitVector[@W@])
    inp2 = Port.input(BitVector[@W@])
    output = Port.output(BitVector[@W@])
    flag = Port.output(Bit)

    def architecture(self):
        @std.sequential(std.Clock(self.clk))
        async def proc():
            always_sig = always(self.inp1 | self.inp2)
            with always:
                self.flag <<= self.inp1[0] & self.enable
            await self.enable
            self.output <<= always_sig
''', tags=["coroutine", "always"], W=[2, 4])

_d("sub_entities", '''
class OrEntity(cohdl.Entity):
    a = Port.input(BitVector[@W@])
    b = Port.input(BitVector[@W@])
    result = Port.output(BitVector[@W@])

    def architecture(self):
        @std.concurrent
        def logic():
            self.result <<= self.a | self.b


class XorEntity(cohdl.Entity):
    a = Port.input(BitVector[@W@])
    b = Port.input(BitVector[@W@])
    result = Port.output(BitVector[@W@])

    def architecture(self):
        @std.concurrent
        def logic():
            self.result <<= self.a ^ self.b


class Nested(cohdl.Entity):
    a = Port.input(BitVector[@W@])
    b = Port.input(BitVector[@W@])
    result = Port.output(BitVector[@W@])

    def architecture(self):
        XorEntity(a=self.a, b=self.b, result=self.result)


class Top(cohdl.Entity):
    a = Port.input(BitVector[@W@])
    b = Port.input(BitVector[@W@])
    r_or = Port.output(BitVector[@W@])
    r_xor = Port.output(BitVector[@W@])
    r_xor2 = Port.output(BitVector[@W@])

    def architecture(self):
        OrEntity(a=self.a, b=self.b, result=self.r_or)
        Nested(a=self.a, b=self.b, result=self.r_xor)
        XorEntity(a=self.b, b=self.a, result=self.r_xor2)
''', tags=["subentity"], W=[1, 3])

_d("sub_entity_coroutine", '''
class Pulse(cohdl.Entity):
    clk = Port.input(Bit)
    trig = Port.input(Bit)
    pulse = Port.output(Bit, default=False)

    def architecture(self):
        @std.sequential(std.Clock(self.clk))
        async def proc():
            await self.trig
            self.pulse <<= True
            await expr(not self.trig)
            self.pulse <<= False


class Top(cohdl.Entity):
    clk = Port.input(Bit)
    t0 = Port.input(Bit)
    t1 = Port.input(Bit)
    p0 = Port.output(Bit)
    p1 = Port.output(Bit)
    both = Port.output(Bit)

    def architecture(self):
        Pulse(clk=self.clk, trig=self.t0, pulse=self.p0)
        Pulse(clk=self.clk, trig=self.t1, pulse=self.p1)

        @std.concurrent
        def logic_@N@():
            self.both <<= self.p0 & self.p1
''', tags=["subentity", "coroutine"], N=["a", "b"])

_d("inline_entity", '''
class AndEntity(cohdl.Entity):
    a = Port.input(BitVector[@W@])
    b = Port.input(BitVector[@W@])
    result = Port.output(BitVector[@W@])

    def architecture(self):
        @std.concurrent
        def logic():
            self.result <<= self.a & self.b


def and_fn(a, b):
    result = Signal[BitVector[@W@]](name="and_result")
    AndEntity(a=a, b=b, result=result)
    return result


class Top(cohdl.Entity):
    a = Port.input(BitVector[@W@])
    b = Port.input(BitVector[@W@])
    c = Port.input(BitVector[@W@])
    y = Port.output(BitVector[@W@])

    def architecture(self):
        @std.concurrent
        def logic():
            self.y <<= and_fn(and_fn(self.a, self.b), self.c)
''', tags=["inline_entity", "subentity", "uniquify"], W=[1, 4])

_d("prefix_named", '''
class Top(cohdl.Entity):
    clk = Port.input(Bit)
    d = Port.input(BitVector[@W@])
    q = Port.output(BitVector[@W@])
    q2 = Port.output(BitVector[@W@])

    def architecture(self):
        with std.prefix("stage@N@"):
            s0 = Signal[BitVector[@W@]](Null, name=std.name("reg"))
            with std.prefix("inner"):
                s1 = Signal[BitVector[@W@]](Null, name=std.name("reg"))
        with std.prefix("stage@N@"):
            s2 = Signal[BitVector[@W@]](Null, name=std.name("reg"))
        arr = std.Array[BitVector[@W@], 2](Null, _qualifier_=std.NamedQualifier[std.Signal, "arr@N@"])

        @std.sequential(std.Clock(self.clk))
        def proc():
            s0.next = self.d
            s1.next = s0
            s2.next = s1
            arr[0] <<= s2
            arr[1] <<= arr[0]
            self.q <<= s2
            self.q2 <<= arr[1]
''', tags=["prefix", "named_qualifier", "uniquify"], W=[2, 4], N=["", "_b"])

_d("prefix_in_context", '''
def staged(x):
    with std.prefix("st"):
        tmp = Signal[BitVector[@W@]](name=std.name("tmp"))
        tmp <<= x
    return tmp


class Top(cohdl.Entity):
    a = Port.input(BitVector[@W@])
    y = Port.output(BitVector[@W@])

    def architecture(self):
        @std.concurrent
        def logic():
            self.y <<= staged(staged(~self.a))
''', tags=["prefix", "uniquify"], W=[1, 3])

_d("sync_flag_delay", '''
class Top(cohdl.Entity):
    clk = Port.input(Bit)
    reset = Port.input(Bit)
    start_sender = Port.input(Bit)
    set_flag = Port.output(Bit, default=False)
    clear_flag = Port.output(Bit, default=False)
    is_set = Port.output(Bit)
    is_clear = Port.output(Bit)
    set_in_sender = Port.output(Bit)
    set_in_receiver = Port.output(Bit)

    def architecture(self):
        ctx = std.SequentialContext(std.Clock(self.clk), std.Reset(self.reset))
        sync = std.SyncFlag(rx_delay=@R@, tx_delay=@T@)

        @std.concurrent
        def logic():
            self.is_set <<= sync.is_set()
            self.is_clear <<= sync.is_clear()

        @ctx
        async def set_sync():
            if self.start_sender:
                sync.set()
                self.set_flag ^= True
            self.set_in_sender <<= sync.is_set()

        @ctx
        async def clear_sync():
            if sync.is_set():
                sync.clear()
                self.clear_flag ^= True
            self.set_in_receiver <<= sync.is_set()
''', tags=["seqctx", "syncflag", "coroutine", "prefix"], R=[2, 0], T=[1, 0, 3])

_d("sync_flag_plain_sequential", '''
class Top(cohdl.Entity):
    clk = Port.input(Bit)
    start = Port.input(Bit)
    done = Port.output(Bit, default=False)
    seen = Port.output(Bit, default=False)

    def architecture(self):
        clk = std.Clock(self.clk)
        sync = std.SyncFlag(name="flag@N@")

        @std.sequential(clk)
        async def sender():
            await self.start
            sync.set()
            await sync.is_clear()
            self.done ^= True

        @std.sequential(clk)
        async def receiver():
            async with sync:
                self.seen ^= True
''', tags=["syncflag", "coroutine", "prefix"], N=["", "_q"])

_d("fifo_delay", '''
class Top(cohdl.Entity):
    clk = Port.input(Bit)
    reset = Port.input(Bit)
    data_in = Port.input(BitVector[@W@])
    push = Port.input(Bit)
    data_out = Port.output(BitVector[@W@])
    pop = Port.input(Bit)
    empty = Port.output(Bit)
    full = Port.output(Bit)

    def architecture(self):
        ctx = std.SequentialContext(std.Clock(self.clk), std.Reset(self.reset))
        fifo = std.Fifo[BitVector[@W@], @C@](delay=@D@)

        @std.concurrent
        def logic():
            self.empty <<= fifo.empty()
            self.full <<= fifo.full()

        @ctx
        def data_receiver():
            if self.push and not fifo.full():
                fifo.push(self.data_in)

        @ctx
        def data_transmitter():
            if self.pop and not fifo.empty():
                self.data_out <<= fifo.pop()
''', tags=["seqctx", "fifo", "syncflag", "prefix", "template"], W=[4], C=[5, 4], D=[1, 0, 2])

_d("seqctx_coroutine", '''
class Top(cohdl.Entity):
    clk = Port.input(Bit)
    reset = Port.input(Bit)
    step = Port.input(Bit)
    out_bit = Port.output(Bit)
    out_vec = Port.output(BitVector[@W@], default=Null)

    def architecture(self):
        ctx = std.SequentialContext(std.Clock(self.clk), std.Reset(self.reset))
        cnt = Signal[Unsigned[@W@]](@K@)

        @ctx
        async def proc():
            cnt.next = cnt + 1
            await self.step
            self.out_bit <<= cnt[1]
            cnt.next = cnt + 1
            await self.step
            self.out_vec <<= cnt

        @ctx
        def other():
            if self.step:
                pass
''', tags=["seqctx", "coroutine"], W=[3, 4], K=[0, 3])

_d("record_template", '''
class WidthArg(int):
    pass


class Pair(std.Record[WidthArg]):
    a: Bit
    b: BitVector[WidthArg]
    c: Unsigned[WidthArg]


class Scaler(std.Template[WidthArg]):
    factor: WidthArg

    def apply(self, x):
        return x + self.factor


class Top(cohdl.Entity):
    clk = Port.input(Bit)
    inp_a = Port.input(Bit)
    inp_b = Port.input(BitVector[@W@])
    inp_c = Port.input(Unsigned[@W@])
    out_a = Port.output(Bit)
    out_b = Port.output(BitVector[@W@])
    out_c = Port.output(Unsigned[@W@])
    ser_c = Port.output(Unsigned[@W@])
    mail = Port.output(BitVector[@W@], default=Null)

    def architecture(self):
        box = std.Mailbox[BitVector[@W@]]()

        @std.concurrent
        def logic():
            rec = Pair[@W@](a=self.inp_a, b=self.inp_b, c=self.inp_c)
            sig = std.Signal[Pair[@W@]](rec)
            bits = std.to_bits(sig)
            back = std.from_bits[Pair[@W@]](bits)
            self.out_a <<= rec.a
            self.out_b <<= sig.b
            self.out_c <<= Scaler[@K@]().apply(sig.c)
            self.ser_c <<= back.c

        @std.sequential(std.Clock(self.clk))
        async def sender():
            await self.inp_a
            box.send(self.inp_b)
            await box.is_clear()

        @std.sequential(std.Clock(self.clk))
        async def receiver():
            self.mail <<= await box.receive()
''', tags=["record", "template", "concurrent", "coroutine", "prefix", "syncflag"], W=[3, 4], K=[1, 2])

_d("enum_state", '''
class State(enum.Enum):
    idle = enum.auto()
    run@N@ = enum.auto()
    done = enum.auto()


class Top(cohdl.Entity):
    clk = Port.input(Bit)
    go = Port.input(Bit)
    code = Port.output(BitVector[2])

    def architecture(self):
        state = Signal[State](State.idle)

        @std.sequential(std.Clock(self.clk))
        def fsm():
            match state:
                case State.idle:
                    if self.go:
                        state.next = State.run@N@
                case State.run@N@:
                    state.next = State.done
                case State.done:
                    state.next = State.idle
                case _:
                    state.next = State.idle

        @std.concurrent
        def decode():
            self.code <<= "00" if state == State.idle else ("01" if state == State.run@N@ else "10")
''', tags=["enum", "sequential", "concurrent"], N=["", "_fast"])

_d("name_collisions", '''
def delay(x):
    tmp = Signal[BitVector[@W@]](Null, name="tmp")
    tmp <<= x
    return tmp


class Top(cohdl.Entity):
    clk = Port.input(Bit)
    a = Port.input(BitVector[@W@])
    tmp = Port.output(BitVector[@W@])
    y = Port.output(BitVector[@W@])

    def architecture(self):
        signal = Signal[BitVector[@W@]](Null, name="signal")
        tmp_1 = Signal[BitVector[@W@]](Null, name="tmp_1")
        dup_a = Signal[BitVector[@W@]](Null, name="dup")
        dup_b = Signal[BitVector[@W@]](Null, name="dup")

        @std.sequential(std.Clock(self.clk))
        def logic():
            signal.next = delay(delay(self.a))
            tmp_1.next = signal
            dup_a.next = tmp_1
            dup_b.next = dup_a
            self.tmp <<= dup_b

        @std.sequential(std.Clock(self.clk))
        def logic():
            self.y <<= delay(self.a)
''', tags=["uniquify", "sequential"], W=[2, 3])

_d("array_local_decl", '''
class Top(cohdl.Entity):
    clk = Port.input(Bit)
    idx = Port.input(Unsigned[2])
    wr = Port.input(Bit)
    d = Port.input(BitVector[@W@])
    q = Port.output(BitVector[@W@])

    def architecture(self):
        mem = Signal[cohdl.Array[BitVector[@W@], 4]](name="mem@N@")

        @std.sequential(std.Clock(self.clk))
        def proc():
            local = Variable[BitVector[@W@]](self.d)
            if self.wr:
                mem[self.idx] <<= local
            else:
                self.q <<= mem[self.idx]
''', tags=["array", "sequential", "variable"], W=[2, 8], N=["", "_z"])

_d("generic_ops_signed", '''
class Top(cohdl.Entity):
    a = Port.input(Signed[@W@])
    b = Port.input(Signed[@W@])
    u = Port.input(Unsigned[@W@])
    s_sum = Port.output(Signed[@W@])
    s_cmp = Port.output(Bit)
    u_shift = Port.output(Unsigned[@W@])
    cat = Port.output(BitVector[@W@ + @W@])

    def architecture(self):
        @std.concurrent
        def logic():
            self.s_sum <<= self.a + self.b - @K@
            self.s_cmp <<= self.a < self.b
            self.u_shift <<= self.u << 1
            self.cat <<= self.a.bitvector @ self.u.bitvector
''', tags=["concurrent", "arith"], W=[3, 6], K=[1, 2])

_d("class_helper_objects", '''
class Accumulator:
    def __init__(self, width, name):
        self.value = Signal[Unsigned[width]](0, name=name)

    def add(self, x):
        self.value <<= self.value + x

    def clear(self):
        self.value <<= 0


class Top(cohdl.Entity):
    clk = Port.input(Bit)
    clr = Port.input(Bit)
    x = Port.input(Unsigned[@W@])
    total = Port.output(Unsigned[@W@])
    total2 = Port.output(Unsigned[@W@])

    def architecture(self):
        acc = Accumulator(@W@, "acc")
        acc2 = Accumulator(@W@, "acc")

        @std.sequential(std.Clock(self.clk))
        def proc():
            if self.clr:
                acc.clear()
                acc2.clear()
            else:
                acc.add(self.x)
                acc2.add(@K@)

        @std.concurrent
        def outp():
            self.total <<= acc.value
            self.total2 <<= acc2.value
''', tags=["class", "sequential", "uniquify"], W=[4, 5], K=[1, 3])

_d("select_and_for", '''
def parity(vec, n):
    if n == 0:
        return vec[0]
    else:
        return vec[n] ^ parity(vec, n - 1)


class Top(cohdl.Entity):
    sel = Port.input(BitVector[2])
    a = Port.input(BitVector[@W@])
    b = Port.input(BitVector[@W@])
    y = Port.output(BitVector[@W@])
    par = Port.output(Bit)

    def architecture(self):
        @std.concurrent
        def logic():
            self.y <<= std.select(self.sel, {"00": self.a, "01": self.b, "10": ~self.a}, default=~self.b)
            self.par <<= parity(self.a, @W@ - 1)
''', tags=["concurrent", "select", "temporaries"], W=[2, 4])

# ---- unnamed objects reachable under several names (the VHDL name is derived from the Python names)
_d("alias_unnamed_closure", '''
class Top(cohdl.Entity):
    a = Port.input(BitVector[@W@])
    y = Port.output(BitVector[@W@])
    z = Port.output(BitVector[@W@])

    def architecture(self):
        zeta@N@ = Signal[BitVector[@W@]]()
        first_alias = zeta@N@
        second_alias = zeta@N@

        @std.concurrent
        def logic():
            zeta@N@.next = self.a
            self.y <<= first_alias
            self.z <<= second_alias
''', tags=["concurrent", "alias_unnamed"], W=[4, 2], N=["", "_q"])

_d("alias_unnamed_mixed", '''
class Holder:
    def __init__(self, s):
        self.held = s


def combine(left_param, right_param, other):
    return left_param ^ right_param ^ other


class Top(cohdl.Entity):
    clk = Port.input(Bit)
    a = Port.input(BitVector[@W@])
    y = Port.output(BitVector[@W@])
    z = Port.output(BitVector[@W@])
    w = Port.output(BitVector[@W@])

    def architecture(self):
        base = Signal[BitVector[@W@]]()
        in_list = [base, base]
        in_dict = {"k": base}
        holder = Holder(base)
        other_name = base
        third_name = base
        var_one = Variable[BitVector[@W@]](Null)
        var_two = var_one

        @std.sequential(std.Clock(self.clk))
        def proc():
            in_list[0].next = self.a
            var_two.value = in_dict["k"] | third_name
            self.y <<= holder.held
            self.z <<= combine(other_name, in_list[1], var_one)
            self.w <<= var_two
''', tags=["sequential", "variable", "alias_unnamed"], W=[4, 3])

# ---- aliases of one unnamed object that only a NESTED def / lambda of the context refers to (several groups
#      with different alias counts and spellings: string-hash order differs between the groups and seeds)
_d("alias_unnamed_nested", '''
class Top(cohdl.Entity):
    clk = Port.input(Bit)
    a = Port.input(BitVector[@W@])
    p = Port.output(BitVector[@W@])
    q = Port.output(BitVector[@W@])
    r = Port.output(BitVector[@W@])

    def architecture(self):
        stages = [Signal[BitVector[@W@]]()]
        head@N@, tail@N@ = stages[0], stages[-1]
        pipe = [Signal[BitVector[@W@]](Null)]
        alpha, omega_end, mid_point = pipe[0], pipe[-1], pipe[0]
        store = Variable[BitVector[@W@]](Null)
        v_first, w2, xx_third, y_4 = store, store, store, store

        @std.sequential(std.Clock(self.clk))
        def proc():
            def shift():
                head@N@.next = self.a
                return tail@N@

            pick = lambda: omega_end | mid_point | alpha

            def keep():
                y_4.value = self.a
                return (xx_third ^ w2) | v_first

            self.p <<= shift()
            self.q <<= pick()
            self.r <<= keep()
''', tags=["sequential", "variable", "alias_unnamed", "nested_function"], W=[4, 2], N=["", "_b"])

# ---- std.prefix / std.name / NamedQualifier used while a context is traced (the prefix counters must start
#      from scratch in every compilation): tiny, recompiled many times by the "recompile" histories
_d("prefix_in_sequential", '''
class Top(cohdl.Entity):
    clk = Port.input(Bit)
    a = Port.input(Bit)
    q = Port.output(Bit)
    q2 = Port.output(Bit)

    def architecture(self):
        clk = std.Clock(self.clk)
        a, q = self.a, self.q

        @std.sequential(clk)
        def proc():
            with std.prefix("stage@N@"):
                tmp = Signal[Bit](name=std.name("tmp"))
            named = std.NamedQualifier[std.Signal, "nq@N@"][Bit]()
            tmp <<= a
            named <<= tmp
            q.next = tmp
            self.q2 <<= named
''', tags=["sequential", "prefix", "named_qualifier", "uniquify"], N=["", "_b"])

# ---- same widths with OPPOSITE bit order in different designs (widths no other pool design uses): the type
#      caches are keyed per interpreter, the first request must not fix the direction of later ones
_d("order_descending", '''
class Top(cohdl.Entity):
    clk = Port.input(Bit)
    a = Port.input(BitVector[@H@:0])
    u = Port.input(Unsigned[@G@:0])
    s = Port.input(Signed[@G@:0])
    y = Port.output(BitVector[@H@:0])
    uo = Port.output(Unsigned[@G@:0])
    so = Port.output(Signed[@G@:0])

    def architecture(self):
        reg = Signal[BitVector[@H@:0]](Null, name="reg")

        @std.sequential(std.Clock(self.clk))
        def proc():
            reg.next = self.a
            self.y <<= reg
            self.uo <<= self.u
            self.so <<= self.s
''', tags=["sequential", "bit_order"], H=[36, 41], G=[38])

_d("order_ascending", '''
class Top(cohdl.Entity):
    clk = Port.input(Bit)
    a = Port.input(BitVector[0:@H@])
    u = Port.input(Unsigned[0:@G@])
    y = Port.output(BitVector[0:@H@])
    uo = Port.output(Unsigned[0:@G@])

    def architecture(self):
        reg = Signal[BitVector[0:@H@]](Null, name="reg")

        @std.sequential(std.Clock(self.clk))
        def proc():
            reg.next = self.a
            self.y <<= reg
            self.uo <<= self.u
''', tags=["sequential", "bit_order"], H=[36, 41], G=[38])

_d("order_mixed", '''
class Top(cohdl.Entity):
    a = Port.input(BitVector[0:@H@])
    b = Port.input(BitVector[@K@:0])
    y = Port.output(BitVector[0:@H@])
    z = Port.output(BitVector[@K@:0])
    first = Port.output(Bit)

    def architecture(self):
        var_sig = Signal[BitVector[0:@K@]](Null, name="asc_sig")

        @std.concurrent
        def logic():
            self.y <<= self.a
            self.z <<= self.b
            var_sig.next = self.b
            self.first <<= var_sig[0] ^ self.a[@H@]
''', tags=["concurrent", "bit_order"], H=[43, 36], K=[44])

# ---- bound methods / callable objects handed directly to cohdl.*_context (helper class with per-instance
#      signals; two instances in one design, the same class used by a second top of the module)
_d("bound_method_contexts", '''
class Stage:
    def __init__(self, inp, outp, name):
        self.inp = inp
        self.outp = outp
        self.reg = Signal[BitVector[@W@]](Null, name=name)

    def comb(self):
        self.outp <<= self.reg

    def __call__(self):
        self.reg <<= self.inp


class Top(cohdl.Entity):
    a = Port.input(BitVector[@W@])
    b = Port.input(BitVector[@W@])
    x = Port.output(BitVector[@W@])
    y = Port.output(BitVector[@W@])

    def architecture(self):
        for inp, outp, name in ((self.a, self.x, "reg_a"), (self.b, self.y, "reg_b")):
            st = Stage(inp, outp, name)
            cohdl.concurrent_context(st.comb, name="comb_" + name)
            cohdl.concurrent_context(st.__call__, name="call_" + name)


class Top2(cohdl.Entity):
    clk = Port.input(Bit)
    c = Port.input(BitVector[@W@])
    z = Port.output(BitVector[@W@])

    def architecture(self):
        st = Stage(self.c, self.z, "reg_c@N@")
        cohdl.concurrent_context(st.comb, name="comb_c")

        @std.sequential(std.Clock(self.clk))
        def proc():
            st()
''', tops={"Top": "valid", "Top2": "valid"}, tags=["concurrent", "bound_method", "shared_classes"], W=[4, 2],
   N=["", "_n"])

# ---- ports added while the architecture runs (board definition pattern), compiled alone and as a sub-entity
_d("dynamic_ports", '''
class Board(cohdl.Entity):
    clk = Port.input(Bit)
    sel = Port.input(Bit)

    def architecture(self):
        led = std.add_entity_port(self, Port.output(BitVector[@W@], name="led@N@"))
        btn = std.add_entity_port(type(self), Port.input(BitVector[@W@]), name="btn")

        @std.sequential(std.Clock(self.clk))
        def proc():
            if self.sel:
                led.next = btn
            else:
                led.next = ~btn


class Top(cohdl.Entity):
    clk = Port.input(Bit)
    sel = Port.input(Bit)
    buttons = Port.input(BitVector[@W@])
    leds = Port.output(BitVector[@W@])
    y = Port.output(Bit)

    def architecture(self):
        Board(clk=self.clk, sel=self.sel, led@N@=self.leds, btn=self.buttons)

        @std.concurrent
        def logic():
            self.y <<= self.sel
''', tops={"Board": "valid", "Top": "valid"}, tags=["dynamic_ports", "subentity", "shared_classes"], W=[4, 3],
   N=["", "_x"])

# ---- modules with several tops that share classes (valid + valid, valid + rejected)
_d("shared_sub_two_tops", '''
class Stage(cohdl.Entity):
    clk = Port.input(Bit)
    d = Port.input(BitVector[@W@])
    q = Port.output(BitVector[@W@], default=Null)

    def architecture(self):
        @std.sequential(std.Clock(self.clk))
        def proc():
            self.q <<= self.d


class Top(cohdl.Entity):
    clk = Port.input(Bit)
    d = Port.input(BitVector[@W@])
    q = Port.output(BitVector[@W@])

    def architecture(self):
        mid = Signal[BitVector[@W@]](name="mid")
        Stage(clk=self.clk, d=self.d, q=mid)
        Stage(clk=self.clk, d=mid, q=self.q)


class Top2(cohdl.Entity):
    clk = Port.input(Bit)
    d = Port.input(BitVector[@W@])
    q = Port.output(BitVector[@W@])
    inv = Port.output(BitVector[@W@])

    def architecture(self):
        Stage(clk=self.clk, d=self.d, q=self.q)

        @std.concurrent
        def logic():
            self.inv <<= ~self.q


class Bad(cohdl.Entity):
    clk = Port.input(Bit)
    d = Port.input(BitVector[@W@])
    q = Port.output(BitVector[@W@])

    def architecture(self):
        Stage(clk=self.clk, d=self.d, q=self.q)

        @std.concurrent
        def logic():
            self.d <<= self.q
''', tops={"Top": "valid", "Top2": "valid", "Bad": "write-input"}, tags=["subentity", "shared_classes"], W=[2, 4])

_d("shared_coro_sub_bad_top", '''
class Waiter(cohdl.Entity):
    clk = Port.input(Bit)
    go = Port.input(Bit)
    done = Port.output(Bit, default=False)

    def architecture(self):
        @std.sequential(std.Clock(self.clk))
        async def proc():
            await self.go
            self.done <<= True
            await expr(not self.go)
            self.done <<= False


class Top(cohdl.Entity):
    clk = Port.input(Bit)
    go = Port.input(Bit)
    done = Port.output(Bit)

    def architecture(self):
        Waiter(clk=self.clk, go=self.go, done=self.done)


class Bad(cohdl.Entity):
    clk = Port.input(Bit)
    go = Port.input(Bit)
    done = Port.output(Bit)
    other = Port.output(Bit)

    def architecture(self):
        Waiter(clk=self.clk, go=self.go, done=self.done)

        @std.sequential(std.Clock(self.clk))
        async def proc():
            await self.go
            self.other <<= undefined_name_@N@
''', tops={"Top": "valid", "Bad": "coroutine-unbound-name"}, tags=["subentity", "coroutine", "shared_classes"],
   N=["a", "b"])

# ============================================================================= invalid
def _i(name, stage, src, **params):
    _d(name, src, tops={"Top": stage}, **params)


_i("bad_arch_exception", "architecture-exception", '''
class Top(cohdl.Entity):
    a = Port.input(Bit)
    y = Port.output(Bit)

    def architecture(self):
        @std.concurrent
        def logic():
            self.y <<= self.a

        raise ValueError("architecture failed @K@")
''', K=[1, 2])

_i("bad_arch_after_subentity", "architecture-exception", '''
class Sub(cohdl.Entity):
    a = Port.input(Bit)
    y = Port.output(Bit)

    def architecture(self):
        @std.concurrent
        def logic():
            self.y <<= self.a


class Top(cohdl.Entity):
    a = Port.input(Bit)
    y = Port.output(Bit)

    def architecture(self):
        Sub(a=self.a, y=self.y)
        with std.prefix("dangling@K@"):
            raise ValueError("architecture failed inside prefix")
''', K=[1, 2])

_i("bad_type_error", "tracer-type-error", '''
class Top(cohdl.Entity):
    a = Port.input(BitVector[@W@])
    b = Port.input(BitVector[@W@ + 1])
    y = Port.output(BitVector[@W@])

    def architecture(self):
        @std.concurrent
        def logic():
            self.y <<= self.a & self.b
''', W=[2, 4])

_i("bad_unbound_name", "tracer-unbound-name", '''
class Top(cohdl.Entity):
    a = Port.input(Bit)
    y = Port.output(Bit)

    def architecture(self):
        @std.sequential
        def logic():
            if self.a:
                self.y <<= no_such_name_@K@
''', K=[1, 2])

_i("bad_nested_call_error", "tracer-nested-call", '''
def level2(x):
    return x.no_such_attribute_@K@


def level1(x):
    tmp = Signal[Bit](name="lvl")
    tmp <<= level2(x)
    return tmp


class Top(cohdl.Entity):
    a = Port.input(Bit)
    y = Port.output(Bit)

    def architecture(self):
        @std.concurrent
        def logic():
            self.y <<= level1(self.a)
''', K=[1, 2])

_i("bad_in_always_block", "always-block", '''
class Top(cohdl.Entity):
    clk = Port.input(Bit)
    a = Port.input(BitVector[@W@])
    y = Port.output(BitVector[@W@])
    f = Port.output(Bit)

    def architecture(self):
        @std.sequential(std.Clock(self.clk))
        async def proc():
            with always:
                self.f <<= self.a & self.clk
            await self.a[0]
            self.y <<= self.a
''', W=[2, 3])

_i("bad_in_always_expr", "always-expr", '''
class Top(cohdl.Entity):
    clk = Port.input(Bit)
    a = Port.input(BitVector[@W@])
    y = Port.output(BitVector[@W@])

    def architecture(self):
        @std.sequential(std.Clock(self.clk))
        def proc():
            s = always(self.a + nothing_here_@W@)
            self.y <<= s
''', W=[2, 3])

_i("bad_in_prefix_arch", "prefix-architecture", '''
class Top(cohdl.Entity):
    a = Port.input(Bit)
    y = Port.output(Bit)

    def architecture(self):
        with std.prefix("outer@K@"):
            s = Signal[Bit](name=std.name("s"))
            with std.prefix("inner"):
                t = Signal[Bit](name=std.name("s"))
                u = Signal[BitVector[3]]("toolong")

        @std.concurrent
        def logic():
            self.y <<= self.a
''', K=[1, 2])

_i("bad_in_prefix_context", "prefix-context", '''
def staged(x):
    with std.prefix("st@K@"):
        tmp = Signal[Bit](name=std.name("tmp"))
        tmp <<= x.missing_attribute
    return tmp


class Top(cohdl.Entity):
    a = Port.input(Bit)
    y = Port.output(Bit)

    def architecture(self):
        @std.concurrent
        def logic():
            self.y <<= staged(self.a)
''', K=[1, 2])

_i("bad_in_seqctx_body", "seqctx-body", '''
class Top(cohdl.Entity):
    clk = Port.input(Bit)
    reset = Port.input(Bit)
    a = Port.input(BitVector[@W@])
    y = Port.output(BitVector[@W@])

    def architecture(self):
        ctx = std.SequentialContext(std.Clock(self.clk), std.Reset(self.reset))

        @ctx
        def proc():
            self.y <<= self.a.unsigned + self.reset.nothing
''', W=[2, 4])

_i("bad_in_seqctx_coroutine", "seqctx-coroutine-body", '''
class Top(cohdl.Entity):
    clk = Port.input(Bit)
    reset = Port.input(Bit)
    a = Port.input(BitVector[@W@])
    y = Port.output(BitVector[@W@])

    def architecture(self):
        ctx = std.SequentialContext(std.Clock(self.clk), std.Reset(self.reset))
        flag = std.SyncFlag(delay=1)

        @ctx
        async def proc():
            await self.a[0]
            flag.set()
            self.y <<= self.a.missing
''', W=[2, 4])

_i("bad_sm_continue_first_segment", "statemachine-ir", '''
class Top(cohdl.Entity):
    clk = Port.input(Bit)
    a = Port.input(Bit)
    b = Port.input(Bit)
    y = Port.output(Unsigned[@W@], default=Null)

    def architecture(self):
        @std.sequential(std.Clock(self.clk))
        async def proc():
            while self.a:
                if self.b:
                    continue
                await self.b
                self.y <<= self.y + 1
''', W=[2, 3])

_i("bad_sm_while_without_await", "statemachine-ir", '''
class Top(cohdl.Entity):
    clk = Port.input(Bit)
    a = Port.input(Bit)
    y = Port.output(Unsigned[@W@], default=Null)

    def architecture(self):
        @std.sequential(std.Clock(self.clk))
        async def proc():
            await self.a
            while True:
                if self.a:
                    self.y <<= self.y + 1
                    break
                else:
                    continue
''', W=[2, 3])

_i("bad_coroutine_unbound", "coroutine-unbound-name", '''
class Top(cohdl.Entity):
    clk = Port.input(Bit)
    a = Port.input(Bit)
    y = Port.output(Bit, default=False)

    def architecture(self):
        @std.sequential(std.Clock(self.clk))
        async def proc():
            await self.a
            self.y <<= True
            await not_defined_@K@
            self.y <<= False
''', K=[1, 2])

_i("bad_coroutine_in_concurrent", "await-in-concurrent", '''
class Top(cohdl.Entity):
    a = Port.input(Bit)
    y = Port.output(Bit)

    def architecture(self):
        @std.concurrent
        async def logic():
            await self.a
            self.y <<= self.a
''')

_i("bad_multiple_drivers", "multiple-drivers", '''
class Top(cohdl.Entity):
    clk = Port.input(Bit)
    a = Port.input(BitVector[@W@])
    y = Port.output(BitVector[@W@])

    def architecture(self):
        @std.sequential(std.Clock(self.clk))
        def first():
            self.y <<= self.a

        @std.concurrent
        def second():
            self.y <<= ~self.a
''', W=[1, 4])

_i("bad_multiple_drivers_coroutine", "multiple-drivers", '''
class Top(cohdl.Entity):
    clk = Port.input(Bit)
    a = Port.input(Bit)
    y = Port.output(Bit, default=False)

    def architecture(self):
        clk = std.Clock(self.clk)

        @std.sequential(clk)
        async def first():
            await self.a
            self.y <<= True

        @std.sequential(clk)
        async def second():
            await expr(not self.a)
            self.y <<= False
''')

_i("bad_invalid_temporary", "invalid-temporary", '''
class Top(cohdl.Entity):
    a = Port.input(Bit)
    b = Port.input(Bit)
    c = Port.output(Bit)

    def architecture(self):
        @std.sequential
        def proc():
            if self.a:
                t = self.a | self.b
            self.c <<= t
''')

_i("bad_invalid_temporary_coroutine", "invalid-temporary", '''
class Top(cohdl.Entity):
    clk = Port.input(Bit)
    a = Port.input(Bit)
    b = Port.input(Bit)
    c = Port.output(Bit, default=False)

    def architecture(self):
        @std.sequential(std.Clock(self.clk))
        async def proc():
            t = self.a | self.b
            await self.a
            self.c <<= t
''')

_i("bad_write_input", "write-input", '''
class Top(cohdl.Entity):
    clk = Port.input(Bit)
    sig_inp = Port.input(BitVector[@W@])

    def architecture(self):
        @std.sequential(std.Clock(self.clk))
        def logic():
            self.sig_inp <<= Null
''', W=[1, 3])

_i("bad_variable_in_concurrent", "variable-in-concurrent", '''
class Top(cohdl.Entity):
    a = Port.input(Bit)
    y = Port.output(Bit)

    def architecture(self):
        v = Variable[Bit](False)

        @std.concurrent
        def logic():
            nonlocal v
            v @= self.a
            self.y <<= v
''')

_i("bad_backend_inline_code", "backend", '''
class verilog(cohdl._InlineCode):
    pass


class Top(cohdl.Entity):
    clk = Port.input(Bit)
    a = Port.input(Bit)
    y = Port.output(Bit)
    z = Port.output(Bit, default=False)

    def architecture(self):
        @std.sequential(std.Clock(self.clk))
        async def proc():
            await self.a
            self.z <<= True

        @std.concurrent
        def logic():
            f"{verilog:assign {self.y} = {self.a!r} /* @K@ */;}"
''', K=[1, 2])

_i("bad_subentity_port_mismatch", "subentity-port", '''
class Sub(cohdl.Entity):
    a = Port.input(BitVector[@W@])
    y = Port.output(BitVector[@W@])

    def architecture(self):
        @std.concurrent
        def logic():
            self.y <<= self.a


class Top(cohdl.Entity):
    a = Port.input(BitVector[@W@ + 1])
    y = Port.output(BitVector[@W@])

    def architecture(self):
        Sub(a=self.a, y=self.y)
''', W=[2, 3])

_i("bad_inline_entity_in_sequential", "inline-entity", '''
class Sub(cohdl.Entity):
    a = Port.input(Bit)
    y = Port.output(Bit)

    def architecture(self):
        @std.concurrent
        def logic():
            self.y <<= self.a


class Top(cohdl.Entity):
    clk = Port.input(Bit)
    a = Port.input(Bit)
    y = Port.output(Bit)

    def architecture(self):
        @std.concurrent
        def ok():
            tmp = Signal[Bit](name="tmp@K@")
            Sub(a=self.a, y=tmp)

        @std.sequential(std.Clock(self.clk))
        def logic():
            Sub(a=self.a, y=self.y)
''', K=[1, 2])

_i("bad_inline_entity_then_error", "inline-entity-pending", '''
class Sub(cohdl.Entity):
    a = Port.input(Bit)
    y = Port.output(Bit)

    def architecture(self):
        @std.concurrent
        def logic():
            self.y <<= self.a


class Top(cohdl.Entity):
    a = Port.input(Bit)
    y = Port.output(Bit)

    def architecture(self):
        @std.concurrent
        def logic():
            tmp = Signal[Bit](name="tmp@K@")
            Sub(a=self.a, y=tmp)
            self.y <<= tmp.missing_attribute
''', K=[1, 2])


# ================================================================================ api
def names(kind=None):
    """kind: None (all modules), 'V' (modules with >=1 valid top), 'I' (modules with >=1 rejected top)."""
    out = []
    for n, d in DESIGNS.items():
        vals = set(d["tops"].values())
        if kind is None or (kind == "V" and "valid" in vals) or (kind == "I" and vals - {"valid"}):
            out.append(n)
    return out


def variants(name):
    """All parameter dicts of a design, deterministic order."""
    p = DESIGNS[name]["params"]
    keys = sorted(p)
    return [dict(zip(keys, combo)) for combo in itertools.product(*(p[k] for k in keys))]


def render(name, params):
    d = DESIGNS[name]
    src = d["src"]
    for k in d["params"]:
        if params[k] not in d["params"][k]:
            raise ValueError(f"design {name}: parameter {k}={params[k]!r} outside its domain")
        src = src.replace(f"@{k}@", str(params[k]))
    left = re.findall(r"@[A-Z]@", src)
    if left:
        raise ValueError(f"design {name}: unresolved parameters {left}")
    return src


def targets(kind):
    """[(design name, top name)] for kind 'V' (valid tops) or 'I' (tops rejected in a fresh interpreter)."""
    out = []
    for n, d in DESIGNS.items():
        for top, st in d["tops"].items():
            if (kind == "V") == (st == "valid"):
                out.append((n, top))
    return out


def stage(name, top):
    return DESIGNS[name]["tops"][top]


def tags(name):
    return DESIGNS[name]["tags"]


_STD_NAMES = ["sync_flag_tx", "sync_flag_rx", "mailbox_data", "temp", "sig", "var", "proc", "logic", "buffer_y"]


def object_names(name, params):
    """Names that objects of the design (ports, named signals, processes, std helpers) get in the VHDL:
    candidates for `additional_reserved_names` that collide with the design's own names."""
    src = render(name, params)
    found = re.findall(r"^\s+(\w+) = Port\.", src, re.M) + re.findall(r'name="(\w+)"', src)
    found += re.findall(r"^\s+(?:async )?def (\w+)\(", src, re.M)
    found += re.findall(r"^\s+(\w+) = (?:Signal|Variable)\[", src, re.M)
    found += re.findall(r'"([a-z_]\w*)"', src)
    out = []
    for n in found + _STD_NAMES:
        if n not in out and n not in ("architecture", "__init__"):
            out.append(n)
    return out
