"""C06 thorough tier: coverage-guided campaign (atheris / libFuzzer) over the same Hypothesis strategies.

Run as a subprocess (libFuzzer ends the process itself):

    python -m cv.gen.c06_fuzz --gen A|B --runs N --max-time T --seed S --out FILE

The fuzz target decodes libFuzzer's bytes with `hypothesis`'s `fuzz_one_input` of the generator's strategy, runs the
ordinary `cv.props.c06.check` on the decoded case (cohdl is imported under atheris' instrumentation, so the compiler's
branch coverage steers the mutation) and appends to FILE (JSON lines)
    {"case": ...}            for the first MAX_PER_SIG cases of every finding signature
    {"meta": {...}}          progress records (executions, decoded cases, status counts); the last one wins.
The parent (cv.props.c06.enumerate) re-checks the recorded cases, so findings are reported through the normal path.
"""
from __future__ import annotations

import argparse
import json
import os
import sys
import time

MAX_PER_SIG = 3


def main(argv=None):
    ap = argparse.ArgumentParser()
    ap.add_argument("--gen", default="A")
    ap.add_argument("--runs", type=int, default=1000)
    ap.add_argument("--max-time", type=int, default=600)
    ap.add_argument("--seed", type=int, default=1)
    ap.add_argument("--out", required=True)
    a = ap.parse_args(argv)

    import atheris

    with atheris.instrument_imports(include=["cohdl"]):
        import cohdl  # noqa: F401
        from cohdl import std  # noqa: F401

    from hypothesis import HealthCheck, given, settings

    import cv.props.c06 as prop

    if a.gen == "A":
        from cv.gen import c06_names

        strat = c06_names.cases()
    else:
        from cv.gen import c06_expr

        strat = c06_expr.cases(0)

    outf = open(a.out, "a")
    stats = {"execs": 0, "decoded": 0, "status": {}, "t0": time.time(), "gen": a.gen, "runs": a.runs, "done": False}
    per_sig = {}
    devnull = open(os.devnull, "w")

    def flush_meta():
        stats["wall_s"] = round(time.time() - stats["t0"], 1)
        outf.write(json.dumps({"meta": stats}) + "\n")
        outf.flush()

    @settings(database=None, deadline=None, suppress_health_check=list(HealthCheck))
    @given(strat)
    def body(case):
        stats["decoded"] += 1
        out = prop.check(case)
        stats["status"][out.status] = stats["status"].get(out.status, 0) + 1
        for f in out.findings:
            k = json.dumps(f["signature"], sort_keys=True)
            n = per_sig.get(k, 0)
            if n < MAX_PER_SIG:
                per_sig[k] = n + 1
                outf.write(json.dumps({"case": case}) + "\n")
                outf.flush()
                break

    fuzz_one = body.hypothesis.fuzz_one_input

    def target(data):
        stats["execs"] += 1
        so, se = sys.stdout, sys.stderr
        sys.stdout = devnull
        try:
            fuzz_one(data)
        finally:
            sys.stdout, sys.stderr = so, se
        if stats["execs"] % 50 == 0:
            flush_meta()
        if stats["execs"] >= a.runs:
            stats["done"] = True
            flush_meta()

    args = [sys.argv[0], f"-runs={a.runs}", f"-max_total_time={a.max_time}", f"-seed={a.seed}", "-max_len=2048",
            "-print_final_stats=0", "-verbosity=0", "-len_control=0"]
    atheris.Setup(args, target)
    flush_meta()
    atheris.Fuzz()


if __name__ == "__main__":
    main()
