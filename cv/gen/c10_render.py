"""C10: JSON program tree -> Python source text (purely syntactic), plus tree walkers.

Expression nodes (lists):
  ["lit", v]  ["var", name]  ["bin", op, a, b]  ["un", op, a]  ["cmp", [operands], [ops]]
  ["boolop", op, [operands]]  ["ife", cond, a, b]  ["attr", e, name]
  ["call", fexpr, [args]]  args: ["p", e] ["k", name, e] ["s", e] ["d", e]
  ["tuple", items] ["list", items]  items: expr | ["star", e]
  ["dict", items]  items: [key, val] | ["dstar", e]
  ["sub", e, idx]  idx: expr | ["slice", a|None, b|None, c|None]
  ["lcomp", elt, target, iter, conds]  ["dcomp", key, val, target, iter, conds]
  ["lambda", params, body]  params: [name, default|None]
Statement nodes:
  ["assign", name, e]  ["massign", [names], e]  ["unpack", target, e]  (target: name | ["*", name] | [targets...])
  ["for", target, iter, body]  ["if", cond, body, orelse]  ["return", e]  ["rec", [e...]]  ["expr", e]
  ["def", name, params, nonlocals, body]   params: [name, kind, default|None], kind in po/n/va/ko/kw
  ["pass"]
Module level:
  ["func", name, params, body]  ["class", name, [bases], members]  ["const", name, e]
  members: ["cattr", name, e] | ["method", name, deco|None, params, body] | ["prop", name, body, setter_body|None]
"""
from __future__ import annotations

EXPR_OPS = {"lit", "var", "bin", "un", "cmp", "boolop", "ife", "attr", "call", "tuple", "list", "dict", "sub",
            "lcomp", "dcomp", "lambda"}


def rx(n) -> str:
    op = n[0]
    if op == "lit":
        v = n[1]
        if isinstance(v, (int, float)) and not isinstance(v, bool) and v < 0:
            return f"({v!r})"
        return repr(v)
    if op == "var":
        return n[1]
    if op == "bin":
        return f"({rx(n[2])} {n[1]} {rx(n[3])})"
    if op == "un":
        return f"(not {rx(n[2])})" if n[1] == "not" else f"({n[1]}{rx(n[2])})"
    if op == "cmp":
        s = rx(n[1][0])
        for o, e in zip(n[2], n[1][1:]):
            s += f" {o} {rx(e)}"
        return f"({s})"
    if op == "boolop":
        return "(" + f" {n[1]} ".join(rx(e) for e in n[2]) + ")"
    if op == "ife":
        return f"({rx(n[2])} if {rx(n[1])} else {rx(n[3])})"
    if op == "attr":
        return f"{rx(n[1])}.{n[2]}"
    if op == "call":
        return f"{rx(n[1])}({', '.join(_rarg(a) for a in n[2])})"
    if op == "tuple":
        items = [_ritem(i) for i in n[1]]
        if len(items) == 1:
            return f"({items[0]},)"
        return "(" + ", ".join(items) + ")"
    if op == "list":
        return "[" + ", ".join(_ritem(i) for i in n[1]) + "]"
    if op == "dict":
        parts = []
        for it in n[1]:
            parts.append(f"**{rx(it[1])}" if it[0] == "dstar" else f"{rx(it[0])}: {rx(it[1])}")
        return "{" + ", ".join(parts) + "}"
    if op == "sub":
        return f"{rx(n[1])}[{_ridx(n[2])}]"
    if op == "lcomp":
        return f"[{rx(n[1])} for {rtarget(n[2])} in {rx(n[3])}{_rconds(n[4])}]"
    if op == "dcomp":
        return f"{{{rx(n[1])}: {rx(n[2])} for {rtarget(n[3])} in {rx(n[4])}{_rconds(n[5])}}}"
    if op == "lambda":
        ps = ", ".join(p[0] if p[1] is None else f"{p[0]}={rx(p[1])}" for p in n[1])
        return f"(lambda {ps}: {rx(n[2])})" if ps else f"(lambda: {rx(n[2])})"
    raise ValueError(f"unknown expression node {n!r}")


def _rconds(conds):
    return "".join(f" if {rx(c)}" for c in conds)


def _rarg(a):
    if a[0] == "p":
        return rx(a[1])
    if a[0] == "k":
        return f"{a[1]}={rx(a[2])}"
    if a[0] == "s":
        return f"*{rx(a[1])}"
    if a[0] == "d":
        return f"**{rx(a[1])}"
    raise ValueError(a)


def _ritem(i):
    return f"*{rx(i[1])}" if i[0] == "star" else rx(i)


def _ridx(i):
    if i[0] == "slice":
        a, b, c = (("" if x is None else rx(x)) for x in i[1:4])
        return f"{a}:{b}" + (f":{c}" if i[3] is not None else "")
    return rx(i)


def rtarget(t, top=True):
    if isinstance(t, str):
        return t
    if t and t[0] == "*":
        return f"*{t[1]}"
    inner = ", ".join(rtarget(x, False) for x in t)
    if len(t) == 1:
        inner += ","
    return inner if top else f"({inner})"


def rparams(params, first=None):
    parts = [first] if first else []
    n_po = sum(1 for p in params if p[1] == "po")
    seen_po, star = 0, False
    for name, kind, dflt in params:
        txt = name if dflt is None else f"{name}={rx(dflt)}"
        if kind == "po":
            parts.append(txt)
            seen_po += 1
            if seen_po == n_po:
                parts.append("/")
        elif kind == "n":
            parts.append(txt)
        elif kind == "va":
            parts.append("*" + name)
            star = True
        elif kind == "ko":
            if not star:
                parts.append("*")
                star = True
            parts.append(txt)
        elif kind == "kw":
            parts.append("**" + name)
    return ", ".join(parts)


def rstmts(stmts, ind=0) -> list[str]:
    pad = "    " * ind
    out = []
    for s in stmts:
        op = s[0]
        if op == "assign":
            out.append(f"{pad}{s[1]} = {rx(s[2])}")
        elif op == "massign":
            out.append(f"{pad}{' = '.join(s[1])} = {rx(s[2])}")
        elif op == "unpack":
            out.append(f"{pad}{rtarget(s[1])} = {rx(s[2])}")
        elif op == "for":
            out.append(f"{pad}for {rtarget(s[1])} in {rx(s[2])}:")
            out += rstmts(s[3], ind + 1) or [pad + "    pass"]
        elif op == "if":
            out.append(f"{pad}if {rx(s[1])}:")
            out += rstmts(s[2], ind + 1) or [pad + "    pass"]
            if s[3]:
                if len(s[3]) == 1 and s[3][0][0] == "if":
                    sub = rstmts(s[3], ind)
                    out.append(pad + "el" + sub[0].lstrip())
                    out += sub[1:]
                else:
                    out.append(f"{pad}else:")
                    out += rstmts(s[3], ind + 1)
        elif op == "return":
            out.append(f"{pad}return {rx(s[1])}")
        elif op == "rec":
            out.append(f"{pad}rec({', '.join(rx(e) for e in s[1])})")
        elif op == "expr":
            out.append(f"{pad}{rx(s[1])}")
        elif op == "pass":
            out.append(f"{pad}pass")
        elif op == "def":
            out.append(f"{pad}def {s[1]}({rparams(s[2])}):")
            if s[3]:
                out.append(f"{pad}    nonlocal {', '.join(s[3])}")
            out += rstmts(s[4], ind + 1)
        else:
            raise ValueError(f"unknown statement {s!r}")
    return out


def rdefs(defs) -> list[str]:
    out = []
    for d in defs:
        op = d[0]
        if op == "func":
            out.append(f"def {d[1]}({rparams(d[2])}):")
            out += rstmts(d[3], 1)
        elif op == "const":
            out.append(f"{d[1]} = {rx(d[2])}")
        elif op == "class":
            out.append(f"class {d[1]}({', '.join(d[2])}):" if d[2] else f"class {d[1]}:")
            body = []
            for m in d[3]:
                if m[0] == "cattr":
                    body.append(f"    {m[1]} = {rx(m[2])}")
                elif m[0] == "method":
                    if m[2]:
                        body.append(f"    @{m[2]}")
                    first = None if m[2] == "staticmethod" else ("cls" if m[2] == "classmethod" else "self")
                    body.append(f"    def {m[1]}({rparams(m[3], first)}):")
                    body += rstmts(m[4], 2)
                elif m[0] == "prop":
                    body += ["    @property", f"    def {m[1]}(self):"] + rstmts(m[2], 2)
                    if m[3] is not None:
                        body += [f"    @{m[1]}.setter", f"    def {m[1]}(self, value):"] + rstmts(m[3], 2)
                else:
                    raise ValueError(m)
            out += body or ["    pass"]
        else:
            raise ValueError(f"unknown definition {d!r}")
        out.append("")
    return out


# ------------------------------------------------------------------ walkers
def walk_expr(n, fn, closed=True):
    """Call fn(node, closed) for every expression node; closed=False inside comprehensions / lambdas
    (sub-expressions there may use bound loop variables / parameters)."""
    if not isinstance(n, list) or not n or n[0] not in EXPR_OPS:
        return
    fn(n, closed)
    op = n[0]
    if op in ("bin",):
        walk_expr(n[2], fn, closed), walk_expr(n[3], fn, closed)
    elif op == "un":
        walk_expr(n[2], fn, closed)
    elif op == "cmp":
        for e in n[1]:
            walk_expr(e, fn, closed)
    elif op == "boolop":
        for e in n[2]:
            walk_expr(e, fn, closed)
    elif op == "ife":
        for e in n[1:4]:
            walk_expr(e, fn, closed)
    elif op == "attr":
        walk_expr(n[1], fn, closed)
    elif op == "call":
        walk_expr(n[1], fn, closed)
        for a in n[2]:
            walk_expr(a[-1], fn, closed)
    elif op in ("tuple", "list"):
        for i in n[1]:
            walk_expr(i[1] if i[0] == "star" else i, fn, closed)
    elif op == "dict":
        for it in n[1]:
            if it[0] == "dstar":
                walk_expr(it[1], fn, closed)
            else:
                walk_expr(it[0], fn, closed), walk_expr(it[1], fn, closed)
    elif op == "sub":
        walk_expr(n[1], fn, closed)
        if n[2][0] == "slice":
            for x in n[2][1:4]:
                if x is not None:
                    walk_expr(x, fn, closed)
        else:
            walk_expr(n[2], fn, closed)
    elif op == "lcomp":
        walk_expr(n[3], fn, closed)
        walk_expr(n[1], fn, False)
        for c in n[4]:
            walk_expr(c, fn, False)
    elif op == "dcomp":
        walk_expr(n[4], fn, closed)
        walk_expr(n[1], fn, False), walk_expr(n[2], fn, False)
        for c in n[5]:
            walk_expr(c, fn, False)
    elif op == "lambda":
        for p in n[1]:
            if p[1] is not None:
                walk_expr(p[1], fn, closed)
        walk_expr(n[2], fn, False)


def walk_stmt(s, fn, closed=True):
    """fn(expr_node, closed) for every expression in statement s (recursively)."""
    op = s[0]
    if op in ("assign", "massign", "unpack"):
        walk_expr(s[2], fn, closed)
    elif op == "for":
        walk_expr(s[2], fn, closed)
        for b in s[3]:
            walk_stmt(b, fn, False)
    elif op == "if":
        walk_expr(s[1], fn, closed)
        for b in s[2] + s[3]:
            walk_stmt(b, fn, closed)
    elif op in ("return", "expr"):
        walk_expr(s[1], fn, closed)
    elif op == "rec":
        for e in s[1]:
            walk_expr(e, fn, closed)
    elif op == "def":
        for p in s[2]:
            if p[2] is not None:
                walk_expr(p[2], fn, closed)
        for b in s[4]:
            walk_stmt(b, fn, False)


def names_used(s) -> set[str]:
    used = set()

    def f(n, closed):
        if n[0] == "var":
            used.add(n[1])

    walk_stmt(s, f)
    if s[0] == "def":
        used.update(s[3])
    return used


def target_names(t) -> list[str]:
    if isinstance(t, str):
        return [t]
    if t and t[0] == "*":
        return [t[1]]
    out = []
    for x in t:
        out += target_names(x)
    return out


def names_defined(s) -> list[str]:
    op = s[0]
    if op == "assign":
        return [s[1]]
    if op == "massign":
        return list(s[1])
    if op == "unpack":
        return target_names(s[1])
    if op == "def":
        return [s[1]]
    if op == "if":
        out = []
        for b in s[2] + s[3]:
            for n in names_defined(b):
                if n not in out:
                    out.append(n)
        return out
    return []
