"""Observation helpers shared by the C19 and C09 checks (levels P and T of DESIGN.md 'Note for C17-C19').

  call(fn, *a)        plain call into cohdl with stdout isolated  -> result | Rej
  trace(fn, idxs)     evaluate fn(i) for every i in idxs inside ONE traced `std.concurrent` context on
                      constants; the folded results are captured by a `cohdl.pyeval` probe.  A rejected
                      design is bisected so that the rejecting points are identified  -> {i: result | Rej}

  Design(src)         level S/R: compile the Entity `Top` of a generated module, analyse the emitted VHDL with
                      cv.vhdl; .status ok|rejected|blocked|blocked_by_static; .run(pokes, outs) simulates

`fn` must be a function cohdl can trace (its source must be retrievable: define it in a module created
with cv.harness.loader.load_module or in a real file).
"""
from __future__ import annotations

import contextlib
import io

_T_SRC = '''
import cohdl
from cohdl import std, Entity, Port, Bit


def make(fn, items, sink):
    @cohdl.pyeval
    def probe(tag, v):
        sink.append((tag, v))

    class E(Entity):
        o = Port.output(Bit)

        def architecture(self):
            @std.concurrent
            def logic():
                for it in items:
                    probe(it, fn(it))
                self.o <<= Bit(0)

    return E
'''
_T_MOD = None


def _tmod():
    global _T_MOD
    if _T_MOD is None:
        from cv.harness import loader

        _T_MOD = loader.load_module(_T_SRC, "cv_traced_probe")
    return _T_MOD


class Rej:
    """marker: cohdl raised for this point"""

    def __init__(self, exc):
        self.exc = type(exc).__name__ if isinstance(exc, BaseException) else str(exc)

    def __repr__(self):
        return f"Rej({self.exc})"


def call(fn, *a):
    try:
        with contextlib.redirect_stdout(io.StringIO()):
            return fn(*a)
    except (KeyboardInterrupt, SystemExit, RecursionError, MemoryError):
        raise
    except Exception as e:  # noqa: BLE001 - any exception from cohdl is a rejection
        return Rej(e)


def trace(fn, idxs):
    from cv.harness import loader

    m = _tmod()
    idxs = list(idxs)

    def run(sub):
        sink = []
        E = m.make(fn, sub, sink)
        try:
            loader.compile_entity(E)
        except loader.Rejected as r:
            return None, r.exc_type
        got = dict(sink)
        if set(got) != set(sub):  # the probe must have fired exactly once per point
            raise RuntimeError(f"traced probe saw {len(got)} of {len(sub)} points")
        return got, None

    got, why = run(idxs)
    if got is not None:
        return got
    res = {}

    def bisect(sub, why):
        if len(sub) == 1:
            res[sub[0]] = Rej(why)
            return
        h = len(sub) // 2
        for part in (sub[:h], sub[h:]):
            g, w = run(part)
            if g is None:
                bisect(part, w)
            else:
                res.update(g)

    bisect(idxs, why)
    return res


def evaluate(lvl, fn_p, n, fn_t_factory, max_bad_probes=4):
    """results for points 0..n-1 at level 'P' or 'T' (list of result | Rej).

    T: points the plain level rejects are (almost always) rejected when traced, too, and every rejected
    point costs log2(n) extra compilations; so the P-accepted points are traced in one design and only
    `max_bad_probes` of the P-rejected ones are probed (the rest is marked Rej('not_probed'))."""
    if lvl == "P":
        return [call(fn_p, i) for i in range(n)]
    if lvl != "T":
        raise ValueError(lvl)
    pres = [call(fn_p, i) for i in range(n)]
    ok = [i for i in range(n) if not isinstance(pres[i], Rej)]
    bad = [i for i in range(n) if isinstance(pres[i], Rej)]
    fn_t = fn_t_factory()
    out = {}
    if ok:
        out.update(trace(fn_t, ok))
    if bad:
        out.update(trace(fn_t, bad[:max_bad_probes]))
        for i in bad[max_bad_probes:]:
            out[i] = Rej("not_probed")
    return [out[i] for i in range(n)]


# ----------------------------------------------------------------------------- simulated level
class Design:
    """compiled + analysed design; .status in ok | rejected | blocked | blocked_by_static"""

    def __init__(self, src, top="Top"):
        from cv.harness import loader
        from cv.vhdl.analyze import analyse

        self.status, self.why, self.result, self.d = "ok", None, {}, None
        mod = None
        try:
            try:
                import contextlib
                import io

                with contextlib.redirect_stdout(io.StringIO()), contextlib.redirect_stderr(io.StringIO()):
                    mod = loader.load_module(src)
            except (KeyboardInterrupt, SystemExit, RecursionError, MemoryError):
                raise
            except Exception as e:  # noqa: BLE001
                self.status, self.why = "rejected", type(e).__name__
                return
            try:
                self.vhdl = loader.compile_entity(getattr(mod, top))
            except loader.Rejected as r:
                self.status, self.why = "rejected", r.exc_type
                return
            self.result = dict(getattr(mod, "RESULT", {}))
        finally:
            if mod is not None:
                loader.unload_module(mod)
        d = analyse(self.vhdl)
        if d.unsupported:
            self.status, self.why = "blocked", "unsupported:" + str(d.unsupported)[:40]
        elif d.errors:
            self.status, self.why = "blocked_by_static", d.errors[0].rule
            self.static = [e.signature() for e in d.errors[:3]]
        self.d = d
        self.top = top.lower()

    def run(self, pokes, outs):
        """for each input dict in `pokes`: {out: value|None} or ('sim_error', kind)."""
        from cv.vhdl.sim import Blocked, Sim
        from cv.vhdl.values import SimError

        res, sim = [], None
        for pk in pokes:
            try:
                if sim is None:
                    sim = Sim(self.d, top=self.top, inputs=dict(pk)) if pk else Sim(self.d, top=self.top)
                    if pk:
                        sim.poke(**pk)
                else:
                    sim.poke(**pk)
                res.append({o: sim.get(o) for o in outs})
            except SimError as e:
                res.append(("sim_error", str(getattr(e, "kind", None) or (e.args[0] if e.args else "?"))))
                sim = None  # a Sim object must be discarded after a run-time error
            except Blocked as e:
                res.append(("blocked", str(e)[:40]))
                sim = None
        return res
