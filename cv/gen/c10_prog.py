"""C10 generator (b): grammar-based programs (Hypothesis, by construction).

program() draws a JSON tree {"kind":"prog","defs":[...],"stmts":[{"s":stmt,"out":[names],"fam":family}]}
(node forms: see cv.gen.c10_render).  Generation is typed (i int, b bool, s str, n None, L list[int],
T tuple[int], D dict[str,int], X any plain data, o:<Class> instance) and threads an environment, so every
program is well scoped and almost always runs under CPython; run() is single-assignment because the
tracer documents re-binding a name as an error.
"""
from __future__ import annotations

from hypothesis import strategies as st

KEYS = ["a", "b", "c", "d"]
BINOPS_I = ["+", "-", "*", "//", "%", "&", "|", "^", "**"]
CMPOPS = ["==", "!=", "<", "<=", ">", ">="]
OVL_BIN = {"+": "add", "-": "sub", "*": "mul", "|": "or", "&": "and", "^": "xor", "@": "matmul", "<<": "lshift",
           ">>": "rshift", "//": "floordiv", "%": "mod"}
OVL_CMP = {"==": "eq", "!=": "ne", "<": "lt", "<=": "le", ">": "gt", ">=": "ge"}


def lit(v):
    return ["lit", v]


def var(n):
    return ["var", n]


def call(f, *pos, **kw):
    return ["call", f if isinstance(f, list) else var(f), [["p", p] for p in pos] + [["k", k, v] for k, v in kw.items()]]


class Env:
    def __init__(self):
        self.n = 0
        self.funcs = []  # module level callables: {"callee": node, "params": sig, "ret": "i"|"X", "tag": str}
        self.classes = {}  # name -> class descriptor
        self.consts = {}  # module level int constants
        self.factories = []
        self.cmp_pairs = []  # (class whose comparisons return NotImplemented, class defining all four orderings)

    def fresh(self, p="v"):
        self.n += 1
        return f"{p}{self.n}"


def W(draw, opts):
    """Weighted choice among (weight, thunk) pairs."""
    idx = []
    for i, (w, _) in enumerate(opts):
        idx += [i] * w
    return opts[draw(st.sampled_from(idx))][1]()


def names_of(sc, ty):
    return [n for n, t in sc.items() if t == ty]


def obj_names(sc):
    return [n for n, t in sc.items() if isinstance(t, str) and t.startswith("o:")]


SMALL = st.integers(-4, 9)


# ============================================================================ expressions
def gen(draw, ty, sc, env, d):
    return {"i": gen_i, "b": gen_b, "s": gen_s, "n": gen_n, "L": gen_L, "T": gen_T, "D": gen_D, "c": gen_c}[ty](
        draw, sc, env, d)


def gen_i(draw, sc, env, d):
    leaves = [(3, lambda: lit(draw(SMALL)))]
    iv = names_of(sc, "i")
    if iv:
        leaves.append((5, lambda: var(draw(st.sampled_from(iv)))))
    if env.consts:
        leaves.append((1, lambda: var(draw(st.sampled_from(sorted(env.consts))))))
    if d <= 0:
        return W(draw, leaves)
    d1 = d - 1

    def binop():
        op = draw(st.sampled_from(BINOPS_I))
        a = gen_i(draw, sc, env, d1)
        if op == "**":
            b = lit(draw(st.integers(0, 3)))
        elif op in ("//", "%"):
            b = lit(draw(st.sampled_from([-3, -2, 1, 2, 3, 5]))) if draw(st.integers(0, 4)) else gen_i(draw, sc, env, d1)
        else:
            b = gen_i(draw, sc, env, d1)
        return ["bin", op, a, b]

    def seq():
        return gen(draw, draw(st.sampled_from(["L", "T"])), sc, env, d1)

    opts = leaves + [
        (6, binop),
        (1, lambda: ["un", draw(st.sampled_from(["-", "+"])), gen_i(draw, sc, env, d1)]),
        (1, lambda: call("abs", gen_i(draw, sc, env, d1))),
        (2, lambda: call(draw(st.sampled_from(["min", "max"])),
                         *[gen_i(draw, sc, env, d1) for _ in range(draw(st.integers(2, 3)))])),
        (1, lambda: call(draw(st.sampled_from(["min", "max"])), nonempty_seq(draw, sc, env, d1))),
        (2, lambda: call("len", gen(draw, draw(st.sampled_from(["L", "T", "D", "s"])), sc, env, d1))),
        (3, lambda: ["sub", nonempty_seq(draw, sc, env, d1), lit(draw(st.sampled_from([0, 0, 1, -1, 2])))]),
        (2, lambda: dict_get(draw, sc, env, d1)),
        (3, lambda: ["ife", gen_c(draw, sc, env, d1), gen_i(draw, sc, env, d1), gen_i(draw, sc, env, d1)]),
        (1, lambda: ["bin", draw(st.sampled_from(["+", "*", "&", "|"])), gen_b(draw, sc, env, d1), gen_i(draw, sc, env, d1)]),
    ]
    fi = [f for f in env.funcs + sc_funcs(sc) if f["ret"] == "i"]
    if fi:
        opts.append((5, lambda: gen_call(draw, draw(st.sampled_from(fi)), sc, env, d1)))
    if obj_names(sc):
        opts.append((5, lambda: obj_int(draw, sc, env, d1)))
    return W(draw, opts)


def sc_funcs(sc):
    return [t for t in sc.get("__funcs__", [])]


def nonempty_seq(draw, sc, env, d):
    """A list/tuple expression that is non-empty by construction."""
    kind = draw(st.sampled_from(["list", "tuple"]))
    n = draw(st.integers(1, 3))
    items = [gen_i(draw, sc, env, d) for _ in range(n)]
    cand = names_of(sc, "L") + names_of(sc, "T")
    if cand and draw(st.booleans()):
        items.append(["star", var(draw(st.sampled_from(cand)))])
    if kind == "tuple" and any(i[0] == "star" for i in items):
        kind = "list" if draw(st.integers(0, 3)) else "tuple"  # starred tuple displays: always rejected, keep rare
    return [kind, items]


def dict_get(draw, sc, env, d):
    dn = names_of(sc, "D")
    k = draw(st.sampled_from(KEYS))
    if dn and draw(st.booleans()):
        base = var(draw(st.sampled_from(dn)))
        return ["call", ["attr", base, "get"], [["p", lit(k)], ["p", gen_i(draw, sc, env, d)]]]
    n = draw(st.integers(1, 3))
    keys = draw(st.lists(st.sampled_from(KEYS), min_size=n, max_size=n, unique=True))
    dct = ["dict", [[lit(x), gen_i(draw, sc, env, d)] for x in keys]]
    form = draw(st.integers(0, 2))
    if form == 0:
        return ["sub", dct, lit(keys[0])]
    if form == 1:
        return ["call", ["attr", dct, "get"], [["p", lit(k)], ["p", lit(draw(SMALL))]]]
    return ["call", ["attr", dct, "get"], [["p", lit(keys[-1])]]]


def gen_b(draw, sc, env, d):
    leaves = [(2, lambda: lit(draw(st.booleans())))]
    bv = names_of(sc, "b")
    if bv:
        leaves.append((4, lambda: var(draw(st.sampled_from(bv)))))
    if d <= 0:
        return W(draw, leaves)
    d1 = d - 1

    def cmp():
        n = draw(st.sampled_from([2, 2, 2, 3, 3, 4]))
        return ["cmp", [gen_i(draw, sc, env, d1) for _ in range(n)],
                [draw(st.sampled_from(CMPOPS)) for _ in range(n - 1)]]

    def isn():
        cand = names_of(sc, "n") + names_of(sc, "i")
        e = var(draw(st.sampled_from(cand))) if cand and draw(st.booleans()) else draw(
            st.sampled_from([lit(None), lit(0)]))
        return ["cmp", [e, lit(None)], [draw(st.sampled_from(["is", "is not"]))]]

    def isinst():
        e = gen(draw, draw(st.sampled_from(["i", "b", "s", "n", "L", "T", "D"])), sc, env, 0 if d1 > 0 else 0)
        tys = ["int", "bool", "str", "list", "tuple", "dict", "type(None)"] + sorted(env.classes)
        form = draw(st.integers(0, 3))
        if form == 0:
            return call("isinstance", e, var(draw(st.sampled_from(tys))))
        if form == 1:
            return call("isinstance", e, ["tuple", [var(t) for t in draw(st.lists(st.sampled_from(tys), min_size=1, max_size=3))]])
        if form == 2:
            return ["cmp", [call("type", e), var(draw(st.sampled_from(tys)))], [draw(st.sampled_from(["is", "is not"]))]]
        return call("isinstance", e, ["bin", "|", var(draw(st.sampled_from(tys[:6]))), var(draw(st.sampled_from(tys[:6])))])

    opts = leaves + [
        (7, cmp),
        (2, isn),
        (3, lambda: ["un", "not", gen_c(draw, sc, env, d1)]),
        (3, lambda: call("bool", gen_c(draw, sc, env, d1))),
        (3, isinst),
        (1, lambda: ["cmp", [gen_s(draw, sc, env, d1), gen_s(draw, sc, env, d1)], [draw(st.sampled_from(["==", "==", "!="]))]]),
        (1, lambda: ["bin", draw(st.sampled_from(["&", "|", "^"])), gen_b(draw, sc, env, d1), gen_b(draw, sc, env, d1)]),
        (2, lambda: call(draw(st.sampled_from(["any", "all"])),
                         ["list", [gen(draw, draw(st.sampled_from(["i", "b"])), sc, env, d1) for _ in range(draw(st.integers(0, 3)))]])),
        (2, lambda: ["ife", gen_c(draw, sc, env, d1), gen_b(draw, sc, env, d1), gen_b(draw, sc, env, d1)]),
    ]
    on = obj_names(sc)
    if on:
        opts.append((3, lambda: obj_bool(draw, sc, env, d1)))
    return W(draw, opts)


def gen_c(draw, sc, env, d):
    """Expression used in a boolean context (only its truth value is observable)."""
    opts = [(4, lambda: gen_b(draw, sc, env, d)), (2, lambda: gen_i(draw, sc, env, d))]
    if names_of(sc, "n"):
        opts.append((1, lambda: var(draw(st.sampled_from(names_of(sc, "n"))))))
    if d > 0:
        opts.append((4, lambda: ["boolop", draw(st.sampled_from(["and", "or"])),
                                 [gen_c(draw, sc, env, d - 1) for _ in range(draw(st.integers(2, 3)))]]))
        on = [n for n in obj_names(sc) if env.classes[sc[n][2:]]["bool"]]
        if on:
            opts.append((2, lambda: var(draw(st.sampled_from(on)))))
    return W(draw, opts)


def gen_s(draw, sc, env, d):
    leaves = [(3, lambda: lit(draw(st.sampled_from(["", "a", "ab", "xyz", "a b"]))))]
    sv = names_of(sc, "s")
    if sv:
        leaves.append((3, lambda: var(draw(st.sampled_from(sv)))))
    if d <= 0:
        return W(draw, leaves)
    d1 = d - 1
    return W(draw, leaves + [
        (2, lambda: ["sub", lit(draw(st.sampled_from(["abc", "xyzw"]))), lit(draw(st.integers(-2, 2)))]),
        (1, lambda: ["sub", gen_s(draw, sc, env, d1), slice_idx(draw)]),
        (2, lambda: ["call", ["attr", lit(draw(st.sampled_from(["{}", "x{}y{}", "{0}-{0}"]))), "format"],
                     [["p", gen_i(draw, sc, env, d1)], ["p", gen_i(draw, sc, env, d1)]]]),
        (1, lambda: ["ife", gen_c(draw, sc, env, d1), gen_s(draw, sc, env, d1), gen_s(draw, sc, env, d1)]),
        (1, lambda: ["bin", "+", gen_s(draw, sc, env, d1), gen_s(draw, sc, env, d1)]),
    ])


def gen_n(draw, sc, env, d):
    nv = names_of(sc, "n")
    if nv and draw(st.booleans()):
        return var(draw(st.sampled_from(nv)))
    return lit(None)


def slice_idx(draw):
    def part(vals):
        return lit(draw(st.sampled_from(vals))) if draw(st.booleans()) else None

    return ["slice", part([0, 1, 2, -1, -2]), part([1, 2, 3, -1, 5]),
            part([1, 2, -1, -2]) if draw(st.integers(0, 2)) == 0 else None]


def seq_items(draw, sc, env, d, lo=0, hi=4):
    items = [gen_i(draw, sc, env, d) for _ in range(draw(st.integers(lo, hi)))]
    cand = names_of(sc, "L") + names_of(sc, "T")
    if cand and draw(st.integers(0, 2)) == 0:
        items.insert(draw(st.integers(0, len(items))), ["star", var(draw(st.sampled_from(cand)))])
    return items


def gen_iter(draw, sc, env, d):
    """An iterable with a statically known element shape -> (expr, target, {loop var: type})."""
    env_n = lambda: env.fresh("t")  # noqa: E731

    def rng():
        form = draw(st.integers(0, 2))
        args = [lit(draw(st.integers(0, 4)))] if form == 0 else (
            [lit(draw(st.integers(-1, 2))), lit(draw(st.integers(0, 5)))] if form == 1 else
            [lit(draw(st.integers(0, 6))), lit(draw(st.integers(-2, 6))), lit(draw(st.sampled_from([1, 2, -1, -2, 3])))])
        n = env_n()
        return call("range", *args), n, {n: "i"}

    def seq():
        n = env_n()
        return gen(draw, draw(st.sampled_from(["L", "T"])), sc, env, d), n, {n: "i"}

    def zipped():
        k = draw(st.integers(2, 3))
        ns = [env_n() for _ in range(k)]
        e = call("zip", *[gen(draw, draw(st.sampled_from(["L", "T"])), sc, env, d) for _ in range(k)])
        if draw(st.integers(0, 3)) == 0:
            n = env_n()
            return e, n, {n: "T"}
        return e, ns, {x: "i" for x in ns}

    def enum():
        a, b = env_n(), env_n()
        inner = gen(draw, draw(st.sampled_from(["L", "T"])), sc, env, d)
        form = draw(st.integers(0, 2))
        e = call("enumerate", inner) if form == 0 else (
            call("enumerate", inner, lit(draw(st.integers(-1, 3)))) if form == 1 else
            call("enumerate", inner, start=lit(draw(st.integers(0, 3)))))
        return e, [a, b], {a: "i", b: "i"}

    def enumzip():
        a, b, c = env_n(), env_n(), env_n()
        e = call("enumerate", call("zip", gen_L(draw, sc, env, d), gen_T(draw, sc, env, d)))
        return e, [a, [b, c]], {a: "i", b: "i", c: "i"}

    def items():
        k, v = env_n(), env_n()
        dd = gen_D(draw, sc, env, d)
        form = draw(st.integers(0, 3))
        if form == 0:
            return ["call", ["attr", dd, "items"], []], [k, v], {k: "s", v: "i"}
        if form == 1:
            return ["call", ["attr", dd, "values"], []], v, {v: "i"}
        if form == 2:
            return ["call", ["attr", dd, "keys"], []], k, {k: "s"}
        return dd, k, {k: "s"}

    def chars():
        n = env_n()
        return gen_s(draw, sc, env, 0), n, {n: "s"}

    def pairs():
        a, b = env_n(), env_n()
        k = draw(st.integers(0, 3))
        e = [draw(st.sampled_from(["list", "tuple"])),
             [[draw(st.sampled_from(["tuple", "list"])), [gen_i(draw, sc, env, 0), gen_i(draw, sc, env, 0)]] for _ in range(k)]]
        return e, [a, b], {a: "i", b: "i"}

    return W(draw, [(4, rng), (4, seq), (3, zipped), (3, enum), (1, enumzip), (3, items), (1, chars), (2, pairs)])


def gen_conds(draw, sc, env, d, lv=None):
    """Conditions of a comprehension; mostly predicates on the loop variables so that they really filter."""
    ints = [n for n, t in (lv or {}).items() if t == "i"]
    conds = []
    for _ in range(draw(st.sampled_from([0, 0, 1, 1, 2, 2, 3]))):
        if ints and draw(st.integers(0, 3)):
            v = var(draw(st.sampled_from(ints)))
            form = draw(st.integers(0, 2))
            if form == 0:
                conds.append(["cmp", [v, lit(draw(st.integers(-1, 4)))], [draw(st.sampled_from(CMPOPS))]])
            elif form == 1:
                conds.append(["cmp", [["bin", "%", v, lit(draw(st.sampled_from([2, 3])))], lit(draw(st.integers(0, 1)))],
                              [draw(st.sampled_from(["==", "!="]))]])
            else:
                conds.append(["cmp", [lit(draw(st.integers(-1, 2))), v, lit(draw(st.integers(1, 5)))],
                              [draw(st.sampled_from(["<", "<="])), draw(st.sampled_from(["<", "<=", "!="]))]])
        else:
            conds.append(gen_c(draw, sc, env, d))
    return conds


def gen_lcomp(draw, sc, env, d, elt_ty="i"):
    it, tgt, lv = gen_iter(draw, sc, env, max(d - 1, 0))
    sc2 = {**sc, **lv}
    if elt_ty == "i" and "i" not in lv.values():
        elt = call("len", var(next(iter(lv)))) if draw(st.booleans()) else gen_i(draw, sc2, env, max(d - 1, 0))
    else:
        elt = gen(draw, elt_ty, sc2, env, max(d - 1, 0)) if elt_ty != "X" else ["tuple", [var(x) for x in lv]]
    return ["lcomp", elt, tgt, it, gen_conds(draw, sc2, env, max(d - 1, 0), lv)]


def gen_L(draw, sc, env, d):
    leaves = [(2, lambda: ["list", [lit(draw(SMALL)) for _ in range(draw(st.integers(0, 4)))]])]
    lv = names_of(sc, "L")
    if lv:
        leaves.append((4, lambda: var(draw(st.sampled_from(lv)))))
    if d <= 0:
        return W(draw, leaves)
    d1 = d - 1
    return W(draw, leaves + [
        (4, lambda: ["list", seq_items(draw, sc, env, d1)]),
        (5, lambda: gen_lcomp(draw, sc, env, d)),
        (2, lambda: ["bin", "+", gen_L(draw, sc, env, d1), gen_L(draw, sc, env, d1)]),
        (1, lambda: ["bin", "*", gen_L(draw, sc, env, d1), lit(draw(st.integers(0, 3)))]),
        (1, lambda: ["bin", "*", lit(draw(st.integers(0, 3))), gen_L(draw, sc, env, d1)]),
        (3, lambda: ["sub", gen_L(draw, sc, env, d1), slice_idx(draw)]),
        (2, lambda: call("list", W(draw, [(1, lambda: gen_T(draw, sc, env, d1)),
                                          (1, lambda: call("range", lit(draw(st.integers(0, 4))))),
                                          (1, lambda: ["call", ["attr", gen_D(draw, sc, env, d1), "values"], []])]))),
        (1, lambda: ["ife", gen_c(draw, sc, env, d1), gen_L(draw, sc, env, d1), gen_L(draw, sc, env, d1)]),
    ])


def gen_T(draw, sc, env, d):
    leaves = [(2, lambda: ["tuple", [lit(draw(SMALL)) for _ in range(draw(st.integers(0, 4)))]])]
    tv = names_of(sc, "T")
    if tv:
        leaves.append((4, lambda: var(draw(st.sampled_from(tv)))))
    if d <= 0:
        return W(draw, leaves)
    d1 = d - 1
    return W(draw, leaves + [
        (4, lambda: ["tuple", [gen_i(draw, sc, env, d1) for _ in range(draw(st.integers(0, 4)))]]),
        (3, lambda: ["sub", gen_T(draw, sc, env, d1), slice_idx(draw)]),
        (2, lambda: call("tuple", gen_L(draw, sc, env, d1))),
        (1, lambda: ["ife", gen_c(draw, sc, env, d1), gen_T(draw, sc, env, d1), gen_T(draw, sc, env, d1)]),
        (1, lambda: ["bin", "+", gen_T(draw, sc, env, d1), gen_T(draw, sc, env, d1)]),
    ])


def gen_D(draw, sc, env, d):
    def literal(dd):
        keys = draw(st.lists(st.sampled_from(KEYS), max_size=3, unique=True))
        items = [[lit(k), gen_i(draw, sc, env, dd)] for k in keys]
        dv = names_of(sc, "D")
        if draw(st.integers(0, 3)) == 0:
            inner = var(draw(st.sampled_from(dv))) if dv and draw(st.booleans()) else [
                "dict", [[lit(k), lit(draw(SMALL))] for k in draw(st.lists(st.sampled_from(KEYS), max_size=2, unique=True))]]
            items.insert(draw(st.integers(0, len(items))), ["dstar", inner])
        return ["dict", items]

    leaves = [(2, lambda: literal(0))]
    dv = names_of(sc, "D")
    if dv:
        leaves.append((4, lambda: var(draw(st.sampled_from(dv)))))
    if d <= 0:
        return W(draw, leaves)
    d1 = d - 1

    def dcomp():
        form = draw(st.integers(0, 2))
        if form == 0:
            k = env.fresh("t")
            it, tgt, lv = lit(draw(st.sampled_from(["ab", "abc", "aab", ""]))), k, {k: "s"}
        elif form == 1:
            k, v = env.fresh("t"), env.fresh("t")
            it, tgt, lv = ["call", ["attr", gen_D(draw, sc, env, d1), "items"], []], [k, v], {k: "s", v: "i"}
        else:
            k, v = env.fresh("t"), env.fresh("t")
            it, tgt, lv = call("zip", lit(draw(st.sampled_from(["abc", "ab"]))), gen(draw, draw(st.sampled_from(["L", "T"])), sc, env, d1)), [k, v], {k: "s", v: "i"}
        sc2 = {**sc, **lv}
        return ["dcomp", var(k), gen_i(draw, sc2, env, d1), tgt, it, gen_conds(draw, sc2, env, d1, lv)]

    return W(draw, leaves + [
        (4, lambda: literal(d1)),
        (4, dcomp),
        (1, lambda: ["call", var("dict"), [["k", k, gen_i(draw, sc, env, d1)] for k in draw(st.lists(st.sampled_from(KEYS), max_size=3, unique=True))]]),
        (1, lambda: ["call", var("dict"), [["p", gen_D(draw, sc, env, d1)]] + [["k", k, gen_i(draw, sc, env, d1)] for k in draw(st.lists(st.sampled_from(KEYS), max_size=2, unique=True))]]),
    ])


# ============================================================================ calls
def gen_call(draw, fd, sc, env, d, valfn=None):
    """A call of fd that binds correctly, in a random shape (positional / keyword / *seq / **dict)."""
    valfn = valfn or (lambda: gen_i(draw, sc, env, d))
    params = fd["params"]
    positional = [p for p in params if p[1] in ("po", "n")]
    min_k = max([i + 1 for i, p in enumerate(positional) if p[1] == "po" and p[2] is None], default=0)
    k = draw(st.integers(min_k, len(positional)))
    kws = [p[0] for p in positional[k:] if p[1] == "n" and (p[2] is None or draw(st.booleans()))]
    kws += [p[0] for p in params if p[1] == "ko" and (p[2] is None or draw(st.booleans()))]
    # required positional-or-keyword parameters after a skipped defaulted one must come by keyword: done above
    npos = k + (draw(st.integers(0, 2)) if any(p[1] == "va" for p in params) and k == len(positional) else 0)
    vals = [valfn() for _ in range(npos)]
    args = []
    i = 0
    while i < len(vals):
        if draw(st.integers(0, 4)) == 0:
            n = draw(st.integers(0, min(3, len(vals) - i)))
            args.append(["s", [draw(st.sampled_from(["list", "tuple", "list"])), vals[i:i + n]]])
            i += n
        else:
            args.append(["p", vals[i]])
            i += 1
    if any(p[1] == "kw" for p in params) and draw(st.booleans()):
        kws.append(draw(st.sampled_from(["zz", "yy"])))
    kws = list(draw(st.permutations(kws)))
    i = 0
    while i < len(kws):
        if draw(st.integers(0, 4)) == 0:
            n = draw(st.integers(0, min(3, len(kws) - i)))
            args.append(["d", ["dict", [[lit(x), valfn()] for x in kws[i:i + n]]]])
            i += n
        else:
            args.append(["k", kws[i], valfn()])
            i += 1
    return ["call", fd["callee"], args]


def gen_sig(draw, sc, env, d, maxp=4, local=False):
    """Parameters [name, kind, default]; defaults are int expressions evaluated at definition time."""
    n_po = draw(st.sampled_from([0, 0, 0, 1]))
    n_n = draw(st.integers(0 if n_po else 1, 2))
    va = draw(st.integers(0, 3)) == 0
    n_ko = draw(st.sampled_from([0, 0, 1, 2]))
    kw = draw(st.integers(0, 4)) == 0
    npos = n_po + n_n
    ndef = draw(st.integers(0, npos))
    names = iter(["p", "q", "u", "w", "x", "y"])
    ps = []
    for i in range(npos):
        dflt = gen_i(draw, sc, env, d) if i >= npos - ndef else None
        ps.append([next(names), "po" if i < n_po else "n", dflt])
    if va:
        ps.append(["r", "va", None])
    for i in range(n_ko):
        ps.append([next(names), "ko", gen_i(draw, sc, env, d) if draw(st.booleans()) else None])
    if kw:
        ps.append(["kw", "kw", None])
    return ps


def sig_scope(ps):
    sc = {}
    for name, kind, _ in ps:
        sc[name] = {"po": "i", "n": "i", "ko": "i", "va": "T", "kw": "D"}[kind]
    return sc


# ============================================================================ module level definitions
def gen_func(draw, env, name=None):
    """def fN(sig): [constant ifs with early returns]; [local assignments]; return int expression."""
    name = name or env.fresh("f")
    if draw(st.integers(0, 5)) == 0:
        # bounded recursion; both branches return (code after a return is still traced by cohdl)
        ps = [["n", "n", None], ["acc", "n", lit(draw(SMALL))]]
        step = ["bin", draw(st.sampled_from(["+", "*", "-"])), var("acc"), var("n")]
        rec_call = ["call", var(name), [["p", ["bin", "-", var("n"), lit(1)]], draw(st.sampled_from([["p", step], ["k", "acc", step]]))]]
        body = [["if", ["boolop", "or", [["cmp", [var("n"), lit(0)], ["<="]], ["cmp", [var("n"), lit(6)], [">"]]]],
                 [["return", var("acc")]], [["return", rec_call]]]]
        env.funcs.append({"callee": var(name), "params": [["n", "n", None]], "ret": "i", "tag": "recursive", "small": True})
        return ["func", name, ps, body]
    ps = gen_sig(draw, {}, env, 0)
    sc = sig_scope(ps)
    body = fn_body(draw, sc, env, 2, allow_recursion=None)
    env.funcs.append({"callee": var(name), "params": ps, "ret": "i", "tag": "modfunc"})
    return ["func", name, ps, body]


def fn_body(draw, sc, env, d, allow_recursion=None):
    body = []
    sc = dict(sc)
    for _ in range(draw(st.integers(0, 2))):
        form = draw(st.integers(0, 3))
        if form == 0:  # early return under a constant condition
            body.append(["if", gen_c(draw, sc, env, 1), [["return", gen_i(draw, sc, env, 1)]], []])
        elif form == 1:  # if / elif / else all returning
            body.append(["if", gen_c(draw, sc, env, 1), [["return", gen_i(draw, sc, env, 1)]],
                         [["if", gen_c(draw, sc, env, 1), [["return", gen_i(draw, sc, env, 1)]],
                           [["return", gen_i(draw, sc, env, 1)]]]]])
            return body
        elif form == 2:  # local assignment
            n = env.fresh("l")
            ty = draw(st.sampled_from(["i", "i", "b", "L", "T"]))
            body.append(["assign", n, gen(draw, ty, sc, env, 1)])
            sc[n] = ty
        else:  # branch-local definitions, merged name
            n = env.fresh("l")
            body.append(["if", gen_c(draw, sc, env, 1), [["assign", n, gen_i(draw, sc, env, 1)]],
                         [["assign", n, gen_i(draw, sc, env, 1)]]])
            sc[n] = "i"
    body.append(["return", gen_i(draw, sc, env, d)])
    return body


def gen_factory(draw, env):
    """Closure factory: def mkN(n[, m=..]): def inner(x[, y=default using n]): [nonlocal n]; return expr; return inner"""
    name = env.fresh("mk")
    outer = [["n", "n", None]] + ([["m", "n", lit(draw(SMALL))]] if draw(st.booleans()) else [])
    osc = sig_scope(outer)
    inner_ps = [["x", "n", None]]
    if draw(st.integers(0, 2)) == 0:
        inner_ps.append(["y", "n", gen_i(draw, osc, env, 1)])
    isc = {**osc, **sig_scope(inner_ps)}
    nl = ["n"] if draw(st.booleans()) else []
    form = draw(st.integers(0, 2))
    if form == 0:
        body = [["def", "inner", inner_ps, nl, [["return", gen_i(draw, isc, env, 2)]]], ["return", var("inner")]]
    elif form == 1:
        body = [["return", ["lambda", [[p[0], p[2]] for p in inner_ps], gen_i(draw, isc, env, 2)]]]
    else:  # two levels
        body = [["def", "mid", [["z", "n", None]], [],
                 [["def", "inner", inner_ps, nl, [["return", gen_i(draw, {**isc, "z": "i"}, env, 2)]]],
                  ["return", var("inner")]]],
                ["return", call("mid", gen_i(draw, osc, env, 1))]]
    fd = {"name": name, "outer": outer, "inner": inner_ps}
    env.factories.append(fd)
    return ["func", name, outer, body]


def _plain_desc(name, cmps):
    return {"name": name, "base": None, "fields": ["v"], "methods": {}, "props": [], "cattrs": [],
            "init": [["v", "n", None]], "call": None, "bool": False, "len": False, "getitem": False, "unary": [],
            "mro": [name], "ops": set(), "cmps": set(cmps), "own_rbin": [], "own_cmp": list(cmps)}


def gen_cmp_classes(draw, env):
    """A pair of value classes for the reflected path of rich comparisons: N's comparisons return NotImplemented,
    F defines all four orderings (and optionally ==, !=) on its field, also against plain numbers."""
    out = []
    init = ["method", "__init__", None, [["v", "n", None]], [["assign", "self.v", var("v")]]]
    nn, fn = env.fresh("N"), env.fresh("F")
    ni_syms = draw(st.lists(st.sampled_from(sorted(OVL_CMP)), min_size=2, max_size=6, unique=True)) \
        if draw(st.booleans()) else sorted(OVL_CMP)
    out.append(["class", nn, [], [init] + [["method", f"__{OVL_CMP[sym]}__", None, [["other", "n", None]],
                                           [["return", var("NotImplemented")]]] for sym in ni_syms]])
    env.classes[nn] = _plain_desc(nn, ni_syms)
    f_syms = ["<", "<=", ">", ">="] + draw(st.sampled_from([[], ["=="], ["==", "!="]]))
    members = [init]
    for sym in f_syms:
        members.append(["method", f"__{OVL_CMP[sym]}__", None, [["other", "n", None]],
                        [["if", call("isinstance", var("other"), ["tuple", [var("int"), var("float")]]),
                          [["return", ["cmp", [var("self.v"), var("other")], [sym]]]],
                          [["return", ["cmp", [var("self.v"), ["attr", var("other"), "v"]], [sym]]]]]]])
    out.append(["class", fn, [], members])
    env.classes[fn] = _plain_desc(fn, f_syms)
    env.cmp_pairs.append((nn, fn))
    return out


def gen_cmp_dispatch(draw, sc, env):
    """lhs <op> rhs [<op> third] where the left method is missing / NotImplemented, so the reflected method of the
    right operand decides; operand values are equal half of the time (< vs <=, > vs >= then differ)."""
    nn, fn = draw(st.sampled_from(env.cmp_pairs))
    k = draw(st.integers(0, 3))

    def near():
        return k if draw(st.booleans()) else k + draw(st.sampled_from([-1, 1]))

    def left():
        return W(draw, [(5, lambda: call(nn, lit(k))), (3, lambda: lit(k)), (1, lambda: lit(float(k))),
                        (1, lambda: call(fn, lit(k))), (1, lambda: lit(bool(k & 1)))])

    def right():
        return W(draw, [(14, lambda: call(fn, lit(near()))), (1, lambda: call(nn, lit(near())))])

    ops = sorted(OVL_CMP)
    operands = [left(), right()]
    syms = [draw(st.sampled_from(ops))]
    if draw(st.integers(0, 2)) == 0:
        operands.append(W(draw, [(3, lambda: call(fn, lit(near()))), (2, lambda: lit(near())), (1, lambda: call(nn, lit(near())))]))
        syms.append(draw(st.sampled_from(ops)))
        if operands[0][0] == "lit" and draw(st.booleans()):
            operands.insert(0, lit(near()))
            syms.insert(0, draw(st.sampled_from(ops)))
    return ["cmp", operands, syms]


def gen_class(draw, env):
    """One class (optionally derived from an earlier one) from a parametrised template."""
    name = env.fresh("C")
    bases = sorted(env.classes)
    base = draw(st.sampled_from(bases)) if bases and draw(st.integers(0, 3)) else None
    bd = env.classes.get(base)
    members = []
    desc = {"name": name, "base": base, "fields": list(bd["fields"]) if bd else [], "methods": dict(bd["methods"]) if bd else {},
            "props": list(bd["props"]) if bd else [], "cattrs": list(bd["cattrs"]) if bd else [],
            "init": bd["init"] if bd else None, "call": bd["call"] if bd else None, "bool": bd["bool"] if bd else False,
            "len": bd["len"] if bd else False, "getitem": bd["getitem"] if bd else False,
            "unary": list(bd["unary"]) if bd else [], "mro": [name] + (bd["mro"] if bd else []),
            "ops": set(bd["ops"]) if bd else set(), "cmps": set(bd["cmps"]) if bd else set(),
            "own_rbin": [], "own_cmp": []}
    # class attributes
    if draw(st.booleans()):
        k = draw(st.sampled_from(["K", "J"]))
        members.append(["cattr", k, lit(draw(SMALL))])
        if k not in desc["cattrs"]:
            desc["cattrs"].append(k)
    selfsc = lambda: {f"self.{f}": "i" for f in desc["fields"]}  # noqa: E731

    def self_i(sc, d=1):
        """int expression over parameters and self.<field> / self.K."""
        e = gen_i(draw, {**sc, **{f"self.{f}": "i" for f in desc["fields"]}, **{f"self.{c}": "i" for c in desc["cattrs"]}}, env, d)
        return e

    # __init__
    if bd is None or draw(st.integers(0, 2)):
        ps = [["v", "n", None]]
        if draw(st.booleans()):
            ps.append(["w", draw(st.sampled_from(["n", "ko"])), lit(draw(SMALL)) if draw(st.booleans()) else None])
        body = []
        newf = []
        if bd is not None:
            # super().__init__ with a binding-correct call
            body.append(["expr", gen_call(draw, {"callee": ["attr", call("super"), "__init__"], "params": bd["init"]}, sig_scope(ps), env, 1)])
        for f in (["v", "w"] if bd is None else [draw(st.sampled_from(["x", "y"]))]):
            if f in ("v", "w") and not any(p[0] == f for p in ps):
                continue
            fld = f if f not in desc["fields"] else f + "2"
            src = var(f) if any(p[0] == f for p in ps) else gen_i(draw, sig_scope(ps), env, 1)
            body.append(["assign", f"self.{fld}", src if draw(st.integers(0, 2)) else ["bin", "+", src, lit(1)]])
            newf.append(fld)
        members.append(["method", "__init__", None, ps, body or [["pass"]]])
        desc["init"] = ps
        desc["fields"] += [f for f in newf if f not in desc["fields"]]
    # methods
    for mname in draw(st.lists(st.sampled_from(["m", "g"]), max_size=2, unique=True)):
        ps = gen_sig(draw, {}, env, 0)
        sc = sig_scope(ps)
        body = []
        ret = self_i(sc, 2)
        if mname in desc["methods"] and draw(st.integers(0, 3)):
            # override that delegates to the inherited implementation through super()
            sup = gen_call(draw, {"callee": ["attr", call("super"), mname], "params": desc["methods"][mname]["params"]}, sc, env, 0)
            ret = ["bin", draw(st.sampled_from(["+", "-", "*"])), sup, ret]
        if draw(st.integers(0, 3)) == 0:
            body.append(["if", gen_c(draw, sc, env, 1), [["return", self_i(sc, 1)]], []])
        body.append(["return", ret])
        members.append(["method", mname, None, ps, body])
        desc["methods"][mname] = {"params": ps, "ret": "i", "deco": None}
    if draw(st.integers(0, 2)) == 0:
        ps = gen_sig(draw, {}, env, 0)
        members.append(["method", "sm", "staticmethod", ps, [["return", gen_i(draw, sig_scope(ps), env, 2)]]])
        desc["methods"]["sm"] = {"params": ps, "ret": "i", "deco": "staticmethod"}
    if draw(st.integers(0, 2)) == 0:
        ps = gen_sig(draw, {}, env, 0)
        sc = sig_scope(ps)
        ret = gen_i(draw, {**sc, **{f"cls.{c}": "i" for c in desc["cattrs"]}}, env, 2)
        if draw(st.booleans()):
            ret = ["tuple", [["attr", var("cls"), "__name__"], ret]]
        members.append(["method", "cm", "classmethod", ps, [["return", ret]]])
        desc["methods"]["cm"] = {"params": ps, "ret": "i" if ret[0] != "tuple" else "X", "deco": "classmethod"}
    # property (optionally with a setter used from __init__)
    if desc["fields"] and draw(st.integers(0, 1)) == 0:
        members.append(["prop", "pr", [["return", self_i({}, 2)]], None])
        if "pr" not in desc["props"]:
            desc["props"].append("pr")
    # __call__
    if draw(st.integers(0, 2)) == 0:
        ps = gen_sig(draw, {}, env, 0)
        members.append(["method", "__call__", None, ps, [["return", self_i(sig_scope(ps), 2)]]])
        desc["call"] = ps
    # truthiness / len / getitem / unary
    if draw(st.integers(0, 2)) == 0 and desc["fields"]:
        members.append(["method", "__bool__", None, [], [["return", ["cmp", [var(f"self.{desc['fields'][0]}"), lit(draw(SMALL))], [draw(st.sampled_from(CMPOPS))]]]]])
        desc["bool"] = True
    if draw(st.integers(0, 3)) == 0:
        members.append(["method", "__len__", None, [], [["return", lit(draw(st.integers(0, 3)))]]])
        desc["len"] = True
    if draw(st.integers(0, 2)) == 0:
        members.append(["method", "__getitem__", None, [["i", "n", None]], [["return", ["tuple", [lit(name + ".getitem"), var("i")]]]]])
        desc["getitem"] = True
    for u, dn in (("-", "__neg__"), ("+", "__pos__"), ("~", "__invert__"), ("abs", "__abs__")):
        if draw(st.integers(0, 4)) == 0:
            members.append(["method", dn, None, [], [["return", ["tuple", [lit(f"{name}.{dn}")] + [var(f"self.{f}") for f in desc["fields"][:1]]]]]])
            if u not in desc["unary"]:
                desc["unary"].append(u)
    # binary operators / comparisons with NotImplemented behaviours
    others = sorted(env.classes) + [name]

    def behaviour(tag, sym=None):
        """Body of an operator method: value / NotImplemented / NotImplemented unless the other operand qualifies."""
        b = draw(st.sampled_from(["val", "val", "val", "ni", "int", "cls", "cls"]))
        fld = [var(f"self.{f}") for f in desc["fields"][:1]]
        if sym is not None:  # comparison -> bool
            const = lit(draw(st.booleans()))
            use_field = bool(fld) and draw(st.booleans())
            mk = lambda o: ["cmp", [fld[0], o], [sym]] if use_field else const  # noqa: E731
        else:
            mk = lambda o: ["tuple", [lit(tag)] + fld]  # noqa: E731
        if b == "val":
            return [["return", mk(lit(draw(SMALL)))]]
        if b == "ni":
            return [["return", var("NotImplemented")]]
        if b == "int":
            return [["if", call("isinstance", var("other"), var("int")), [["return", mk(var("other"))]], []],
                    ["return", var("NotImplemented")]]
        c = draw(st.sampled_from(others))
        cd = desc if c == name else env.classes[c]
        o = ["attr", var("other"), cd["fields"][0]] if cd["fields"] else lit(0)
        return [["if", call("isinstance", var("other"), var(c)), [["return", mk(o)]], []],
                ["return", var("NotImplemented")]]

    inherited_ops = sorted(desc["ops"])
    inherited_cmps = sorted(desc["cmps"])
    bin_syms = draw(st.lists(st.sampled_from(sorted(OVL_BIN)), max_size=3, unique=True))
    if inherited_ops and draw(st.integers(0, 3)):
        bin_syms = list(dict.fromkeys(draw(st.lists(st.sampled_from(inherited_ops), min_size=1, max_size=2, unique=True)) + bin_syms))[:3]
    cmp_syms = draw(st.lists(st.sampled_from(sorted(OVL_CMP)), max_size=3, unique=True))
    if inherited_cmps and draw(st.integers(0, 3)):
        mirrored = [{"<": ">", ">": "<", "<=": ">=", ">=": "<="}.get(c, c) for c in inherited_cmps]
        cmp_syms = list(dict.fromkeys(draw(st.lists(st.sampled_from(sorted(set(inherited_cmps + mirrored))), min_size=1, max_size=2, unique=True)) + cmp_syms))[:3]
    for sym in bin_syms:
        nm = OVL_BIN[sym]
        which = draw(st.sampled_from(["f", "r", "fr", "fr"]))
        if "f" in which:
            members.append(["method", f"__{nm}__", None, [["other", "n", None]], behaviour(f"{name}.__{nm}__")])
        if "r" in which:
            members.append(["method", f"__r{nm}__", None, [["other", "n", None]], behaviour(f"{name}.__r{nm}__")])
            desc["own_rbin"].append(sym)
        desc["ops"].add(sym)
    for sym in cmp_syms:
        members.append(["method", f"__{OVL_CMP[sym]}__", None, [["other", "n", None]], behaviour("", sym)])
        desc["cmps"].add(sym)
        desc["own_cmp"].append(sym)
    env.classes[name] = desc
    return ["class", name, [base] if base else [], members]


def _fix_self(node):
    """Variables named 'self.x' / 'cls.K' were used as typed scope entries: turn them into attribute nodes."""
    if isinstance(node, list):
        if len(node) == 2 and node[0] == "var" and isinstance(node[1], str) and "." in node[1]:
            a, b = node[1].split(".", 1)
            return ["attr", var(a), b]
        return [_fix_self(x) for x in node]
    return node


# ============================================================================ object expressions
def gen_obj(draw, sc, env, d, cls=None):
    on = [n for n in obj_names(sc) if cls is None or sc[n] == f"o:{cls}"]
    if on and (d <= 0 or draw(st.integers(0, 2))):
        return var(draw(st.sampled_from(on))), sc[on[0]][2:] if len(on) == 1 else None
    cls = cls or draw(st.sampled_from(sorted(env.classes)))
    return ctor(draw, cls, sc, env, max(d - 1, 0)), cls


def ctor(draw, cls, sc, env, d):
    cd = env.classes[cls]
    return gen_call(draw, {"callee": var(cls), "params": cd["init"] or []}, sc, env, d)


def _obj_var(draw, sc, env, pred=lambda cd: True):
    cand = [n for n in obj_names(sc) if pred(env.classes[sc[n][2:]])]
    if not cand:
        return None, None
    n = draw(st.sampled_from(cand))
    return n, env.classes[sc[n][2:]]


def obj_int(draw, sc, env, d):
    n, cd = _obj_var(draw, sc, env)
    opts = []
    if cd["fields"]:
        opts.append((3, lambda: ["attr", var(n), draw(st.sampled_from(cd["fields"]))]))
    if cd["cattrs"]:
        opts.append((1, lambda: ["attr", var(n) if draw(st.booleans()) else var(cd["name"]), draw(st.sampled_from(cd["cattrs"]))]))
    if cd["props"]:
        opts.append((3, lambda: ["attr", var(n), draw(st.sampled_from(cd["props"]))]))
    mi = [m for m, md in cd["methods"].items() if md["ret"] == "i"]
    if mi:
        def mcall():
            m = draw(st.sampled_from(sorted(mi)))
            md = cd["methods"][m]
            base = var(n)
            if md["deco"] in ("staticmethod", "classmethod") and draw(st.booleans()):
                base = var(cd["name"])
            return gen_call(draw, {"callee": ["attr", base, m], "params": md["params"]}, sc, env, d)
        opts.append((5, mcall))
    if cd["call"] is not None:
        opts.append((3, lambda: gen_call(draw, {"callee": var(n), "params": cd["call"]}, sc, env, d)))
    if cd["len"]:
        opts.append((1, lambda: call("len", var(n))))
    if not opts:
        return lit(draw(SMALL))
    return W(draw, opts)


def obj_bool(draw, sc, env, d):
    n, cd = _obj_var(draw, sc, env)
    tys = sorted(env.classes) + ["int", "object"]
    opts = [
        (2, lambda: call("isinstance", var(n), var(draw(st.sampled_from(tys))))),
        (1, lambda: call("isinstance", var(n), ["tuple", [var(t) for t in draw(st.lists(st.sampled_from(tys), min_size=1, max_size=2))]])),
        (2, lambda: ["cmp", [call("type", var(n)), var(draw(st.sampled_from(tys)))], [draw(st.sampled_from(["is", "is not"]))]]),
        (1, lambda: call("issubclass", call("type", var(n)), var(draw(st.sampled_from(tys))))),
        (1, lambda: ["cmp", [var(n), var(draw(st.sampled_from(obj_names(sc))))], [draw(st.sampled_from(["is", "is not"]))]]),
    ]
    if cd["bool"]:
        opts += [(2, lambda: call("bool", var(n))), (2, lambda: ["un", "not", var(n)])]
    return W(draw, opts)


def gen_dispatch(draw, sc, env):
    """x <op> y with at least one instance operand: exercises forward / reflected / NotImplemented dispatch."""
    on = obj_names(sc)
    # base instance <op> derived instance, with an operator the derived class (re)defines: CPython tries the
    # reflected method of the derived right operand first
    pairs = [(x, y) for x in on for y in on
             if sc[x] != sc[y] and sc[x][2:] in env.classes[sc[y][2:]]["mro"]
             and (env.classes[sc[y][2:]]["own_rbin"] or env.classes[sc[y][2:]]["own_cmp"])]
    if pairs and draw(st.integers(0, 3)):
        x, y = draw(st.sampled_from(pairs))
        cd = env.classes[sc[y][2:]]
        if cd["own_rbin"] and (not cd["own_cmp"] or draw(st.booleans())):
            return ["bin", draw(st.sampled_from(cd["own_rbin"])), var(x), var(y)], "bin"
        mirror = {"<": ">", ">": "<", "<=": ">=", ">=": "<="}
        sym = draw(st.sampled_from(cd["own_cmp"]))
        return ["cmp", [var(x), var(y)], [mirror.get(sym, sym)]], "cmp"
    # reflected fallback: the left operand's class has no forward method for an operator the right one reflects
    refl = [(x, y, sym) for x in on for y in on for sym in env.classes[sc[y][2:]]["own_rbin"]
            if sym not in env.classes[sc[x][2:]]["ops"]]
    if refl and draw(st.integers(0, 2)) == 0:
        x, y, sym = draw(st.sampled_from(refl))
        return ["bin", sym, var(x), var(y)], "bin"
    a = var(draw(st.sampled_from(on)))
    other = W(draw, [(6, lambda: var(draw(st.sampled_from(on)))), (2, lambda: lit(draw(SMALL))),
                     (1, lambda: lit(None)), (1, lambda: lit(draw(st.booleans())))])
    lhs, rhs = (a, other) if draw(st.integers(0, 3)) else (other, a)
    ops_avail = set()
    cmps_avail = set()
    for e in (lhs, rhs):
        if e[0] == "var":
            ops_avail |= env.classes[sc[e[1]][2:]]["ops"]
            cmps_avail |= env.classes[sc[e[1]][2:]]["cmps"]
    kind = draw(st.sampled_from(["bin", "bin", "cmp", "cmp", "un"]))
    if kind == "bin":
        pool = sorted(ops_avail) * 3 + sorted(OVL_BIN)
        return ["bin", draw(st.sampled_from(pool)), lhs, rhs], "bin"
    if kind == "cmp":
        pool = sorted(cmps_avail) * 3 + sorted(OVL_CMP)
        if draw(st.integers(0, 4)) == 0:
            third = var(draw(st.sampled_from(on)))
            return ["cmp", [lhs, rhs, third], [draw(st.sampled_from(pool)), draw(st.sampled_from(pool))]], "cmp"
        return ["cmp", [lhs, rhs], [draw(st.sampled_from(pool))]], "cmp"
    u = draw(st.sampled_from(["-", "+", "~", "abs", "idx", "slice"]))
    if u == "abs":
        return call("abs", a), "un"
    if u == "idx":
        return ["sub", a, W(draw, [(2, lambda: lit(draw(SMALL))), (1, lambda: ["tuple", [lit(1), lit(2)]]), (1, lambda: lit("k"))])], "un"
    if u == "slice":
        return ["sub", a, slice_idx(draw)], "un"
    return ["un", u, a], "un"


# ============================================================================ statements of run()
def gen_stmt(draw, sc, env):
    """-> {"s": stmt, "out": [data valued names], "fam": family}; updates sc."""
    d = draw(st.sampled_from([1, 2, 2, 3]))

    def assign(ty):
        def f():
            n = env.fresh()
            e = gen(draw, ty, sc, env, d)
            sc[n] = ty
            return {"s": ["assign", n, e], "out": [n], "fam": f"assign:{ty}"}
        return f

    def unpack():
        k = draw(st.integers(1, 4))
        star = draw(st.integers(0, 2)) > 0
        form = draw(st.sampled_from(["tuple", "list", "tuplevar", "listvar", "range", "str", "nested", "call"]))
        names = [env.fresh() for _ in range(k)]
        si = draw(st.integers(0, k - 1)) if star else None
        target = [(["*", n] if i == si else n) for i, n in enumerate(names)]
        extra = draw(st.integers(0, 2)) if star else 0
        total = (k - 1 if star else k) + extra
        tys = {n: "i" for n in names}
        pre = []
        if form in ("tuple", "list", "tuplevar", "listvar", "call"):
            src = [form.replace("var", "") if form != "call" else "tuple", [gen_i(draw, sc, env, 1) for _ in range(total)]]
            if form == "call":
                src = call(draw(st.sampled_from(["tuple", "list"])), ["list", src[1]])
        elif form == "range":
            src = call("range", lit(total))
        elif form == "str":
            src = lit("abcdefg"[:total])
            tys = {n: "s" for n in names}
        else:
            inner = [env.fresh(), env.fresh()]
            istar = draw(st.booleans())
            itarget = [inner[0], ["*", inner[1]]] if istar else inner
            isrc = ["tuple" if draw(st.booleans()) else "list", [gen_i(draw, sc, env, 1) for _ in range(2 + (draw(st.integers(0, 2)) if istar else 0))]]
            pos = draw(st.integers(0, len(target)))
            items = [gen_i(draw, sc, env, 1) for _ in range(total)]
            # position of the nested element inside the source must line up with the target
            tpos = pos
            spos = pos if (si is None or pos <= si) else pos - 1 + extra
            target.insert(tpos, itarget)
            items.insert(spos, isrc)
            if si is not None and tpos <= si:
                si += 1
            src = [draw(st.sampled_from(["tuple", "list"])), items]
            tys[inner[0]] = "i"
            tys[inner[1]] = "L" if istar else "i"
            names = names + inner
        if form in ("tuplevar", "listvar"):
            tmp = env.fresh()
            pre = [["assign", tmp, src]]
            sc[tmp] = "T" if form == "tuplevar" else "L"
            src = var(tmp)
        if star:
            starname = [t[1] for t in target if isinstance(t, list) and t and t[0] == "*"][0]
            tys[starname] = "L" if form != "str" else "X"
        stmt = ["unpack", target, src]
        for n in names:
            sc[n] = tys[n]
        res = {"s": stmt, "out": names, "fam": "unpack"}
        if pre:
            res["pre"] = {"s": pre[0], "out": [pre[0][1]], "fam": f"assign:{sc[pre[0][1]]}"}
        return res

    def massign():
        a, b = env.fresh(), env.fresh()
        ty = draw(st.sampled_from(["i", "L", "T"]))
        e = gen(draw, ty, sc, env, d)
        sc[a] = sc[b] = ty
        return {"s": ["massign", [a, b], e], "out": [a, b], "fam": "massign"}

    def forloop():
        it, tgt, lv = gen_iter(draw, sc, env, 1)
        sc2 = {**sc, **lv}
        body = []
        if draw(st.integers(0, 2)) == 0:
            n = env.fresh("l")
            body.append(["assign", n, gen_i(draw, sc2, env, 1)])
            sc2[n] = "i"
        recs = ["rec", [lit(env.fresh("r"))] + [var(x) for x in lv] + [gen_i(draw, sc2, env, 1)]]
        form = draw(st.integers(0, 3))
        if form == 0:
            body.append(["if", gen_c(draw, sc2, env, 1), [recs], [["rec", [lit(env.fresh("r")), gen_i(draw, sc2, env, 1)]]] if draw(st.booleans()) else []])
        elif form == 1:
            it2, tgt2, lv2 = gen_iter(draw, sc2, env, 0)
            sc3 = {**sc2, **lv2}
            body.append(["for", tgt2, it2, [["rec", [lit(env.fresh("r"))] + [var(x) for x in lv] + [var(x) for x in lv2] + [gen_i(draw, sc3, env, 1)]]]])
        else:
            body.append(recs)
        return {"s": ["for", tgt, it, body], "out": [], "fam": "for"}

    def constif():
        n = env.fresh()
        ty = draw(st.sampled_from(["i", "b", "L"]))
        c = gen_c(draw, sc, env, d)
        form = draw(st.integers(0, 2))
        then = [["assign", n, gen(draw, ty, sc, env, 1)]]
        if form == 0:
            orelse = [["assign", n, gen(draw, ty, sc, env, 1)]]
        elif form == 1:
            orelse = [["if", gen_c(draw, sc, env, 1), [["assign", n, gen(draw, ty, sc, env, 1)]], [["assign", n, gen(draw, ty, sc, env, 1)]]]]
        else:
            m = env.fresh("l")
            then = [["assign", m, gen_i(draw, sc, env, 1)], ["assign", n, gen(draw, ty, {**sc, m: "i"}, env, 1)]]
            orelse = [["assign", n, gen(draw, ty, sc, env, 1)]]
        sc[n] = ty
        return {"s": ["if", c, then, orelse], "out": [n], "fam": "constif"}

    def localfn():
        """Local def / lambda (closure over run()'s variables) + calls."""
        name = env.fresh("g")
        ps = gen_sig(draw, sc, env, 1, local=True)
        if draw(st.integers(0, 2)):
            ps = [p for p in ps if not (p[1] == "ko" and p[2] is None)]  # required kw-only: known to be rejected
        isc = {**{k: v for k, v in sc.items() if v in ("i", "b", "L", "T", "D")}, **sig_scope(ps)}
        form = draw(st.sampled_from(["def", "def", "lambda"]))
        ret = gen_i(draw, isc, env, 2)
        if draw(st.integers(0, 2)) == 0:
            ret = ["tuple", [var(p[0]) for p in ps]]
        rt = "i" if ret[0] != "tuple" else "X"
        if form == "def":
            nl = []
            iv = names_of(sc, "i")
            if iv and draw(st.integers(0, 2)) == 0:
                nl = [draw(st.sampled_from(iv))]
                if rt == "i":
                    ret = ["bin", "+", ret, var(nl[0])]
            body = []
            if draw(st.integers(0, 3)) == 0:
                body.append(["if", gen_c(draw, isc, env, 1), [["return", gen_i(draw, isc, env, 1) if rt == "i" else ret]], []])
            body.append(["return", ret])
            stmt = ["def", name, ps, nl, body]
        else:
            np_ = draw(st.integers(1, 3))
            nd_ = draw(st.integers(0, np_))
            ps = [[nm, "n", gen_i(draw, sc, env, 1) if i >= np_ - nd_ else None] for i, nm in enumerate(["p", "q", "u"][:np_])]
            isc = {**{k: v for k, v in sc.items() if v in ("i", "b", "L", "T", "D")}, **sig_scope(ps)}
            ret = gen_i(draw, isc, env, 2) if rt == "i" else ["tuple", [var(p[0]) for p in ps]]
            stmt = ["assign", name, ["lambda", [[p[0], p[2]] for p in ps], ret]]
        fd = {"callee": var(name), "params": ps, "ret": rt, "tag": "local" + form}
        sc.setdefault("__funcs__", [])
        res = {"s": stmt, "out": [], "fam": "localfn:" + form}
        sc[name] = "fn"
        outn = env.fresh()
        res["post"] = {"s": ["assign", outn, gen_call(draw, fd, sc, env, 1)], "out": [outn], "fam": "call:local" + form}
        sc[outn] = rt
        if rt == "i":
            sc["__funcs__"] = sc["__funcs__"] + [fd]
        return res

    def closures():
        """Functions created inside a comprehension: each must capture what CPython captures."""
        n, out = env.fresh("h"), env.fresh()
        i = env.fresh("t")
        form = draw(st.integers(0, 2))
        rng = call("range", lit(draw(st.integers(1, 3))))
        if form == 0:
            fs = ["lcomp", ["lambda", [["x", None]], ["bin", "+", var("x"), var(i)]], i, rng, []]
        elif form == 1:
            fs = ["lcomp", ["lambda", [["x", None], [i, var(i)]], ["bin", "+", var("x"), var(i)]], i, rng, []]
        else:
            fs = ["lcomp", ["lambda", [], ["bin", "*", var(i), lit(2)]], i, rng, []]
        sc[n] = "fnlist"
        j = env.fresh("t")
        arg = [] if form == 2 else [["p", gen_i(draw, sc, env, 0)]]
        res = {"s": ["assign", n, fs], "out": [], "fam": "closures"}
        res["post"] = {"s": ["assign", out, ["lcomp", ["call", var(j), arg], j, var(n), []]], "out": [out], "fam": "call:closurelist"}
        sc[out] = "L"
        return res

    def factory():
        fd = draw(st.sampled_from(env.factories))
        h, out = env.fresh("h"), env.fresh()
        mk = gen_call(draw, {"callee": var(fd["name"]), "params": fd["outer"]}, sc, env, 1)
        inner = {"callee": var(h), "params": fd["inner"], "ret": "i", "tag": "closure"}
        sc[h] = "fn"
        res = {"s": ["assign", h, mk], "out": [], "fam": "factory"}
        res["post"] = {"s": ["assign", out, gen_call(draw, inner, sc, env, 1)], "out": [out], "fam": "call:closure"}
        sc[out] = "i"
        sc["__funcs__"] = sc.get("__funcs__", []) + [inner]
        return res

    def newobj():
        cls = draw(st.sampled_from(sorted(env.classes)))
        n = env.fresh("o")
        e = ctor(draw, cls, sc, env, 1)
        sc[n] = f"o:{cls}"
        return {"s": ["assign", n, e], "out": [n], "fam": "ctor"}

    def dispatch():
        n = env.fresh()
        e, kind = gen_dispatch(draw, sc, env)
        sc[n] = "X"
        return {"s": ["assign", n, e], "out": [n], "fam": "dispatch:" + kind}

    def cmpdispatch():
        n = env.fresh()
        e = gen_cmp_dispatch(draw, sc, env)
        sc[n] = "b"
        return {"s": ["assign", n, e], "out": [n], "fam": "dispatch:cmp_reflected"}

    def xdata():
        n = env.fresh()
        form = draw(st.integers(0, 5))
        if form == 0:
            e = gen_lcomp(draw, sc, env, 2, "X")
        elif form == 1:
            e = call("list", gen_iter(draw, sc, env, 1)[0])
        elif form == 2:
            e = ["tuple", [gen(draw, draw(st.sampled_from(["i", "b", "s", "n", "L", "T", "D"])), sc, env, 1) for _ in range(draw(st.integers(1, 3)))]]
        elif form == 3:
            e = ["bin", "/", gen_i(draw, sc, env, 1), lit(draw(st.sampled_from([1, 2, 4, -2])))]
        elif form == 4:
            e = ["list", [["list", [gen_i(draw, sc, env, 1)]], gen_T(draw, sc, env, 1), gen_D(draw, sc, env, 1)]]
        else:
            e = ["sub", ["list", [gen_L(draw, sc, env, 1), gen_L(draw, sc, env, 1)]], lit(draw(st.integers(-1, 1)))]
        sc[n] = "X"
        return {"s": ["assign", n, e], "out": [n], "fam": "assign:X"}

    def objmisc():
        """Bound methods / classes as first-class values."""
        n, cd = _obj_var(draw, sc, env, lambda cd: any(md["ret"] == "i" and md["deco"] is None for md in cd["methods"].values()))
        if n is None:
            return assign("i")()
        m = draw(st.sampled_from(sorted(k for k, md in cd["methods"].items() if md["ret"] == "i" and md["deco"] is None)))
        bm, out = env.fresh("h"), env.fresh()
        form = draw(st.integers(0, 1))
        md = cd["methods"][m]
        if form == 0:
            res = {"s": ["assign", bm, ["attr", var(n), m]], "out": [], "fam": "boundmethod"}
            post = gen_call(draw, {"callee": var(bm), "params": md["params"]}, sc, env, 1)
        else:
            res = {"s": ["assign", bm, ["attr", var(cd["name"]), m]], "out": [], "fam": "unboundmethod"}
            post = gen_call(draw, {"callee": var(bm), "params": [["self", "po", None]] + md["params"]}, sc, env, 1)
            # first positional argument is the instance
            fixed = False
            for a in post[2]:
                if a[0] == "p":
                    a[1] = var(n)
                    fixed = True
                    break
                if a[0] == "s" and a[1][1]:
                    a[1][1][0] = var(n)
                    fixed = True
                    break
            if not fixed:
                post[2].insert(0, ["p", var(n)])
        sc[bm] = "fn"
        res["post"] = {"s": ["assign", out, post], "out": [out], "fam": "call:" + res["fam"]}
        sc[out] = "i"
        return res

    opts = [(6, assign("i")), (4, assign("b")), (1, assign("s")), (1, assign("n")), (4, assign("L")), (2, assign("T")),
            (3, assign("D")), (3, xdata), (5, unpack), (1, massign), (4, forloop), (3, constif), (5, localfn), (2, closures)]
    if getattr(env, "factories", None):
        opts.append((3, factory))
    if env.classes:
        opts.append((5 if not obj_names(sc) else 2, newobj))
    if obj_names(sc):
        opts += [(14, dispatch), (2, objmisc)]
    if env.cmp_pairs:
        opts.append((14, cmpdispatch))
    return W(draw, opts)


@st.composite
def program(draw):
    env = Env()
    defs = []
    for _ in range(draw(st.integers(0, 2))):
        n = env.fresh("G")
        v = draw(SMALL)
        env.consts[n] = v
        defs.append(["const", n, lit(v)])
    for _ in range(draw(st.integers(0, 2))):
        defs.append(gen_func(draw, env))
    for _ in range(draw(st.sampled_from([0, 1]))):
        defs.append(gen_factory(draw, env))
        if draw(st.integers(0, 3)):
            # closures created natively at import time (traced later through from_callable) whose free variables
            # are shadowed by module globals of the same names: the cell must win, as in CPython
            fd = env.factories[-1]
            for gname in ["n", "m", "z"]:
                defs.append(["const", gname, lit(draw(st.sampled_from([50, 70, -60])))])
            for _ in range(draw(st.integers(1, 2))):
                hname = env.fresh("hc")
                defs.append(["const", hname, gen_call(draw, {"callee": var(fd["name"]), "params": fd["outer"]}, {}, env, 0)])
                env.funcs.append({"callee": var(hname), "params": fd["inner"], "ret": "i", "tag": "module_closure"})
    if draw(st.booleans()):
        defs += gen_cmp_classes(draw, env)
    for _ in range(draw(st.sampled_from([0, 1, 2, 2, 3, 3]))):
        defs.append(gen_class(draw, env))
    sc = {}
    stmts = []
    if env.classes and draw(st.integers(0, 4)):
        # instances first, so that the following statements can use them
        first = []
        derived = [c for c in sorted(env.classes) if env.classes[c]["base"]]
        if derived and draw(st.integers(0, 2)):
            dcls = draw(st.sampled_from(derived))
            first = [draw(st.sampled_from(env.classes[dcls]["mro"][1:])), dcls]
        for cls in first + draw(st.lists(st.sampled_from(sorted(env.classes)), min_size=0 if first else 1, max_size=2)):
            n = env.fresh("o")
            stmts.append({"s": ["assign", n, ctor(draw, cls, sc, env, 1)], "out": [n], "fam": "ctor"})
            sc[n] = f"o:{cls}"
    for _ in range(draw(st.integers(2, 7))):
        r = gen_stmt(draw, sc, env)
        for key in ("pre", None, "post"):
            part = r.get(key) if key else r
            if part:
                stmts.append({"s": part["s"], "out": part["out"], "fam": part["fam"]})
    # outputs: only plain data and instances
    for s in stmts:
        s["out"] = [n for n in s["out"] if sc.get(n) not in ("fn", "fnlist")]
    return {"kind": "prog", "defs": _fix_self(defs), "stmts": _fix_self(stmts)}


# ============================================================================ rendering a (sub)program
from cv.gen import c10_render as R  # noqa: E402

BUILTIN_NAMES = {"len", "min", "max", "abs", "range", "zip", "enumerate", "list", "tuple", "dict", "bool", "isinstance",
                 "issubclass", "type", "any", "all", "super"}


def result_expr(names):
    return "(" + ", ".join(names) + ("," if len(names) == 1 else "") + ")"


def out_names(stmts):
    return [n for s in stmts for n in s["out"]]


def build(case, stmts, H, result=None):
    return H.module_source(R.rdefs(case["defs"]), R.rstmts([s["s"] for s in stmts]),
                           result if result is not None else result_expr(out_names(stmts)))


def drop(stmts, k):
    """Remove statement k and everything that (transitively) uses a name it defines."""
    dead = set(R.names_defined(stmts[k]["s"]))
    keep = stmts[:k]
    for s in stmts[k + 1:]:
        if R.names_used(s["s"]) & dead:
            dead |= set(R.names_defined(s["s"]))
        else:
            keep.append(s)
    return keep


def view(case):
    src = "\n".join(R.rdefs(case["defs"]) + ["def run():"] + ["    " + l for l in R.rstmts([s["s"] for s in case["stmts"]])]
                    + ["    return " + result_expr(out_names(case["stmts"]))])
    return {"kind": "prog", "source": src}


# ============================================================================ feature classes (labels)
def def_features(d):
    f = set()
    if d[0] == "const" and d[2][0] == "call":
        f.add("def:module_closure")
    if d[0] == "func":
        f.add("def:func")
        _body_features(d[3], f)
        if any(p[1] in ("po", "va", "ko", "kw") for p in d[2]):
            f.add("def:rich_signature")
    elif d[0] == "class":
        f.add("def:class")
        if d[2]:
            f.add("def:inheritance")
        for m in d[3]:
            if m[0] == "prop":
                f.add("def:property")
            elif m[0] == "cattr":
                f.add("def:classattr")
            elif m[0] == "method":
                if m[2]:
                    f.add("def:" + m[2])
                if m[1] == "__call__":
                    f.add("def:__call__")
                elif m[1].startswith("__r") and m[1] not in ("__rshift__",):
                    f.add("def:reflected_op")
                elif m[1].startswith("__") and m[1] != "__init__":
                    f.add("def:operator")
                _body_features(m[4], f)
    return f


def _body_features(body, f):
    for s in body:
        if s[0] == "if" and any(b[0] == "return" for b in s[2]):
            f.add("def:early_return")
        if s[0] == "def":
            f.add("def:closure_factory")
            if s[3]:
                f.add("def:nonlocal")

        def fn(n, closed):
            if n[0] == "call" and n[1] == ["var", "super"]:
                f.add("def:super")
            if n[0] == "var" and n[1] == "NotImplemented":
                f.add("def:NotImplemented")
            if n[0] == "lambda":
                f.add("def:closure_factory")

        R.walk_stmt(s, fn)
        if s[0] in ("if", "for", "def"):
            _body_features(s[2] + s[3] if s[0] == "if" else (s[3] if s[0] == "for" else s[4]), f)


def stmt_features(s):
    f = set()
    st_ = s["s"]
    op = st_[0]
    f.add({"assign": "s:assign", "massign": "s:multi_target", "unpack": "s:unpack", "for": "s:for", "if": "s:const_if",
           "def": "s:local_def", "rec": "s:rec", "expr": "s:expr"}.get(op, "s:" + op))
    if op == "unpack":
        flat = R.rtarget(st_[1])
        if "*" in flat:
            f.add("s:star_unpack")
        if "(" in flat:
            f.add("s:nested_unpack")
    if op == "def":
        if st_[3]:
            f.add("s:nonlocal")
        if any(p[2] is not None for p in st_[2]):
            f.add("s:local_default_arg")
    if op == "for" and any(b[0] == "for" for b in st_[3]):
        f.add("s:nested_for")

    def fn(n, closed):
        o = n[0]
        if o == "bin":
            f.add("e:binop")
        elif o == "un":
            f.add("e:not" if n[1] == "not" else "e:unary")
        elif o == "cmp":
            f.add("e:compare_chain" if len(n[2]) > 1 else ("e:is" if n[2][0] in ("is", "is not") else "e:compare"))
        elif o == "boolop":
            f.add("e:and_or")
        elif o == "ife":
            f.add("e:ifexp")
        elif o == "attr":
            f.add("e:attribute")
        elif o == "call":
            c = n[1]
            if c[0] == "var" and c[1] in BUILTIN_NAMES:
                f.add("e:builtin:" + c[1])
            elif c[0] == "attr":
                f.add("e:method_call")
            else:
                f.add("e:call")
            for a in n[2]:
                f.add({"p": "e:arg_positional", "k": "e:arg_keyword", "s": "e:arg_star", "d": "e:arg_dstar"}[a[0]])
        elif o in ("tuple", "list"):
            f.add("e:" + o)
            if any(i[0] == "star" for i in n[1]):
                f.add("e:star_in_" + o)
        elif o == "dict":
            f.add("e:dict")
            if any(i[0] == "dstar" for i in n[1]):
                f.add("e:dstar_in_dict")
        elif o == "sub":
            f.add("e:slice" if n[2][0] == "slice" else "e:subscript")
        elif o == "lcomp":
            f.add("e:listcomp")
            if n[4]:
                f.add("e:comp_condition")
            if not isinstance(n[2], str):
                f.add("e:comp_tuple_target")
        elif o == "dcomp":
            f.add("e:dictcomp")
            if n[5]:
                f.add("e:comp_condition")
        elif o == "lambda":
            f.add("e:lambda")
            if any(p[1] is not None for p in n[1]):
                f.add("e:lambda_default_arg")

    R.walk_stmt(st_, fn)
    return f


# ============================================================================ the check
def _first_bad_prefix(n, bad):
    """Smallest k with bad(k) true (prefix of length k+1 fails); failure is monotone in the prefix length."""
    lo, hi = 0, n - 1  # invariant: prefix hi+1 fails
    while lo < hi:
        mid = (lo + hi) // 2
        if bad(mid):
            hi = mid
        else:
            lo = mid + 1
    return lo


def check_program(case, H):
    out = H.Outcome()
    stmts = list(case["stmts"])
    def_feat = {d[1]: def_features(d) for d in case["defs"]}

    def feats(s):
        f = stmt_features(s)
        for n in R.names_used(s["s"]):
            f |= def_feat.get(n, set())
        return f

    # ---- reference side: drop statements on which CPython itself raises (outcome unspecified there)
    while True:
        if not stmts:
            out.status = "unspecified"
            return out
        exp, elog, m = H.run_cpython(build(case, stmts, H))
        H.unload(m)
        if not isinstance(exp, H.Raised):
            break
        if isinstance(exp, H.ModuleRaised):
            # CPython already raises while importing the module (natively created closures): nothing is specified
            out.status = "unspecified"
            out.labels.append(f"module_level_raised:{exp.name}")
            return out

        def bad_native(k):
            v, _, mm = H.run_cpython(build(case, stmts[:k + 1], H))
            H.unload(mm)
            return isinstance(v, H.Raised)

        k = _first_bad_prefix(len(stmts), bad_native)
        out.labels.append(f"cpython_raised:{exp.name}")
        if H.is_binding_error(exp):
            obs, _ = H.run_cohdl(build(case, stmts[:k + 1], H))
            if isinstance(obs, H.Rejected):
                out.labels.append("binding_error_confirmed_rejected")
            else:
                out.add({"gen": "prog", "kind": "accepts_invalid", "stmt": stmts[k]["fam"]},
                        f"CPython: TypeError: {exp.msg}\ncohdl returned {obs!r}\n--- program:\n"
                        + H.run_text(build(case, stmts[:k + 1], H)))
        stmts = drop(stmts, k)

    # ---- cohdl side: find and drop rejected statements (rejection is always allowed), keep the rest
    pruned = False
    guard = 0
    while True:
        if not stmts:
            out.status = "rejected"
            return out
        obs, olog = H.run_cohdl(build(case, stmts, H))
        if not isinstance(obs, H.Rejected):
            break
        guard += 1

        def bad_traced(k):
            return isinstance(H.run_cohdl(build(case, stmts[:k + 1], H))[0], H.Rejected)

        k = _first_bad_prefix(len(stmts), bad_traced)
        out.labels.append(f"rej_stmt:{stmts[k]['fam']}")
        for f in feats(stmts[k]):
            out.labels.append("rej:" + f)
        out.counters["rejected_statements"] = out.counters.get("rejected_statements", 0) + 1
        stmts = drop(stmts, k)
        pruned = True
        if guard > 12:
            out.status = "rejected"
            return out
    if pruned:
        exp, elog, m = H.run_cpython(build(case, stmts, H))
        H.unload(m)
        if isinstance(exp, H.Raised):
            raise AssertionError("pruned program raised under CPython: " + exp.msg)

    # ---- compare statement by statement
    allf = set()
    for s in stmts:
        fs = feats(s)
        allf |= fs
        out.labels.append(f"acc_stmt:{s['fam']}")
        for f in fs:
            out.labels.append("acc:" + f)
    out.counters["accepted_statements"] = len(stmts)
    out.nontrivial = len(allf) >= 2
    names = out_names(stmts)
    if type(obs) is not tuple or len(obs) != len(names):
        out.add({"gen": "prog", "kind": "shape"}, f"expected {exp!r}\nobserved {obs!r}")
        return out
    ev = dict(zip(names, exp))
    ov = dict(zip(names, obs))
    tainted = set()
    for i, s in enumerate(stmts):
        if R.names_used(s["s"]) & tainted:
            tainted |= set(R.names_defined(s["s"]))
            out.labels.append("skipped_dependent_of_finding")
            continue
        for n in s["out"]:
            d = _diff(H, ev[n], ov[n])
            if d:
                sig, extra = _classify(case, stmts, i, d, H)
                out.add(sig, f"{n}: expected {ev[n]!r}\n{' ' * len(n)}  observed {_show(H, ov[n])}\n{extra}--- program:\n"
                        + H.run_text(build(case, stmts[:i + 1], H)))
                tainted |= set(R.names_defined(s["s"]))
                break
    # ---- loop bodies are observed through rec(): compare the logs per loop
    if elog != olog:
        for i, s in enumerate(stmts):
            if s["s"][0] != "for" or R.names_used(s["s"]) & tainted:
                continue
            tags = _rec_tags(s["s"])
            a = [r for r in elog if r and r[0] in tags]
            b = [r for r in olog if r and r[0] in tags]
            d = H.first_diff(H.canon(a), H.canon(b))
            if d:
                kind = d[1]
                sig = {"gen": "prog", "stmt": "for", "diff": "log_" + kind}
                if not kind.startswith("leak"):
                    sig.update({"iter": _node_tag(s["s"][2]), "target": "name" if isinstance(s["s"][1], str) else "tuple"})
                out.add(sig, f"rec() log of the loop differs\nexpected {a!r}\nobserved {[tuple(_show(H, x) for x in r) for r in b]}\n"
                        "--- program:\n" + H.run_text(build(case, stmts[:i + 1], H)))
    return out


def _rec_tags(s):
    tags = set()
    if s[0] == "rec":
        tags.add(s[1][0][1])
    elif s[0] == "for":
        for b in s[3]:
            tags |= _rec_tags(b)
    elif s[0] == "if":
        for b in s[2] + s[3]:
            tags |= _rec_tags(b)
    return tags


def _show(H, v):
    leaked, inner = H.unwrap_leak(v)
    return f"<{type(v).__module__}.{type(v).__name__} wrapping {inner!r}>" if leaked else repr(v)


def _diff(H, e, o):
    """None or the kind of the first structural difference (leaked frontend objects reported as such)."""
    d = H.first_diff(H.canon(e), H.canon(o))
    return d[1] if d else None


def _node_tag(n):
    o = n[0]
    if o == "bin":
        return "bin"
    if o == "un":
        return "un:" + n[1]
    if o == "cmp":
        return "cmp_chain" if len(n[2]) > 1 else ("is" if n[2][0] in ("is", "is not") else "cmp")
    if o == "call":
        c = n[1]
        if c[0] == "var" and c[1] in BUILTIN_NAMES:
            return "call:" + c[1]
        if c[0] == "attr":
            return "call:method"
        return "call"
    if o == "sub":
        return "sub:slice" if n[2][0] == "slice" else "sub:index"
    if o in ("tuple", "list"):
        return o + ("*" if any(i[0] == "star" for i in n[1]) else "")
    if o == "dict":
        return o + ("**" if any(i[0] == "dstar" for i in n[1]) else "")
    if o == "lit":
        return "lit:" + type(n[1]).__name__
    return o


def _children(n):
    o = n[0]
    if o == "bin":
        return [n[2], n[3]]
    if o == "un":
        return [n[2]]
    if o == "cmp":
        return list(n[1])
    if o == "boolop":
        return list(n[2])
    if o == "ife":
        return [n[1], n[2], n[3]]
    if o == "attr":
        return [n[1]]
    if o == "call":
        return [n[1]] + [a[-1] for a in n[2]]
    if o in ("tuple", "list"):
        return [i[1] if i[0] == "star" else i for i in n[1]]
    if o == "sub":
        return [n[1]] + ([] if n[2][0] == "slice" else [n[2]])
    if o in ("lcomp",):
        return [n[3]]
    if o == "dcomp":
        return [n[4]]
    return []


def _callee_kind(case, stmts, node):
    c = node[1]
    if c[0] == "attr":
        if c[1][0] == "call" and c[1][1] == ["var", "super"]:
            return "super_method"
        return "method"
    if c[0] != "var":
        return "expr"
    name = c[1]
    if name in BUILTIN_NAMES:
        return "builtin"
    for d in case["defs"]:
        if d[1] == name:
            if d[0] == "const" and d[2][0] == "call":
                return "module_closure"
            return {"func": "modfunc", "class": "ctor", "const": "const"}[d[0]]
    for s in stmts:
        st_ = s["s"]
        if st_[0] == "def" and st_[1] == name:
            return "localdef"
        if st_[0] == "assign" and st_[1] == name:
            e = st_[2]
            if e[0] == "lambda":
                return "locallambda"
            if e[0] == "attr":
                return "boundmethod"
            if e[0] == "call":
                return "returned_closure"
            return "value"
    return "callable_object"


def _classify(case, stmts, i, diff, H):
    """Root-cause signature of a differing statement: localise the innermost closed sub-expression whose value
    already differs (all sub-expressions are pure), and describe it by node kind and operand types."""
    s = stmts[i]
    st_ = s["s"]
    fam = s["fam"]
    stmt_tag = fam if (fam.startswith("call:") or fam in ("unpack", "massign", "constif", "for", "ctor")) else "expr"
    sig = {"gen": "prog", "stmt": stmt_tag, "diff": diff}
    root_expr = st_[2] if st_[0] in ("assign", "massign", "unpack") else None
    if root_expr is None:
        return sig, ""
    subs = []

    def collect(n, closed):
        if closed and n[0] != "lit":
            subs.append(n)

    R.walk_expr(root_expr, collect)
    # post-order: children before parents == reverse of the pre-order walk is not exact; sort by nesting depth
    subs = [n for n in reversed(subs)]
    texts = [R.rx(n) for n in subs]
    prefix = stmts[:i]
    lines = ["_r = []"]
    for t in texts:
        lines += ["try:", f"    _r.append(('ok', {t}))", "except Exception as _e:", "    _r.append(('exc', type(_e).__name__))"]
    src = H.module_source(R.rdefs(case["defs"]), R.rstmts([p["s"] for p in prefix]) + lines, "_r")
    nat, _, m = H.run_cpython(src)
    H.unload(m)
    if isinstance(nat, H.Raised):
        return sig, ""
    ok_idx = [j for j, r in enumerate(nat) if r[0] == "ok"]
    obs, _ = H.run_cohdl(build(case, prefix, H, result_expr([texts[j] for j in ok_idx])))
    got = {}
    if isinstance(obs, H.Rejected):
        for j in ok_idx:
            o1, _ = H.run_cohdl(build(case, prefix, H, texts[j]))
            if not isinstance(o1, H.Rejected):
                got[j] = o1
    else:
        got = dict(zip(ok_idx, obs))
    root = None
    for j in ok_idx:  # innermost first
        if j in got and _diff(H, nat[j][1], got[j]):
            root = j
            break
    if st_[0] == "unpack":
        srcv = nat[len(subs) - 1][1] if subs and nat[len(subs) - 1][0] == "ok" and subs[-1] is root_expr else None
        flat = R.rtarget(st_[1])
        sig.update({"src": type(srcv).__name__ if srcv is not None else "?", "star": "*" in flat, "nested": "(" in flat})
    if root is None or (st_[0] == "unpack" and subs[root] is root_expr and not _diff(H, nat[root][1], got[root])):
        return sig, ""
    if st_[0] == "unpack" and root == len(subs) - 1 and not _diff(H, nat[root][1], got[root]):
        return sig, ""
    node = subs[root]
    vals = {id(n): nat[j][1] for j, n in enumerate(subs) if nat[j][0] == "ok"}

    def vtype(n):
        if n[0] == "lit":
            return type(n[1]).__name__ if n[1] is not None else "none"
        if id(n) in vals:
            t = H.canon(vals[id(n)])[0]
            return t
        return "?"

    sig["node"] = _node_tag(node)
    sig["diff"] = _diff(H, nat[root][1], got[root])
    kids = _children(node)
    if node[0] in ("bin", "cmp", "un", "sub"):
        types = [vtype(k) for k in kids]
        sig["args"] = ",".join(types)
        if "obj" in types and node[0] in ("bin", "cmp") and len(kids) == 2:
            a = vals.get(id(kids[0]), kids[0][1] if kids[0][0] == "lit" else None)
            b = vals.get(id(kids[1]), kids[1][1] if kids[1][0] == "lit" else None)
            ta, tb = type(a), type(b)
            rel = "same" if ta is tb else ("rhs_subclass" if issubclass(tb, ta) else ("lhs_subclass" if issubclass(ta, tb) else "unrelated"))
            sig["rel"] = rel
            sym = node[1] if node[0] == "bin" else node[2][0]
            if node[0] == "bin":
                rname = "__r" + OVL_BIN.get(sym, "x") + "__"
            else:
                rname = "__" + {"==": "eq", "!=": "ne", "<": "gt", ">": "lt", "<=": "ge", ">=": "le"}.get(sym, "x") + "__"
            sig["rhs_overrides_reflected"] = bool(rel == "rhs_subclass" and getattr(tb, rname, None) is not getattr(ta, rname, None))
            if node[0] == "cmp":
                sig["op"] = sym
        else:
            sig["op"] = node[1] if node[0] in ("bin", "un") else ",".join(node[2]) if node[0] == "cmp" else "-"
    elif node[0] == "call":
        sig["callee"] = _callee_kind(case, stmts, node)
    elif node[0] == "lcomp":
        sig["iter"] = _node_tag(node[3])
        sig["elt"] = node[1][0] if node[1][0] in ("lambda", "call") else "other"
        sig["cond"] = bool(node[4])
        if fam == "call:closurelist":
            sig["closure_captures"] = _closure_capture(stmts, node)
    elif node[0] == "dcomp":
        sig["iter"] = _node_tag(node[4])
        sig["cond"] = bool(node[5])
    return sig, f"innermost differing sub-expression: {R.rx(node)}\n  CPython: {nat[root][1]!r}\n  cohdl:   {_show(H, got[root])}\n"


def _closure_capture(stmts, node):
    it = node[3]
    if it[0] == "var":
        for s in stmts:
            if s["s"][0] == "assign" and s["s"][1] == it[1] and s["s"][2][0] == "lcomp" and s["s"][2][1][0] == "lambda":
                lam = s["s"][2][1]
                return "default_arg" if any(p[1] is not None for p in lam[1]) else "free_variable"
    return "?"
