from hypothesis import strategies as st
def program():
    return st.just({"kind": "prog"})
def check_program(case, env):
    return env.Outcome(status="unspecified")
def view(case):
    return case
