"""Execution of compilation *histories* for C11 (no Hypothesis import: this module is also the
entry point of the fresh-interpreter child process, `python -m cv.gen.c11_exec`).

A history is
    designs : list of module source texts
    ops     : list of [op, design_index, top_name]
        "c"  compile `top` of the history's module object of that design (exec'd on first use)
        "f"  re-exec the source (new module / new class objects), then compile `top`
        "a"  compile the very same class object that was compiled last for (design, top)
             once more (if there was none: load and compile it twice)
    an optional 4th element holds compile OPTIONS of the public entry points:
        {"reserved": [names]}  -> additional_reserved_names=set(names)
        {"api": "string" | "library" | "dir"}  -> VhdlCompiler.to_string / to_vhdl_library().write() / to_dir
        {"hold": n}   -> n small objects are alive during the operation (history event like "gc")
        {"gc": true}  -> gc.collect() before the operation (not a compile option: frees the cyclic garbage of
                         earlier compilations, so that object addresses are reused)
executed in the current interpreter.  Every compile is classified only as accepted (VHDL
text) or rejected (exception of cohdl); expectations live elsewhere.

The module-level compiler state named in the property anchors is *observed* after every
operation (`dirty` = names of the state items that do not have their import-time value).
`sanitize()` puts those items back to their import-time value; the check calls it at the
start of a case so that a case does not inherit the wreckage of the previous case of the
same worker process (the verdict of a case is then a function of the case).
"""
from __future__ import annotations

import contextlib
import gc
import hashlib
import io
import json
import linecache
import os
import re
import shutil
import sys
import tempfile
import types


# ----------------------------------------------------------------------------- loader
def load(source: str):
    """exec module source; module/file name are a function of the source text only, so that
    a design has the same names in every interpreter and for every re-exec."""
    h = hashlib.sha256(source.encode()).hexdigest()[:12]
    name = f"c11design_{h}"
    fn = f"<c11:{h}>"
    linecache.cache[fn] = (len(source), None, source.splitlines(True), fn)
    mod = types.ModuleType(name)
    mod.__file__ = fn
    sys.modules[name] = mod
    exec(compile(source, fn, "exec"), mod.__dict__)
    return mod


# ----------------------------------------------------------------------------- state monitor
def _state_items():
    """name -> (getter, is_clean, reset).  Only items listed in the property anchors."""
    import cohdl._compiler.frontend._generate_ir as gen_ir
    import cohdl._compiler.frontend._prepare_ast as prep
    import cohdl._core._context as cctx
    import cohdl._core._ir._repr as irrepr
    import cohdl.std._context as sctx
    import cohdl.std._prefix as spre

    G = gen_ir.IrGenerator
    P = spre._Prefix

    def clear_list(lst):
        del lst[:]

    def reset_block_stack():
        clear_list(cctx._block_stack)
        clear_list(prep._block_stack)

    def reset_converter():
        prep._active_converter_instance = None
        cctx._set_entity_instantiation_handler(None)
        cctx._on_register_inline_entity(None)

    def reset_ctx():
        sctx._current_context = None
        sctx._current_context_data = None

    return {
        "StatemachineContext._singleton": (
            lambda: irrepr.StatemachineContext._singleton is None,
            lambda: setattr(irrepr.StatemachineContext, "_singleton", None)),
        "_block_stack": (
            lambda: len(cctx._block_stack) == 0 and len(prep._block_stack) == 0,
            reset_block_stack),
        "_inline_declared_entities": (
            lambda: len(prep._inline_declared_entities) == 0,
            lambda: setattr(prep, "_inline_declared_entities", [])),
        "_active_converter_instance": (
            lambda: prep._active_converter_instance is None and cctx._entity_instantiation_handler is None,
            reset_converter),
        "_parent_frame": (
            lambda: prep._parent_frame is None,
            lambda: setattr(prep, "_parent_frame", None)),
        "_return_stack": (
            lambda: len(prep._return_stack._stack) == 0,
            lambda: clear_list(prep._return_stack._stack)),
        "_Prefix._prefix_scope": (
            lambda: len(P._prefix_scope) == 0,
            lambda: clear_list(P._prefix_scope)),
        "std._current_context": (
            lambda: sctx._current_context is None and sctx._current_context_data is None,
            reset_ctx),
        "IrGenerator.returned_blocks": (
            lambda: len(G.returned_blocks) == 0,
            lambda: setattr(G, "returned_blocks", [])),
        "IrGenerator._break_result": (
            lambda: len(G._break_result) == 0,
            lambda: setattr(G, "_break_result", [])),
        "IrGenerator._continue_result": (
            lambda: len(G._continue_result) == 0,
            lambda: setattr(G, "_continue_result", [])),
    }


_ITEMS = None


def state_dirty() -> list[str]:
    global _ITEMS
    if _ITEMS is None:
        _ITEMS = _state_items()
    return [n for n, (clean, _) in _ITEMS.items() if not clean()]


def sanitize() -> list[str]:
    """Reset the monitored items that are dirty; returns their names."""
    dirty = state_dirty()
    for n in dirty:
        _ITEMS[n][1]()
    left = state_dirty()
    if left:
        raise RuntimeError(f"c11_exec.sanitize: could not reset {left}")
    return dirty


def _hold(n):
    """n live objects owned by the program during a compilation: instances of the public `cohdl.Block`
    (the kind of object the compiler itself creates and frees per compilation)"""
    if n <= 0:
        return []
    import cohdl

    return [cohdl.Block("held", {}) for _ in range(n)]


# ----------------------------------------------------------------------------- compile
def _emit(cls, opts):
    """Call the public compile entry point selected by the options; returns the emitted text."""
    from cohdl import std

    kw = {}
    if opts.get("reserved") is not None:
        kw["additional_reserved_names"] = set(opts["reserved"])
    api = opts.get("api", "string")
    if api == "string":
        return std.VhdlCompiler.to_string(cls, **kw)
    if api == "library":
        return str(std.VhdlCompiler.to_vhdl_library(cls, **kw).write())
    if api == "dir":
        tmp = tempfile.mkdtemp(prefix="cv_c11_dir_")
        try:
            files = std.VhdlCompiler.to_dir(cls, os.path.join(tmp, "out"), mkdir=True, **kw)
            parts = []
            for f in files:
                with open(f) as fh:
                    parts.append(f"-- file {os.path.basename(f)}\n{fh.read()}")
            return "".join(parts)
        finally:
            shutil.rmtree(tmp, ignore_errors=True)
    raise ValueError(f"unknown api {api!r}")


def _compile(cls, opts=None):
    """-> {"ok": True, "vhdl": str} | {"ok": False, "exc": type name, "msg": str, "where": str}"""
    buf = io.StringIO()
    try:
        with contextlib.redirect_stdout(buf), contextlib.redirect_stderr(buf):
            text = _emit(cls, opts or {})
        return {"ok": True, "vhdl": text}
    except (KeyboardInterrupt, SystemExit, RecursionError, MemoryError):
        raise
    except Exception as e:  # noqa: BLE001 - any exception of cohdl = rejected
        return _rejected(e)


def _rejected(e):
    where = ""
    tb = e.__traceback__
    while tb is not None:
        f = tb.tb_frame.f_code.co_filename
        if "/cohdl/" in f:
            where = f"{f.rsplit('/cohdl/', 1)[1]}:{tb.tb_frame.f_code.co_name}"
        tb = tb.tb_next
    return {"ok": False, "exc": type(e).__name__, "msg": str(e)[:600], "where": where}


def _load_rejectable(src):
    buf = io.StringIO()
    try:
        with contextlib.redirect_stdout(buf), contextlib.redirect_stderr(buf):
            return load(src), None
    except (KeyboardInterrupt, SystemExit, RecursionError, MemoryError):
        raise
    except Exception as e:  # noqa: BLE001 - class creation may already be refused by cohdl
        r = _rejected(e)
        r["at_load"] = True
        return None, r


def run_history(designs: list[str], ops: list[list], monitor: bool = True):
    """Execute the operations in this interpreter.  One result dict per op (see _compile),
    extended by "dirty": monitored state items that are not clean *after* the op, and
    "dirtied": the items that became dirty *by* this op."""
    mods = {}  # design index -> module (the history's object)
    last = {}  # (design index, top) -> class object compiled last
    keep = []  # every module stays alive for the whole history (no id()/cache reuse effects)
    results = []
    before = set(state_dirty()) if monitor else set()
    for entry in ops:
        op, di, top = entry[0], entry[1], entry[2]
        opts = entry[3] if len(entry) > 3 else None
        if opts and opts.get("gc"):
            gc.collect()  # part of the history: garbage of earlier compilations is freed before this one
        # part of the history: the program owns n more small live objects while this compilation runs
        # (shifts which freed addresses the compilation's own objects are given)
        pad = _hold(int(opts.get("hold", 0))) if opts else []
        src = designs[di]
        res = None
        if op == "f" or (op == "c" and di not in mods) or (op == "a" and (di, top) not in last):
            mod, res = _load_rejectable(src)
            if mod is not None:
                mods[di] = mod
                keep.append(mod)
        if res is None:
            if op == "a" and (di, top) in last:
                cls = last[(di, top)]
                res = _compile(cls, opts)
            elif op == "a":
                cls = getattr(mods[di], top)
                first = _compile(cls, opts)
                res = _compile(cls, opts)
                res["first_of_two"] = {k: v for k, v in first.items() if k != "vhdl"}
                if first["ok"] and res["ok"] and first["vhdl"] != res["vhdl"]:
                    res["first_vhdl"] = first["vhdl"]
            elif op in ("c", "f"):
                cls = getattr(mods[di], top)
                res = _compile(cls, opts)
            else:
                raise ValueError(f"unknown op {op!r}")
            last[(di, top)] = cls
        del pad
        if monitor:
            now = set(state_dirty())
            res["dirty"] = sorted(now)
            res["dirtied"] = sorted(now - before)
            before = now
        results.append(res)
    return results


# ----------------------------------------------------------------------------- message classes
_NUM = re.compile(r"\d+")
_QUOTED = re.compile(r"'[^']*'|\"[^\"]*\"")


def msg_class(res) -> str:
    """Short, value-free class of a rejection: exception type + message skeleton."""
    first = (res.get("msg") or "").strip().splitlines()[0:1]
    text = first[0] if first else ""
    text = re.sub(r"c11design_[0-9a-f]+", "MODULE", text)  # generated module names are not part of the class
    text = _QUOTED.sub("'*'", text)
    text = _NUM.sub("N", text)
    text = re.sub(r"\s+", " ", text).strip()
    return f"{res.get('exc', '?')}: {text[:70]}"


# ----------------------------------------------------------------------------- child process
def _child_main():
    req = json.loads(sys.stdin.read())
    out = run_history(req["designs"], req["ops"], monitor=True)
    sys.__stdout__.write("\n@@C11@@" + json.dumps(out) + "\n")
    sys.__stdout__.flush()


if __name__ == "__main__":
    _child_main()
