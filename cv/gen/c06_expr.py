"""C06 generator B: expression / cast shapes with benign names.

case = {"g": "B",
        "outs": [{"k": kind, "w": width, "ctx": "conc"|"seq", "st": statement shape, "e": expr, "e2": expr|None,
                  "c": bool expr|None, "sel": {...}|None}],
        "extra": [features: "arr", "enum", "sub", "var"],
        "stim": [[...], ...]}

expr = ["p", port] | ["lit", value] | [op, operands...]; rendered to cohdl Python by `render`.
Expression trees are built by construction from the *documented* result kinds (+,-: max width; *: sum; @: concat;
shifts keep the left width; comparisons give bool); whatever cohdl refuses anyway is status `rejected`.
"""
from __future__ import annotations

from hypothesis import strategies as st

# input ports: name -> (kind, width)
PORTS = {
    "ia": ("bit", 1), "ib": ("bit", 1),
    "v4": ("bv", 4), "v8": ("bv", 8),
    "u2": ("u", 2), "u4": ("u", 4), "u8": ("u", 8),
    "s3": ("s", 3), "s4": ("s", 4), "s8": ("s", 8),
}
TY = {"bit": "Bit", "bv": "BitVector[{w}]", "u": "Unsigned[{w}]", "s": "Signed[{w}]", "bool": "bool", "int": "int"}


def ty(kind, w):
    return TY[kind].format(w=w)


def _ports_of(kind, w=None):
    return [p for p, (k, pw) in PORTS.items() if k == kind and (w is None or pw == w)]


# ---------------------------------------------------------------------------------------- expression strategy
def expr(kind, w, depth):
    """strategy for an expression tree of the given kind/width"""
    return st.deferred(lambda: _expr(kind, w, depth))


def _split(w):
    return st.integers(1, w - 1).map(lambda a: (a, w - a))


def _expr(kind, w, depth):
    leaves = []
    if kind == "bit":
        leaves = [st.sampled_from(_ports_of("bit")).map(lambda p: ["p", p]),
                  st.tuples(st.sampled_from(["v4", "v8", "u4", "u8", "s4", "s8"]), st.integers(0, 3)).map(lambda t: ["idx", ["p", t[0]], t[1]]),
                  st.sampled_from(["'0'", "'1'"]).map(lambda s: ["bitlit", s])]
    elif kind in ("bv", "u", "s"):
        exact = _ports_of(kind, w)
        if exact:
            leaves.append(st.sampled_from(exact).map(lambda p: ["p", p]))
        wider = [p for p, (k, pw) in PORTS.items() if k in ("bv", "u", "s") and pw >= w]
        # a slice of any vector port, cast to the wanted kind
        leaves.append(st.tuples(st.sampled_from(wider), st.integers(0, 7)).map(
            lambda t: _cast(kind, ["slice", ["p", t[0]], min(t[1], PORTS[t[0]][1] - w) + w - 1, min(t[1], PORTS[t[0]][1] - w)], "bv")))
        other = [p for p, (k, pw) in PORTS.items() if k in ("bv", "u", "s") and k != kind and pw == w]
        if other:
            leaves.append(st.sampled_from(other).map(lambda p: _cast(kind, ["p", p], PORTS[p][0])))
        if kind in ("u", "s"):
            lo, hi = (0, (1 << w) - 1) if kind == "u" else (-(1 << (w - 1)), (1 << (w - 1)) - 1)
            leaves.append(st.integers(lo, hi).map(lambda v: ["tlit", kind, w, v]))
    elif kind == "bool":
        leaves = [st.tuples(st.sampled_from(["==", "!="]), st.sampled_from(_ports_of("bit")), st.sampled_from(_ports_of("bit"))).map(
            lambda t: ["cmp", t[0], ["p", t[1]], ["p", t[2]]])]
    elif kind == "int":
        return st.integers(0, 7).map(lambda v: ["lit", v])
    if depth <= 0:
        return st.one_of(*leaves)
    d = depth - 1
    rec = []
    if kind == "bit":
        rec = [st.tuples(st.sampled_from(["&", "|", "^"]), expr("bit", 1, d), expr("bit", 1, d)).map(lambda t: ["bin", t[0], t[1], t[2]]),
               expr("bit", 1, d).map(lambda e: ["inv", e]),
               st.tuples(st.sampled_from(["v4", "u4", "s4", "v8", "u8"]), expr("u", 2, d)).map(lambda t: ["dynidx", ["p", t[0]], t[1]]),
               st.tuples(expr("bool", 1, d), expr("bit", 1, d), expr("bit", 1, d)).map(lambda t: ["ifexp", t[0], t[1], t[2]])]
    elif kind == "bv":
        rec = [st.tuples(st.sampled_from(["&", "|", "^"]), expr("bv", w, d), expr("bv", w, d)).map(lambda t: ["bin", t[0], t[1], t[2]]),
               expr("bv", w, d).map(lambda e: ["inv", e]),
               st.sampled_from(["u", "s"]).flatmap(lambda k: expr(k, w, d).map(lambda e: _cast("bv", e, k)))]
        if w >= 2:
            rec.append(_split(w).flatmap(lambda ab: st.tuples(
                st.sampled_from(["bv", "u", "s", "bit"] if ab[0] == 1 else ["bv", "u", "s"]).flatmap(lambda k: expr(k, ab[0], d)),
                st.sampled_from(["bv", "u", "bit"] if ab[1] == 1 else ["bv", "u", "s"]).flatmap(lambda k: expr(k, ab[1], d)),
            )).map(lambda t: ["concat", t[0], t[1]]))
    elif kind in ("u", "s"):
        narrower = st.integers(max(1, w - 3), w)
        ilit = st.integers(0, min(7, (1 << (w - 1)) - 1 if kind == "s" else (1 << w) - 1)).map(lambda v: ["lit", v])
        rec = [
            st.tuples(st.sampled_from(["+", "-"]), expr(kind, w, d), narrower.flatmap(lambda n: expr(kind, n, d))).map(lambda t: ["bin", t[0], t[1], t[2]]),
            st.tuples(st.sampled_from(["+", "-"]), narrower.flatmap(lambda n: expr(kind, n, d)), expr(kind, w, d)).map(lambda t: ["bin", t[0], t[1], t[2]]),
            st.tuples(st.sampled_from(["+", "-"]), expr(kind, w, d), ilit).map(lambda t: ["bin", t[0], t[1], t[2]]),
            st.tuples(st.sampled_from(["+", "-"]), ilit, expr(kind, w, d)).map(lambda t: ["bin", t[0], t[1], t[2]]),
            st.tuples(st.sampled_from(["&", "|", "^"]), expr(kind, w, d), expr(kind, w, d)).map(lambda t: ["bin", t[0], t[1], t[2]]),
            expr(kind, w, d).map(lambda e: ["inv", e]),
            expr(kind, w, d).map(lambda e: ["neg", e]),
            st.tuples(st.sampled_from(["<<", ">>"]), expr(kind, w, d), st.one_of(st.integers(0, 3).map(lambda v: ["lit", v]), expr("u", 2, d))).map(
                lambda t: ["bin", t[0], t[1], t[2]]),
            st.sampled_from(["bv", "s" if kind == "u" else "u"]).flatmap(lambda k: expr(k, w, d).map(lambda e: _cast(kind, e, k))),
            st.tuples(expr("bool", 1, d), expr(kind, w, d), expr(kind, w, d)).map(lambda t: ["ifexp", t[0], t[1], t[2]]),
        ]
        if w >= 2:
            rec.append(_split(w).flatmap(lambda ab: st.tuples(expr(kind, ab[0], d), expr(kind, ab[1], d))).map(lambda t: ["bin", "*", t[0], t[1]]))
            rec.append(st.tuples(st.sampled_from(["//", "%"]), expr(kind, w, d), expr(kind, w, d)).map(lambda t: ["bin", t[0], t[1], t[2]]))
        if kind == "s":
            rec.append(expr("s", w, d).map(lambda e: ["abs", e]))
    elif kind == "bool":
        vk = st.sampled_from([("u", 4), ("s", 4), ("u", 8), ("u", 2), ("s", 3)])
        rec = [
            st.tuples(st.sampled_from(["==", "!=", "<", "<=", ">", ">="]), vk).flatmap(
                lambda t: st.tuples(st.just(t[0]), expr(t[1][0], t[1][1], d), st.one_of(expr(t[1][0], t[1][1], d), st.integers(0, 3).map(lambda v: ["lit", v])))).map(
                lambda t: ["cmp", t[0], t[1], t[2]]),
            st.tuples(st.sampled_from(["==", "!="]), expr("bv", 4, d), expr("bv", 4, d)).map(lambda t: ["cmp", t[0], t[1], t[2]]),
            st.tuples(st.sampled_from(["and", "or"]), expr("bool", 1, d), expr("bool", 1, d)).map(lambda t: ["bool2", t[0], t[1], t[2]]),
            expr("bool", 1, d).map(lambda e: ["not", e]),
            st.sampled_from([("bit", 1), ("u", 4), ("s", 4), ("bv", 4)]).flatmap(lambda t: expr(t[0], t[1], d)).map(lambda e: ["truth", e]),
        ]
    return st.one_of(*(leaves + rec + rec))


def _cast(kind, e, from_kind):
    if kind == from_kind:
        return e
    return ["cast", kind, e]


# ---------------------------------------------------------------------------------------- statements
@st.composite
def cases(draw, mode=0):
    n = draw(st.integers(1, 3))
    outs = []
    for i in range(n):
        kind = draw(st.sampled_from(["bit", "bv", "u", "s", "u", "s"]))
        w = 1 if kind == "bit" else draw(st.sampled_from([2, 3, 4, 4, 5, 8, 8]))
        ctx = draw(st.sampled_from(["conc", "conc", "seq", "seq", "comb"]))
        shape = draw(st.sampled_from(["assign", "assign", "if", "selw", "selw", "match", "widen", "local", "arr", "enum", "sub"] if kind != "bit"
                                     else ["assign", "if", "selw", "match", "local"]))
        depth = draw(st.integers(1, 3 if mode < 2 else 2))
        o = {"k": kind, "w": w, "ctx": ctx, "st": shape, "e": draw(expr(kind, w, depth))}
        if shape == "if":
            o["c"] = draw(expr("bool", 1, 1))
            o["e2"] = draw(expr(kind, w, 1))
        elif shape in ("selw", "match"):
            sk = draw(st.sampled_from([("u", 2), ("bv", 2), ("s", 3), ("bit", 1), ("u", 4)] if shape == "selw" else [("u", 2), ("bv", 2), ("s", 3), ("u", 4)]))
            o["sel"] = {"k": sk[0], "w": sk[1], "e": draw(expr(sk[0], sk[1], 1)),
                        "keys": draw(st.lists(st.integers(0, (1 << sk[1]) - 1), min_size=1, max_size=(1 << sk[1]), unique=True)),
                        "default": draw(st.booleans())}
            if draw(st.integers(0, 3)) == 0:
                # the same choice value a second time (Python: first one wins): other key object / repeated pattern
                o["sel"]["dup"] = True
            if draw(st.integers(0, 3)) == 0:
                # selector = element of an array signal, whole or sliced
                hi = draw(st.integers(0, 3))
                lo = draw(st.integers(0, hi))
                whole = draw(st.booleans())
                ek = draw(st.sampled_from(["u", "s", "bv"]))
                o["sel"].update({"arr": {"ek": ek, "ix": draw(st.integers(0, 3)), "hi": hi, "lo": lo, "whole": whole},
                                 "k": ek if whole else "bv", "w": 4 if whole else hi - lo + 1})
                o["sel"]["keys"] = sorted({k & ((1 << o["sel"]["w"]) - 1) for k in o["sel"]["keys"]})
            o["e2"] = draw(expr(kind, w, 1))
        elif shape == "widen":
            nw = draw(st.integers(1, w))
            o["e"] = draw(expr(kind if kind != "bv" else "u", nw, depth))
            o["from"] = [kind if kind != "bv" else "u", nw]
            if kind == "bv":
                o["k"] = "u"
            elif kind == "s" and draw(st.booleans()) and nw < w:
                o["e"] = draw(expr("u", nw, depth))
                o["from"] = ["u", nw]
        elif shape == "local":
            o["lq"] = draw(st.sampled_from(["Signal", "Variable"])) if ctx != "conc" else "Signal"
        elif shape == "arr":
            o["ix"] = draw(st.one_of(st.integers(0, 3).map(lambda v: ["lit", v]), expr("u", 2, 1)))
            o["ix2"] = draw(st.one_of(st.integers(0, 3).map(lambda v: ["lit", v]), expr("u", 2, 1)))
        elif shape == "enum":
            o["e2"] = draw(expr(kind, w, 1))
        if ctx == "seq" and draw(st.integers(0, 3)) == 0:
            o["alw"] = "expr" if shape in ("assign", "widen") and draw(st.booleans()) else "block"
        outs.append(o)
    stim = draw(st.lists(st.lists(st.integers(0, 255), min_size=len(PORTS), max_size=len(PORTS)), min_size=2, max_size=3))
    return {"g": "B", "outs": outs, "stim": stim}


# ---------------------------------------------------------------------------------------- render
def rx(e):
    t = e[0]
    if t == "p":
        return f"self.{e[1]}"
    if t == "lit":
        return str(e[1])
    if t == "bitlit":
        return f"Bit({e[1][1]})"
    if t == "tlit":
        return f"{ty(e[1], e[2])}({e[3]})"
    if t == "idx":
        w = _width_of(e[1])
        return f"{rx(e[1])}[{e[2] % w}]"
    if t == "dynidx":
        return f"{rx(e[1])}[{rx(e[2])}]"
    if t == "slice":
        return f"{rx(e[1])}[{e[2]}:{e[3]}]"
    if t == "cast":
        return f"({rx(e[2])}).{ {'bv': 'bitvector', 'u': 'unsigned', 's': 'signed'}[e[1]] }"
    if t == "bin":
        return f"({rx(e[2])} {e[1]} {rx(e[3])})"
    if t == "inv":
        return f"(~{rx(e[1])})"
    if t == "neg":
        return f"(-{rx(e[1])})"
    if t == "abs":
        return f"abs({rx(e[1])})"
    if t == "concat":
        return f"({rx(e[1])} @ {rx(e[2])})"
    if t == "cmp":
        return f"({rx(e[2])} {e[1]} {rx(e[3])})"
    if t == "bool2":
        return f"({rx(e[2])} {e[1]} {rx(e[3])})"
    if t == "not":
        return f"(not {rx(e[1])})"
    if t == "truth":
        return f"bool({rx(e[1])})"
    if t == "ifexp":
        return f"({rx(e[2])} if {rx(e[1])} else {rx(e[3])})"
    raise AssertionError(t)


def _width_of(e):
    if e[0] == "p":
        return PORTS[e[1]][1]
    return 4


def kinds_of(e, acc):
    t = e[0]
    if t == "bin":
        acc.add({"+": "add", "-": "sub", "*": "mul", "//": "div", "%": "mod", "&": "and", "|": "or", "^": "xor", "<<": "shl", ">>": "shr"}[e[1]])
        if e[2][0] == "lit" or e[3][0] == "lit":
            acc.add("int_operand")
    elif t == "cast":
        acc.add("cast_" + e[1])
    elif t in ("inv", "neg", "abs", "concat", "cmp", "not", "truth", "ifexp", "slice", "idx", "dynidx", "tlit", "bool2"):
        acc.add(t)
    for x in e[1:]:
        if isinstance(x, list) and x and isinstance(x[0], str):
            kinds_of(x, acc)
    return acc


def op_kinds(case):
    acc = set()
    for o in case["outs"]:
        kinds_of(o["e"], acc)
        for key in ("e2", "c", "ix", "ix2"):
            if o.get(key):
                kinds_of(o[key], acc)
        if o.get("sel"):
            kinds_of(o["sel"]["e"], acc)
            if o["sel"].get("dup"):
                acc.add("sel_dup")
            if o["sel"].get("arr"):
                acc.add("sel_arr")
        if o["st"] != "assign":
            acc.add("st_" + o["st"])
        acc.add("ctx_" + o["ctx"])
        if o.get("alw"):
            acc.add("always_" + o["alw"])
    return sorted(acc)


def render(case):
    L = []
    w = L.append
    w("from __future__ import annotations")
    w("import cohdl")
    w("from cohdl import std, Bit, BitVector, Unsigned, Signed, Port, Signal, Variable, Entity, Array, enum, Null, select_with")
    w("")
    outs = case["outs"]
    need_enum = any(o["st"] == "enum" for o in outs)
    need_sub = any(o["st"] == "sub" for o in outs)
    if need_enum:
        w("class Mode(enum.Enum):")
        w("    first = enum.auto()")
        w("    second = enum.auto()")
        w("    third = enum.auto()")
        w("")
    subs = {}
    for i, o in enumerate(outs):
        if o["st"] == "sub":
            t = ty(o["k"], o["w"])
            if t not in subs:
                nm = f"Sub{len(subs)}"
                subs[t] = nm
                w(f"class {nm}(Entity):")
                w(f"    din = Port.input({t})")
                w(f"    dout = Port.output({t})")
                w("    def architecture(self):")
                w("        @std.concurrent")
                w("        def logic():")
                w("            self.dout <<= ~self.din" if o["k"] != "bit" else "            self.dout <<= self.din")
                w("")
    w("class Top(Entity):")
    w("    clk = Port.input(Bit)")
    for p, (k, pw) in PORTS.items():
        w(f"    {p} = Port.input({ty(k, pw)})")
    for i, o in enumerate(outs):
        w(f"    o{i} = Port.output({ty(o['k'], o['w'])})")
    w("")
    w("    def architecture(self):")
    pre = []
    conc = []
    seq = []
    comb = []
    alw = []
    for i, o in enumerate(outs):
        octx = "conc" if o.get("alw") == "block" else o["ctx"]  # an always-block is rendered like a concurrent context
        body = alw if o.get("alw") == "block" else conc if octx == "conc" else seq if octx == "seq" else comb
        tgt = f"self.o{i}"
        shape = o["st"]
        e = rx(o["e"])
        t = ty(o["k"], o["w"])
        if shape in ("assign", "widen"):
            body.append(f"{tgt} <<= cohdl.always({e})" if o.get("alw") == "expr" else f"{tgt} <<= {e}")
        elif shape == "if":
            if octx != "conc":
                body += [f"if {rx(o['c'])}:", f"    {tgt} <<= {e}", "else:", f"    {tgt} <<= {rx(o['e2'])}"]
            else:
                body.append(f"{tgt} <<= {e} if {rx(o['c'])} else {rx(o['e2'])}")
        elif shape in ("selw", "match"):
            s = o["sel"]
            if s.get("arr"):
                a = s["arr"]
                pre.append(f"selmem{i} = Signal[Array[{ty(a['ek'], 4)}, 4]]()")
                body.append(f"selmem{i}[self.u2] <<= self.{ {'u': 'u4', 's': 's4', 'bv': 'v4'}[a['ek']] }")
                selx = f"selmem{i}[{a['ix']}]" + ("" if a["whole"] else f"[{a['hi']}:{a['lo']}]")
            else:
                selx = rx(s["e"])
            if shape == "match" and octx != "conc":
                body.append(f"match {selx}:")
                pats = [_pat(s, k) for k in s["keys"]]
                if s.get("dup"):
                    pats.append(pats[0])
                for n, pt in enumerate(pats):
                    body += [f"    case {pt}:", f"        {tgt} <<= {e if n == 0 else rx(o['e2'])}"]
                body += ["    case _:", f"        {tgt} <<= {rx(o['e2'])}"]
            else:
                items = [f"{_key(s, k)}: {e if n == 0 else rx(o['e2'])}" for n, k in enumerate(s["keys"])]
                if s.get("dup"):
                    items.append(f"{_key2(s, s['keys'][0])}: {rx(o['e2'])}")
                dflt = f", default={rx(o['e2'])}" if s["default"] else ""
                body.append(f"{tgt} <<= select_with({selx}, {{{', '.join(items)}}}{dflt})")
        elif shape == "local":
            if o.get("lq") == "Variable":
                body += [f"loc{i} = Variable[{t}]({e})", f"{tgt} <<= loc{i}"]
            elif octx != "conc":
                body += [f"loc{i} = Signal[{t}]({e})", f"{tgt} <<= loc{i}"]
            else:
                pre.append(f"loc{i} = Signal[{t}]()")
                body += [f"loc{i}.next = {e}", f"{tgt} <<= loc{i}"]
        elif shape == "arr":
            pre.append(f"mem{i} = Signal[Array[{t}, 4]]()")
            body += [f"mem{i}[{rx(o['ix'])}] <<= {e}", f"{tgt} <<= mem{i}[{rx(o['ix2'])}]"]
        elif shape == "enum":
            pre.append(f"mode{i} = Signal[Mode](Mode.first)")
            if octx == "seq":
                body += [f"if mode{i} == Mode.first:", f"    mode{i}.next = Mode.second", f"    {tgt} <<= {e}",
                         f"elif mode{i} == Mode.second:", f"    mode{i}.next = Mode.third", "else:", f"    mode{i}.next = Mode.first",
                         f"    {tgt} <<= {rx(o['e2'])}"]
            else:
                pre.append(f"@std.sequential(std.Clock(self.clk))\ndef step{i}():\n    mode{i}.next = Mode.third if mode{i} == Mode.first else Mode.first")
                body.append(f"{tgt} <<= {e} if mode{i} == Mode.third else {rx(o['e2'])}")
        elif shape == "sub":
            pre.append(f"din{i} = Signal[{t}]()")
            pre.append(f"{subs[t]}(din=din{i}, dout={tgt})")
            body.append(f"din{i}.next = {e}")
        else:
            raise AssertionError(shape)
    for ln in pre:
        for l2 in ln.split("\n"):
            w("        " + l2)
    if conc:
        w("        @std.concurrent")
        w("        def logic():")
        for ln in conc:
            w("            " + ln)
    if seq or alw:
        w("        @std.sequential(std.Clock(self.clk))")
        w("        def proc():")
        for ln in seq:
            w("            " + ln)
        if alw:
            # statements of the same sequential context that are evaluated continuously (emitted next to the process)
            w("            with cohdl.always:")
            for ln in alw:
                w("                " + ln)
    if comb:
        # sequential context without trigger: process whose sensitivity list is inferred from the signals it reads
        w("        @std.sequential")
        w("        def comb():")
        for ln in comb:
            w("            " + ln)
    return "\n".join(L) + "\n", "Top", {}


def _pat(s, k):
    """literal pattern of a match statement"""
    if s["k"] == "bv":
        return repr(format(k, "0%db" % s["w"]))
    if s["k"] == "s":
        return str(k - (1 << s["w"]) if k >= (1 << (s["w"] - 1)) else k)
    return str(k)


def _key2(s, k):
    """a second key object with the same value as _key(s, k) (different Python object, so the dict keeps both)"""
    if s["k"] == "bit":
        return repr(str(k & 1))
    if s["k"] == "bv":
        return repr(format(k, "0%db" % s["w"]))
    if s["k"] == "s":
        return f"Signed[{s['w']}]({k - (1 << s['w']) if k >= (1 << (s['w'] - 1)) else k})"
    return f"Unsigned[{s['w']}]({k})"


def _key(s, k):
    if s["k"] == "bit":
        return f"Bit({k & 1})"
    if s["k"] == "bv":
        return f"BitVector[{s['w']}]({format(k, '0%db' % s['w'])!r})"
    if s["k"] == "s":
        return str(k - (1 << s["w"]) if k >= (1 << (s["w"] - 1)) else k)
    return str(k)
