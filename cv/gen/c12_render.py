"""C12 - render a HierSpec to two Python modules: the hierarchical design and the flat one.

Both modules share the leaf logic helpers `logic_<leaf>(port, ...)`; the hierarchical module
wraps each helper in an Entity, the flat module calls it in a context of `Top` on the very
objects the instantiation would have been given (the Python expressions of the actuals,
composed through the levels of the tree).
"""
from __future__ import annotations

VIEW_ATTR = {"u": "unsigned", "s": "signed", "bv": "bitvector"}
KCLS = {"u": "Unsigned", "s": "Signed", "bv": "BitVector"}

HEADER = """from __future__ import annotations
import cohdl
from cohdl import std, Bit, BitVector, Unsigned, Signed, Port, Signal


def _asg(dst, src):
    dst <<= src

"""


def width(ty):
    return 1 if ty[0] == "bit" else ty[1]


def ty_src(ty):
    return "Bit" if ty[0] == "bit" else f"{KCLS[ty[0]]}[{ty[1]}]"


def _lit(ty, v):
    if ty[0] == "bit":
        return f"Bit({v})"
    k, w = ty
    if k == "bv":
        return f'BitVector[{w}]("{v:0{w}b}")'
    if k == "s" and v >> (w - 1):
        v -= 1 << w
    return f"{KCLS[k]}[{w}]({v})"


def expr_src(e):
    op = e[0]
    if op == "p":
        return e[1]
    if op == "lit":
        return _lit(e[1], e[2])
    if op == "sl":
        return f"{expr_src(e[1])}[{e[2]}:{e[3]}]"
    if op == "ix":
        return f"{expr_src(e[1])}[{e[2]}]"
    if op == "view":
        return f"({expr_src(e[2])}).{VIEW_ATTR[e[1]]}"
    if op == "cat":
        return f"({expr_src(e[1])} @ {expr_src(e[2])})"
    if op == "not":
        return f"(~{expr_src(e[1])})"
    sym = {"and": "&", "or": "|", "xor": "^", "add": "+", "sub": "-", "addc": "+", "subc": "-",
           "lt": "<", "le": "<=", "gt": ">", "ge": ">=", "eq": "==", "ne": "!="}[op]
    rhs = str(e[2]) if op in ("addc", "subc") else expr_src(e[2])
    return f"({expr_src(e[1])} {sym} {rhs})"


def leaf_args(t):
    """argument order of the logic helper: declaration order without clk."""
    return [p["name"] for p in t["ports"] if p["name"] != "clk"]


def render_helpers(spec):
    out = []
    for t in spec["templates"]:
        if t["kind"] != "leaf":
            continue
        out.append(f"def logic_{t['name']}({', '.join(leaf_args(t))}):")
        for oname, e in t["assigns"]:
            out.append(f"    {oname} <<= {expr_src(e)}")
        out.append("")
    return "\n".join(out) + "\n"


def _default_lit(ty, d):
    if ty[0] == "bit":
        return "True" if d else "False"
    if ty[0] == "bv":
        return f'"{d:0{ty[1]}b}"'
    return str(d - (1 << ty[1]) if ty[0] == "s" and d >> (ty[1] - 1) else d)


def _port_decl(p):
    dflt = f", default={_default_lit(p['ty'], p['default'])}" if p.get("default") is not None else ""
    return f"    {p['name']} = Port.{'input' if p['dir'] == 'in' else 'output'}({ty_src(p['ty'])}{dflt})"


def act_src(act, roots):
    s = roots[act["root"]]
    sl = act.get("sl")
    if sl is not None:
        s += f"[{sl[0]}]" if len(sl) == 1 else f"[{sl[0]}:{sl[1]}]"
    if act.get("view"):
        s += "." + VIEW_ATTR[act["view"]]
    op = act.get("op")
    if op:
        sym = {"xor": "^", "and": "&", "or": "|", "addc": "+", "lt": "<", "eq": "=="}[op[0]]
        s = f"({s} {sym} {op[1] if op[0] == 'addc' else act_src(op[1], roots)})"
        psl = act.get("psl")
        if psl is not None:
            s += f"[{psl[0]}]" if len(psl) == 1 else f"[{psl[0]}:{psl[1]}]"
        if act.get("pview"):
            s += "." + VIEW_ATTR[act["pview"]]
    return s


def sig_decl(var, s, name):
    d = s.get("default")
    if d is None:
        return f"        {var} = Signal[{ty_src(s['ty'])}](name=\"{name}\")"
    ty = s["ty"]
    if ty[0] == "bit":
        lit = "True" if d else "False"
    elif ty[0] == "bv":
        lit = f'"{d:0{ty[1]}b}"'
    else:
        lit = str(d - (1 << ty[1]) if ty[0] == "s" and d >> (ty[1] - 1) else d)
    return f"        {var} = Signal[{ty_src(ty)}]({lit}, name=\"{name}\")"


def regs_ctx(t, roots, fname):
    """the clocked context that updates the parent-owned registers of a node"""
    regs = t.get("regs") or []
    if not regs:
        return []
    rst = f", std.Reset({roots['rst']})" if regs[0]["rst"] else ""
    out = [f"        @std.sequential(std.Clock({roots['clk']}){rst})", f"        def {fname}():"]
    for r in regs:
        asg = f"_asg({roots[r['name']]}, {act_src(r['src'], roots)})"
        if r["en"] is not None:
            out.append(f"            if {act_src(r['en'], roots)}:")
            out.append("                " + asg)
        else:
            out.append("            " + asg)
    return out


# ------------------------------------------------------------------------------ hierarchical
def render_hier(spec, def_order=None):
    T = spec["templates"]
    out = [HEADER, render_helpers(spec)]
    order = def_order if def_order is not None else range(len(T))
    for ti in order:
        t = T[ti]
        out.append(f"class {t['name']}(cohdl.Entity):")
        for p in t["ports"]:
            out.append(_port_decl(p))
        out.append("")
        out.append("    def architecture(self):")
        if t["kind"] == "leaf":
            args = ", ".join(f"self.{a}" for a in leaf_args(t))
            out.append("        @std.sequential(std.Clock(self.clk))" if t["seq"] else "        @std.concurrent")
            out.append("        def logic():")
            out.append(f"            logic_{t['name']}({args})")
            out.append("")
            continue
        roots = {p["name"]: f"self.{p['name']}" for p in t["ports"]}
        for s in t["signals"]:
            out.append(sig_decl(s["name"], s, s["name"]))
            roots[s["name"]] = s["name"]
        out += regs_ctx(t, roots, "regs")
        glue = []
        for k, inst in enumerate(t["insts"]):
            child = T[inst["t"]]
            ctor = {"none": child["name"], "open": f"std.OpenEntity[{child['name']}]",
                    "conn": f"std.ConnectedEntity[{child['name']}]"}[inst["helper"]]
            kw = ", ".join(f"{f}={act_src(inst['conn'][f], roots)}" for f in inst["order"])
            extra = [f"_asg(e{k}.{f}, {act_src(a, roots)})" for f, a in inst["pre"].items()]
            extra += [f"_asg({act_src(a, roots)}, e{k}.{f})" for f, a in inst["post"].items()]
            if inst["where"] == "arch":
                out.append(f"        e{k} = {ctor}({kw})")
                glue += extra
            else:
                out.append("        @std.concurrent")
                out.append(f"        def ctx{k}():")
                out.append(f"            e{k} = {ctor}({kw})")
                for l in extra:
                    out.append("            " + l)
        for dst, src in t["glue"]:
            glue.append(f"_asg({act_src(dst, roots)}, {act_src(src, roots)})")
        if glue:
            out.append("        @std.concurrent")
            out.append("        def glue():")
            for l in glue:
                out.append("            " + l)
        out.append("")
    return "\n".join(out) + "\n"


# ------------------------------------------------------------------------------ flat
def render_flat(spec):
    T = spec["templates"]
    top = T[spec["top"]]
    out = [HEADER, render_helpers(spec)]
    out.append("class Top(cohdl.Entity):")
    for p in top["ports"]:
        out.append(_port_decl(p))
    out.append("")
    out.append("    def architecture(self):")
    decls, ctxs = [], []
    counter = [0]

    def expand(ti, bind, pfx):
        """bind: port name -> Python expression of an object of exactly the port's type."""
        t = T[ti]
        n = counter[0]
        counter[0] += 1
        if t["kind"] == "leaf":
            args = ", ".join(bind[a] for a in leaf_args(t))
            ctxs.append(f"        @std.sequential(std.Clock({bind['clk']}))" if t["seq"] else "        @std.concurrent")
            ctxs.append(f"        def leaf{n}():")
            ctxs.append(f"            logic_{t['name']}({args})")
            return
        roots = dict(bind)
        for s in t["signals"]:
            v = f"{pfx}{s['name']}"
            decls.append(sig_decl(v, s, v))
            roots[s["name"]] = v
        ctxs.extend(regs_ctx(t, roots, f"regs{n}"))
        glue = []
        types = {p["name"]: p["ty"] for p in t["ports"]}
        types.update({s["name"]: s["ty"] for s in t["signals"]})
        for k, inst in enumerate(t["insts"]):
            child = T[inst["t"]]
            cbind = {}
            for p in child["ports"]:
                f = p["name"]
                if f in inst["conn"]:
                    act = inst["conn"][f]
                    src = act_src(act, roots)
                    aw = width(types[act["root"]]) if act.get("sl") is None else (1 if len(act["sl"]) == 1 else act["sl"][0] - act["sl"][1] + 1)
                    if act.get("op") and act["op"][0] in ("lt", "eq"):
                        aw = 1
                    if act.get("psl") is not None:
                        aw = 1 if len(act["psl"]) == 1 else act["psl"][0] - act["psl"][1] + 1
                    if aw == width(p["ty"]) and p.get("default") is None:
                        cbind[f] = src
                        continue
                    # width mismatch: the connection is the assignment in data-flow direction; a port with a default
                    # is an object of its own that starts with the default and is wired to the actual
                    v = f"{pfx}m{k}_{f}"
                    decls.append(sig_decl(v, p, v))
                    cbind[f] = v
                    glue.append(f"_asg({v}, {src})" if p["dir"] == "in" else f"_asg({src}, {v})")
                else:
                    v = f"{pfx}e{k}_{f}"
                    decls.append(sig_decl(v, p, v))
                    cbind[f] = v
                    if f in inst["pre"]:
                        glue.append(f"_asg({v}, {act_src(inst['pre'][f], roots)})")
                    else:
                        glue.append(f"_asg({act_src(inst['post'][f], roots)}, {v})")
            expand(inst["t"], cbind, f"{pfx}i{k}_")
        for dst, src in t["glue"]:
            glue.append(f"_asg({act_src(dst, roots)}, {act_src(src, roots)})")
        if glue:
            ctxs.append("        @std.concurrent")
            ctxs.append(f"        def glue{n}():")
            for l in glue:
                ctxs.append("            " + l)

    expand(spec["top"], {p["name"]: f"self.{p['name']}" for p in top["ports"]}, "f_")
    out += decls + ctxs
    out.append("")
    return "\n".join(out) + "\n"
