"""TypeSpec strategy and source renderer for property C17 (serialisation).

The TypeSpec grammar is documented in cv/ref/layout.py.  This module
  * draws TypeSpecs (Hypothesis),
  * renders a TypeSpec to Python source that defines the cohdl types (std.Record /
    std.Enum / BitField need class statements and string annotations), the functions
    `make(v)` (construct a value from a tree of leaf constants through the public
    constructors), `leaves(x)` (tuple of all leaf members of a value, element access
    through `get_elem(i, std.Value)`), `leaves_idx(x)` (same with `x[i]`), and the
    entities used for the traced (T) and simulated (S) observation levels.
It does not compute any expected value.
"""
from __future__ import annotations

from hypothesis import strategies as st

from cv.ref import layout as L

HEADER = """from __future__ import annotations
import cohdl
from cohdl import std, Bit, BitVector, Unsigned, Signed, Array, Null, Full, Port, Signal, Variable
from cohdl.std.bitfield import BitField, Field
"""

MAX_WIDTH = 160


# ------------------------------------------------------------------------------ strategy
def _vec():
    return st.builds(lambda k, w: {"k": k, "w": w}, st.sampled_from(["bv", "u", "s"]), st.integers(1, 5))


def _fixed():
    def mk(k, r, w):
        return {"k": k, "l": r + w - 1, "r": r}

    return st.builds(mk, st.sampled_from(["sfix", "ufix"]), st.integers(-3, 3), st.integers(1, 5))


def _enum():
    @st.composite
    def mk(draw):
        k = draw(st.sampled_from(["enum", "flag"]))
        u = {"k": draw(st.sampled_from(["bv", "u"])), "w": draw(st.integers(1, 4))}
        n = draw(st.integers(1, min(3, 1 << u["w"])))
        members = draw(st.lists(st.integers(0, (1 << u["w"]) - 1), min_size=n, max_size=n, unique=True))
        return {"k": k, "u": u, "members": members}

    return mk()


def _leaf():
    return st.one_of(st.just({"k": "bit"}), st.just({"k": "bool"}), _vec(), _vec(), _fixed(), _enum())


def _builtin_elem(depth):
    """element types a cohdl.Array accepts: Bit, vectors, nested cohdl.Array"""
    base = st.one_of(st.just({"k": "bit"}), _vec(), _vec())
    if depth <= 0:
        return base
    return st.one_of(base, base, _carr(depth - 1))


def _carr(depth):
    return st.builds(lambda e, n: {"k": "carr", "e": e, "n": n}, _builtin_elem(depth), st.integers(1, 3))


def _sarr(sub):
    return st.builds(lambda e, n: {"k": "sarr", "e": e, "n": n}, sub, st.integers(1, 3))


def _rec(sub):
    @st.composite
    def mk(draw):
        flavour = draw(st.sampled_from(["plain", "plain", "inherit", "inherit", "width", "pair", "type"]))
        nf = draw(st.integers(1, 3))
        if flavour == "plain":
            fields = [draw(sub) for _ in range(nf)]
            return _mkrec([], fields, None)
        if flavour == "inherit":
            nb = draw(st.integers(1, 2))
            base = [draw(sub) for _ in range(nb)]
            nd = draw(st.integers(0, 2))  # an empty derived class is legal (test_serialization)
            fields = [draw(sub) for _ in range(nd)]
            return _mkrec(base, fields, None)
        if flavour == "width":
            tw = draw(st.integers(1, 5))
            fields = []
            for i in range(nf):
                if i == 0 or draw(st.booleans()):
                    fields.append({"k": draw(st.sampled_from(["bv", "u", "s"])), "w": tw, "via": "w"})
                else:
                    fields.append(draw(sub))
            fields = draw(st.permutations(fields))
            return _mkrec([], fields, {"kind": "width", "w": tw})
        if flavour == "pair":
            args = [draw(sub), draw(sub)]
            fields = []
            for i in range(nf):
                c = draw(st.integers(0, 2)) if i else draw(st.integers(0, 1))
                fields.append(dict(args[c], via=f"a{c}") if c < 2 else draw(sub))
            return _mkrec([], fields, {"kind": "pair", "args": args})
        arg = draw(sub)
        fields = []
        for i in range(nf):
            if i == 0 or draw(st.booleans()):
                fields.append(dict(arg, via="t"))
            else:
                fields.append(draw(sub))
        fields = draw(st.permutations(fields))
        return _mkrec([], fields, {"kind": "type", "arg": arg})

    return mk()


def _mkrec(base, fields, tmpl):
    return {
        "k": "rec",
        "base": [[f"b{i}", s] for i, s in enumerate(base)],
        "fields": [[f"f{i}", s] for i, s in enumerate(fields)],
        "tmpl": tmpl,
    }


def typespec(depth: int, top=False):
    """TypeSpec of composite nesting depth <= depth"""
    if depth <= 0:
        return _leaf()
    sub = typespec(depth - 1)
    comp = st.one_of(_carr(depth - 1), _sarr(sub), _sarr(sub), _rec(sub), _rec(sub), _rec(sub))
    if top:
        ser = st.builds(lambda e: {"k": "ser", "e": e}, sub)
        return st.one_of(comp, comp, comp, comp, comp, comp, ser, _leaf())
    # nested Serialized is generated rarely: cohdl gives it no _count_bits_ (-> rejected)
    ser = st.builds(lambda e: {"k": "ser", "e": e}, _leaf())
    return st.one_of(_leaf(), comp, comp, comp, comp, comp, comp, comp, comp, comp, comp, comp, ser)


def bounded_typespec(depth, top=True):
    return typespec(depth, top).filter(lambda s: L.width(s) <= MAX_WIDTH)


def patterns_for(width: int, draws):
    """corner patterns + walking one / walking zero + drawn values (deduplicated)"""
    full = (1 << width) - 1
    alt = int(("01" * width)[:width], 2)
    pats = [0, full, alt, full ^ alt]
    step = max(1, width // 24)
    for i in range(0, width, step):
        pats.append(1 << i)
        pats.append(full ^ (1 << i))
    pats += [d & full for d in draws]
    seen = []
    for p in pats:
        if p not in seen:
            seen.append(p)
    return seen


@st.composite
def type_case(draw, depth=3):
    spec = draw(bounded_typespec(depth))
    w = L.width(spec)
    draws = draw(st.lists(st.integers(0, (1 << w) - 1), min_size=4, max_size=8))
    return {"kind": "type", "spec": spec, "draws": draws}


# ------------------------------------------------------------------------------ template base / derived pairs
def _plain_field():
    """member types that need no class definition (usable inside the prelude module)"""
    base = st.one_of(st.just({"k": "bit"}), st.just({"k": "bool"}), _vec(), _vec(), _fixed())
    return st.one_of(base, base, st.builds(lambda e, n: {"k": "carr", "e": e, "n": n}, st.one_of(st.just({"k": "bit"}), _vec()),
                                         st.integers(1, 3)),
                     st.builds(lambda e, n: {"k": "sarr", "e": e, "n": n}, base, st.integers(1, 3)))


@st.composite
def tmplpair_case(draw):
    """`class B(std.Record[ARG])`, `class E(B)` with extra members (derived without specialising), both
    specialised with the SAME argument in a drawn order, plus an Enum and a FlagEnum over one underlying type"""
    kind = draw(st.sampled_from(["width", "type"]))
    if kind == "width":
        tw = draw(st.integers(1, 6))
        tm = {"kind": "width", "w": tw}
        via = lambda: {"k": draw(st.sampled_from(["bv", "u", "s"])), "w": tw, "via": "w"}  # noqa: E731
    else:
        arg = draw(st.one_of(st.just({"k": "bit"}), _vec(), _fixed()))
        tm = {"kind": "type", "arg": arg}
        via = lambda: dict(arg, via="t")  # noqa: E731

    def fields(n, force):
        out = []
        for i in range(n):
            out.append(via() if (i == 0 and force) or draw(st.booleans()) else draw(_plain_field()))
        return draw(st.permutations(out))

    base = fields(draw(st.integers(1, 2)), True)
    ext = fields(draw(st.integers(1, 3)), False)
    uw = draw(st.integers(2, 5))
    en = {"u": {"k": draw(st.sampled_from(["bv", "u"])), "w": uw},
          "members": draw(st.lists(st.integers(0, (1 << uw) - 1), min_size=1, max_size=3, unique=True)),
          "first": draw(st.sampled_from(["enum", "flag"]))}
    draws = draw(st.lists(st.integers(0, (1 << 64) - 1), min_size=4, max_size=8))
    return {"kind": "tmplpair", "tmpl": tm, "base": [[f"b{i}", s] for i, s in enumerate(base)],
            "ext": [[f"f{i}", s] for i, s in enumerate(ext)], "first": draw(st.sampled_from(["base", "derived"])),
            "enum": en, "draws": draws}


@st.composite
def inherit_hist_case(draw):
    """chain of plain records C0 <- C1 (<- C2), every level adds >= 1 member, plus an aggregate record whose
    members are two chain classes in a drawn order; `order` = the order of FIRST serialisation (the layout is
    cached lazily per class, so the outcome may depend on this history)."""
    depth = draw(st.integers(2, 3))
    levels = [[draw(_plain_field()) for _ in range(draw(st.integers(1, 2)))] for _ in range(depth)]
    i, j = draw(st.permutations(list(range(depth))))[:2]
    items = [f"c{k}" for k in range(depth)] + ["agg"]
    order = draw(st.permutations(items))
    draws = draw(st.lists(st.integers(0, (1 << 64) - 1), min_size=4, max_size=8))
    return {"kind": "inherit_hist", "levels": [[[f"m{k}_{n}", fs] for n, fs in enumerate(lv)] for k, lv in enumerate(levels)],
            "agg": [i, j], "order": list(order), "draws": draws}


def render_inherit_prelude(case) -> str:
    """module defining the chain classes C0, C1, ... (no serialisation happens here)"""
    r = Renderer()
    body = [HEADER]
    for k, fields in enumerate(case["levels"]):
        parent = "std.Record" if k == 0 else f"C{k - 1}"
        body.append(f"class C{k}({parent}):\n" + "\n".join(f"    {n}: {r.texpr(fs)}" for n, fs in fields))
    assert not r.defs, "chain member types must not need class definitions"
    return "\n\n".join(body) + "\n"


def render_pair_prelude(case) -> str:
    """module defining the template declaration PB, the derived PE and their specialisations TB / TE"""
    tm = case["tmpl"]
    r = Renderer()
    if tm["kind"] == "width":
        pre = "class PA(int):\n    pass"
        inst = str(tm["w"])
        via = lambda fs: {"bv": "BitVector", "u": "Unsigned", "s": "Signed"}[fs["k"]] + "[PA]"  # noqa: E731
    else:
        pre = "PA = std.TemplateArg.Type"
        inst = r.texpr(tm["arg"])
        via = lambda fs: "PA"  # noqa: E731

    def lines(fields):
        return [f"    {n}: " + (via(fs) if fs.get("via") else r.texpr(fs)) for n, fs in fields]

    body = [HEADER, pre, "class PB(std.Record[PA]):\n" + "\n".join(lines(case["base"])),
            "class PE(PB):\n" + "\n".join(lines(case["ext"]))]
    spec_lines = [f"TB = PB[{inst}]", f"TE = PE[{inst}]"]
    body.append("\n".join(spec_lines if case["first"] == "base" else spec_lines[::-1]))
    assert not r.defs, "prelude member types must not need class definitions"
    return "\n\n".join(body) + "\n"


# ------------------------------------------------------------------------------ BitField strategy
@st.composite
def _bf(draw, width, depth):
    nf = draw(st.integers(1, 4))
    fields = []
    for i in range(nf):
        kinds = ["bit", "vec", "vec"] + (["sub", "sub"] if depth > 0 else [])
        t = draw(st.sampled_from(kinds))
        name = f"f{i}"
        if t == "bit":
            fields.append({"n": name, "t": "bit", "o": draw(st.integers(0, width - 1))})
        elif t == "vec":
            lo = draw(st.integers(0, width - 1))
            hi = draw(st.integers(lo, width - 1))
            fields.append({"n": name, "t": draw(st.sampled_from(["bv", "u", "s"])), "hi": hi, "lo": lo})
        else:
            sw = draw(st.integers(1, width))
            off = draw(st.integers(0, width - sw))
            sub = draw(_bf(sw, depth - 1))
            fields.append({"n": name, "t": "sub", "bf": sub, "o": off,
                           "form": draw(st.sampled_from(["int", "slice"]))})
    return {"k": "bf", "w": width, "fields": fields}


@st.composite
def bitfield_case(draw):
    width = draw(st.integers(1, 12))
    spec = draw(_bf(width, 2))
    draws = draw(st.lists(st.integers(0, (1 << width) - 1), min_size=4, max_size=8))
    wvals = draw(st.lists(st.integers(0, (1 << width) - 1), min_size=2, max_size=4))
    return {"kind": "bitfield", "spec": spec, "draws": draws, "wvals": wvals}


# ------------------------------------------------------------------------------ renderer
class Renderer:
    """TypeSpec -> class definitions + type expression + make/leaves expressions."""

    def __init__(self):
        self.defs: list[str] = []
        self.flags: list[str] = []  # class names of the std.FlagEnum / std.Enum types defined
        self.enums: list[str] = []
        self._n = 0

    def _name(self, p):
        self._n += 1
        return f"{p}{self._n}"

    # -- type expression ---------------------------------------------------------------
    def texpr(self, s) -> str:
        k = s["k"]
        if k == "bit":
            return "Bit"
        if k == "bool":
            return "bool"
        if k in ("bv", "u", "s"):
            return {"bv": "BitVector", "u": "Unsigned", "s": "Signed"}[k] + f"[{s['w']}]"
        if k == "carr":
            return f"Array[{self.texpr(s['e'])}, {s['n']}]"
        if k == "sarr":
            return f"std.Array[{self.texpr(s['e'])}, {s['n']}]"
        if k in ("sfix", "ufix"):
            return ("std.SFixed" if k == "sfix" else "std.UFixed") + f"[{s['l']}:{s['r']}]"
        if k == "ser":
            return f"std.Serialized[{self.texpr(s['e'])}]"
        if k in ("enum", "flag"):
            return self._enum(s)
        if k == "rec":
            return self._rec(s)
        if k == "bf":
            return self.bitfield(s)
        raise ValueError(k)

    def _cached(self, s, build):
        # one class per spec node: the same node must always map to the same class
        key = id(s)
        cache = self.__dict__.setdefault("_cache", {})
        if key not in cache:
            cache[key] = (s, build())
        return cache[key][1]

    def _enum(self, s):
        def build():
            name = self._name("E")
            u = s["u"]
            base = "std.Enum" if s["k"] == "enum" else "std.FlagEnum"
            lines = [f"class {name}({base}[{self.texpr(u)}]):"]
            for i, m in enumerate(s["members"]):
                lit = repr(format(m, f"0{u['w']}b")) if u["k"] == "bv" else str(m)
                lines.append(f"    m{i} = {lit}")
            self.defs.append("\n".join(lines))
            (self.flags if s["k"] == "flag" else self.enums).append(name)
            return name

        return self._cached(s, build)

    def _rec(self, s):
        def build():
            tm = s.get("tmpl")
            name = self._name("R")
            if s.get("ext"):
                # class defined by a module loaded earlier (template base / derived pairs)
                self.defs.append(f"from {s['ext']['module']} import {s['ext']['expr']} as {name}")
                return name
            if tm is None:
                if s.get("base"):
                    bname = name + "B"
                    lines = [f"class {bname}(std.Record):"]
                    lines += [f"    {n}: {self.texpr(fs)}" for n, fs in s["base"]]
                    self.defs.append("\n".join(lines))
                    lines = [f"class {name}({bname}):"]
                    lines += [f"    {n}: {self.texpr(fs)}" for n, fs in s["fields"]] or ["    pass"]
                    self.defs.append("\n".join(lines))
                else:
                    lines = [f"class {name}(std.Record):"]
                    lines += [f"    {n}: {self.texpr(fs)}" for n, fs in s["fields"]]
                    self.defs.append("\n".join(lines))
                return name
            kind = tm["kind"]
            if kind == "width":
                arg = name + "W"
                pre = [f"class {arg}(int):\n    pass"]
                inst = f"{name}[{tm['w']}]"
                via = {"w": lambda fs: {"bv": "BitVector", "u": "Unsigned", "s": "Signed"}[fs["k"]] + f"[{arg}]"}
            elif kind == "pair":
                arg = name + "P"
                a0, a1 = self.texpr(tm["args"][0]), self.texpr(tm["args"][1])
                pre = [f"@std.TemplateArg\nclass {arg}:\n    first: type\n    second: type"]
                inst = f"{name}[{a0}, {a1}]"
                via = {"a0": lambda fs: f"{arg}.first", "a1": lambda fs: f"{arg}.second"}
            else:
                arg = name + "T"
                a = self.texpr(tm["arg"])
                pre = [f"{arg} = std.TemplateArg.Type"]
                inst = f"{name}[{a}]"
                via = {"t": lambda fs: arg}
            lines = [f"class {name}(std.Record[{arg}]):"]
            for n, fs in s["fields"]:
                v = fs.get("via")
                lines.append(f"    {n}: " + (via[v](fs) if v else self.texpr(fs)))
            self.defs += pre
            self.defs.append("\n".join(lines))
            return inst

        return self._cached(s, build)

    # templated fields must resolve to the same class as the template argument
    def field_texpr(self, rec, fs):
        tm = rec.get("tmpl")
        v = fs.get("via")
        if tm and v in ("a0", "a1"):
            return self.texpr(tm["args"][int(v[1])])
        if tm and v == "t":
            return self.texpr(tm["arg"])
        return self.texpr(fs)

    def _fspec(self, rec, fs):
        """spec node whose class a field really has (template argument nodes are shared)"""
        tm = rec.get("tmpl")
        v = fs.get("via")
        if tm and v in ("a0", "a1"):
            return tm["args"][int(v[1])]
        if tm and v == "t":
            return tm["arg"]
        return fs

    # -- construction from a tree of leaf constants ------------------------------------
    STYLES = ("kw", "pos", "shuf", "mixed", "copy")

    def make(self, s, v: str, style: str = "kw") -> str:
        """construction expression from the tree `v` of leaf constants.  `style` = how every record
        in the tree is built: kw (keywords, declaration order), pos (all positional), shuf (keywords
        in reversed order), mixed (first half positional, rest keywords reversed), copy (copy
        constructor applied to the shuf form)."""
        k = s["k"]
        if k in ("bit", "bool", "bv", "u", "s"):
            return v
        if k in ("carr", "sarr"):
            elems = ", ".join(self.make(s["e"], f"{v}[{i}]", style) for i in range(s["n"]))
            if k == "carr":
                # std.Value[Array[..]](list): the constant array for constant elements, a Temporary for signals
                return f"std.Value[{self.texpr(s)}]([{elems}])"
            return f"{self.texpr(s)}([{elems}], _qualifier_=std.Value)"
        if k == "rec":
            T = self.texpr(s)
            parts = [(n, self.make(self._fspec(s, fs), f"{v}[{i}]", style)) for i, (n, fs) in enumerate(L.rec_fields(s))]
            kw = [f"{n}={e}" for n, e in parts]
            if style == "kw":
                return f"{T}({', '.join(kw)})"
            if style == "pos":
                return f"{T}({', '.join(e for _, e in parts)})"
            if style == "shuf":
                return f"{T}({', '.join(kw[::-1])})"
            if style == "mixed":
                h = (len(parts) + 1) // 2
                return f"{T}({', '.join([e for _, e in parts[:h]] + kw[h:][::-1])})"
            return f"{T}({T}({', '.join(kw[::-1])}))"
        if k in ("enum", "flag"):
            return f"{self.texpr(s)}._unsafe_init_({v})"
        if k in ("sfix", "ufix"):
            return f"{self.texpr(s)}(raw={v})"
        if k == "ser":
            return f"{self.texpr(s)}({self.make(s['e'], v, style)})"
        raise ValueError(k)

    def tree(self, s, x: str, mask=None):
        """(statements, expression): the value `x` taken apart into the nested list of leaf values that
        `make` accepts (used by the simulated level to rebuild a value through the constructors).  Leaves
        whose index (cv.ref.layout.leaf_table order) is in `mask` are replaced by the module level
        compile-time constant `MIX[index]`: a value mixing run-time and constant members."""
        stmts: list[str] = []
        counter = [0]
        leaf_no = [-1]
        mask = mask or ()

        def const_or(expr):
            leaf_no[0] += 1
            return f"MIX[{leaf_no[0]}]" if leaf_no[0] in mask else expr

        def tmp(expr):
            counter[0] += 1
            name = f"u{counter[0]}"
            stmts.append(f"{name} = {expr}")
            return name

        def walk(s, x):
            k = s["k"]
            if k in ("bit", "bool", "bv", "u", "s"):
                return const_or(x)
            if k == "sfix":
                return const_or(f"std.to_bits({x}).signed")
            if k == "ufix":
                return const_or(f"std.to_bits({x}).unsigned")
            if k == "carr":
                return "[" + ", ".join(walk(s["e"], f"{x}[{i}]") for i in range(s["n"])) + "]"
            if k == "sarr":
                return "[" + ", ".join(walk(s["e"], tmp(f"{x}.get_elem({i}, std.Value)")) for i in range(s["n"])) + "]"
            if k == "rec":
                return "[" + ", ".join(walk(self._fspec(s, fs), f"{x}.{n}") for n, fs in L.rec_fields(s)) + "]"
            if k in ("enum", "flag"):
                return walk(s["u"], f"{x}.raw")
            if k == "ser":
                return walk(s["e"], tmp(f"{x}.value()"))
            raise ValueError(k)

        e = walk(s, x)
        return stmts, e

    # -- leaf access ---------------------------------------------------------------------
    def leaves(self, s, x: str, idx=False, const: str | None = None):
        """(statements, [(expression, leaf spec)], [fixed-point equality expressions]).

        Leaves come in cv.ref.layout.leaf_table order.  Every std.Array element /
        Serialized value is bound to a local once (statements) instead of being
        deserialised again for each of its leaves.  With `const` (expression of the tree of
        reference leaf constants) the third list compares every fixed-point member with
        `T(raw=constant)` through the public `==`."""
        stmts: list[str] = []
        out: list[tuple[str, dict]] = []
        eqs: list[str] = []
        counter = [0]

        def tmp(expr):
            counter[0] += 1
            name = f"t{counter[0]}"
            stmts.append(f"{name} = {expr}")
            return name

        def walk(s, x, c):
            k = s["k"]
            if k in ("bit", "bool", "bv", "u", "s"):
                out.append((x, s))
            elif k in ("sfix", "ufix"):
                out.append((f"std.to_bits({x})", s))
                if c is not None:
                    eqs.append(f"({x} == {self.texpr(s)}(raw={c}))")
            elif k == "carr":
                for i in range(s["n"]):
                    walk(s["e"], f"{x}[{i}]", None if c is None else f"{c}[{i}]")
            elif k == "sarr":
                for i in range(s["n"]):
                    e = tmp(f"{x}[{i}]" if idx else f"{x}.get_elem({i}, std.Value)")
                    walk(s["e"], e, None if c is None else f"{c}[{i}]")
            elif k == "rec":
                for i, (n, fs) in enumerate(L.rec_fields(s)):
                    walk(self._fspec(s, fs), f"{x}.{n}", None if c is None else f"{c}[{i}]")
            elif k in ("enum", "flag"):
                walk(s["u"], f"{x}.raw", c)
            elif k == "ser":
                walk(s["e"], tmp(f"{x}.value()"), c)
            else:
                raise ValueError(k)

        walk(s, x, const)
        return stmts, out, eqs

    # -- BitField ------------------------------------------------------------------------
    def bitfield(self, s) -> str:
        def build():
            name = self._name("BF")
            lines = [f"class {name}(BitField[{s['w']}]):"]
            for f in s["fields"]:
                t = f["t"]
                if t == "bit":
                    lines.append(f"    {f['n']}: Field[{f['o']}]")
                elif t in ("bv", "u", "s"):
                    suffix = {"bv": "", "u": ".Unsigned", "s": ".Signed"}[t]
                    lines.append(f"    {f['n']}: Field[{f['hi']}:{f['lo']}]{suffix}")
                else:
                    sub = self.bitfield(f["bf"])
                    if f["form"] == "int":
                        lines.append(f"    {f['n']}: {sub}[{f['o']}]")
                    else:
                        lines.append(f"    {f['n']}: {sub}[{f['o'] + f['bf']['w'] - 1}:{f['o']}]")
            self.defs.append("\n".join(lines))
            return name

        return self._cached(s, build)


def _tuple(exprs):
    return "(" + "".join(e + ", " for e in exprs) + ")"


def leaf_port_type(leaf) -> str:
    k = leaf["k"]
    if k in ("bit", "bool"):
        return "Bit"
    if k in ("bv", "u", "s"):
        return {"bv": "BitVector", "u": "Unsigned", "s": "Signed"}[k] + f"[{leaf['w']}]"
    return f"BitVector[{L.width(leaf)}]"  # fixed point leaves are observed through std.to_bits


def render_type_module(spec) -> str:
    """module source: types, T, make, leaves, leaves_idx, fixed_eq, the traced entity TopT
    (level T) and the simulation entity Sim (level S)."""
    r = Renderer()
    top_ser = spec["k"] == "ser"
    T = r.texpr(spec)
    body = [HEADER]
    mk = r.make(spec, "v")
    multi = has_multi_record(spec)
    st_l, lv, _ = r.leaves(spec, "x")
    st_i, lvi, _ = r.leaves(spec, "x", idx=True)
    st_f, _, feq = r.leaves(spec, "x", const="v")
    body += r.defs
    body.append(f"T = {T}")
    if top_ser:
        body.append("INNER = T._elemtype_")
        body.append("def frombits(b):\n    return T.from_raw(b)")
        body.append("def tobits(x):\n    return x.bits()")
        body.append("def nbits():\n    return std.count_bits(INNER)")
        body.append("def nbits_inst(x):\n    return std.count_bits(x.value())")
    else:
        body.append("def frombits(b):\n    return std.from_bits[T](b)")
        body.append("def tobits(x):\n    return std.to_bits(x)")
        body.append("def nbits():\n    return std.count_bits(T)")
        body.append("def nbits_inst(x):\n    return std.count_bits(x)")
    body.append(f"def make(v):\n    return {mk}")
    # the other construction styles only differ for records with at least two members
    for st_name in Renderer.STYLES[1:]:
        body.append(f"def make_{st_name}(v):\n    return {r.make(spec, 'v', st_name) if multi else 'make(v)'}")
    body.append("STYLES = " + repr(list(Renderer.STYLES) if multi else ["kw"]))
    body.append("def make_any(k, v):\n"
                "    if k % 5 == 0:\n        return make_shuf(v)\n"
                "    elif k % 5 == 1:\n        return make_mixed(v)\n"
                "    elif k % 5 == 2:\n        return make_copy(v)\n"
                "    elif k % 5 == 3:\n        return make_pos(v)\n"
                "    return make(v)")
    st_t, tree_e = r.tree(spec, "x")
    body.append(_fn("tree(x)", st_t, tree_e))
    body.append(f"FLAGS = [{', '.join(r.flags)}]\nENUMS = [{', '.join(r.enums)}]")
    body.append(_fn("leaves(x)", st_l, _tuple(e for e, _ in lv)))
    body.append(_fn("leaves_idx(x)", st_i, _tuple(e for e, _ in lvi)))
    body.append(_fn("fixed_eq(x, v)", st_f if feq else [], _tuple(feq)))
    body.append(
        "PATS = []\nVALS = []\nRES = []\n"
        "@cohdl.pyeval\n"
        "def probe(*a):\n"
        "    RES.append(a)\n"
        "class TopT(cohdl.Entity):\n"
        "    o = Port.output(Bit)\n"
        "    def architecture(self):\n"
        "        @std.concurrent\n"
        "        def logic():\n"
        "            for k in range(len(PATS)):\n"
        "                x = frombits(PATS[k])\n"
        "                probe('a', k, nbits(), tobits(x), leaves(x))\n"
        "                y = make_any(k, VALS[k])\n"
        "                by = tobits(y)\n"
        "                probe('b', k, by, fixed_eq(x, VALS[k]))\n"
    )
    # values mixing run-time members with compile-time constants: even / odd leaves constant
    nleaf = len(lv)
    mix = nleaf >= 2
    body.append("MIX = []")
    if mix:
        for name, mask in (("tree_m0", set(range(0, nleaf, 2))), ("tree_m1", set(range(1, nleaf, 2)))):
            st_m, e_m = r.tree(spec, "x", mask)
            body.append(_fn(f"{name}(x)", st_m, e_m))
    body.append(_sim_entity(spec, st_l, lv))
    if multi or mix:
        # same entity plus m0 / m1 = to_bits(value rebuilt through the constructors with the even / odd leaves
        # replaced by constants; m1 with keywords in reversed order when a record has several members).  o2 (all
        # members run-time, keywords reversed) is only rendered when there is no mixed variant.
        body.append(_sim_entity(spec, st_l, lv, o2=multi and not mix, mix=mix, shuf=multi).replace("class Sim(", "class Sim2(", 1))
    return "\n\n".join(body) + "\n"


def _fn(sig, stmts, ret):
    return f"def {sig}:\n" + "".join(f"    {l}\n" for l in stmts) + f"    return {ret}"


def has_multi_record(spec) -> bool:
    """some record in the tree has at least two members (keyword order can matter)"""
    k = spec["k"]
    if k == "rec":
        fs = L.rec_fields(spec)
        return len(fs) >= 2 or any(has_multi_record(f) for _, f in fs)
    if k in ("carr", "sarr", "ser"):
        return has_multi_record(spec["e"])
    return False


def _sim_entity(spec, stmts, lv, o2=False, mix=False, shuf=False) -> str:
    multi = o2
    w = L.width(spec)
    lines = [
        "class Sim(cohdl.Entity):",
        f"    i = Port.input(BitVector[{w}])",
        f"    o1 = Port.output(BitVector[{w}])",
    ]
    if multi:  # value rebuilt through the constructors with keywords in reversed order
        lines.append(f"    o2 = Port.output(BitVector[{w}])")
    if mix:
        lines.append(f"    m0 = Port.output(BitVector[{w}])")
        lines.append(f"    m1 = Port.output(BitVector[{w}])")
    for n, (_, leaf) in enumerate(lv):
        lines.append(f"    l{n} = Port.output({leaf_port_type(leaf)})")
    lines += [
        "    def architecture(self):",
        "        @std.concurrent",
        "        def logic():",
        "            x = frombits(self.i)",
        "            self.o1 <<= tobits(x)",
    ]
    lines += [f"            {l}" for l in stmts]
    for n, (e, _) in enumerate(lv):
        lines.append(f"            self.l{n} <<= {e}")
    if multi:
        lines.append("            self.o2 <<= tobits(make_shuf(tree(x)))")
    if mix:
        lines.append("            self.m0 <<= tobits(make(tree_m0(x)))")
        lines.append(f"            self.m1 <<= tobits({'make_shuf' if shuf else 'make'}(tree_m1(x)))")
    return "\n".join(lines)


def render_sim_entity(spec) -> str:
    """Source text of a module whose entity `Sim` has input `i: BitVector[w]`, output
    `o1 = to_bits(from_bits[T](i))` and one output `l<k>` per leaf field (order and bit
    ranges: cv.ref.layout.leaf_table(spec)); for a BitField spec see
    render_bitfield_module (entity `Sim`: field reads `r<k>`, field writes `w<k>`)."""
    if spec["k"] == "bf":
        return render_bitfield_module(spec)
    return render_type_module(spec)


def render_bitfield_module(spec) -> str:
    r = Renderer()
    name = r.bitfield(spec)
    w = spec["w"]
    leaves = L.bf_leaves(spec)
    subs = L.bf_subs(spec)
    body = [HEADER] + r.defs
    body.append(f"T = {name}")
    body.append("def fields(x):\n    return " + _tuple("x." + ".".join(p) for p, *_ in leaves))
    body.append("def subfields(x):\n    return " + _tuple("x." + ".".join(p) for p, *_ in subs))
    body.append(
        "PATS = []\nRES = []\n"
        "@cohdl.pyeval\n"
        "def probe(*a):\n"
        "    RES.append(a)\n"
        "class TopT(cohdl.Entity):\n"
        "    o = Port.output(Bit)\n"
        "    def architecture(self):\n"
        "        @std.concurrent\n"
        "        def logic():\n"
        "            for k in range(len(PATS)):\n"
        "                x = T(PATS[k])\n"
        "                y = std.from_bits[T](PATS[k])\n"
        "                probe(k, std.count_bits(T), std.to_bits(x), fields(x), fields(y), std.to_bits(y))\n"
    )
    ptype = {"bit": "Bit", "bv": "BitVector", "u": "Unsigned", "s": "Signed"}
    lines = ["class Sim(cohdl.Entity):", f"    i = Port.input(BitVector[{w}])", f"    o1 = Port.output(BitVector[{w}])"]
    for n, (p, t, hi, lo) in enumerate(leaves):
        ty = "Bit" if t == "bit" else f"{ptype[t]}[{hi - lo + 1}]"
        lines.append(f"    r{n} = Port.output({ty})")
        lines.append(f"    v{n} = Port.input({ty})")
        lines.append(f"    w{n} = Port.output(BitVector[{w}])")
    lines += [
        "    def architecture(self):",
        "        @std.concurrent",
        "        def rd():",
        "            x = T(self.i)",
        "            self.o1 <<= std.to_bits(std.from_bits[T](self.i))",
    ]
    for n, (p, *_rest) in enumerate(leaves):
        lines.append(f"            self.r{n} <<= x.{'.'.join(p)}")
    lines += ["        @std.sequential", "        def wr():"]
    for n, (p, *_rest) in enumerate(leaves):
        lines.append(f"            t{n} = Variable[BitVector[{w}]](self.i)")
        lines.append(f"            b{n} = T(t{n})")
        lines.append(f"            b{n}.{'.'.join(p)} @= self.v{n}")
        lines.append(f"            self.w{n} <<= t{n}")
    body.append("\n".join(lines))
    return "\n\n".join(body) + "\n"
