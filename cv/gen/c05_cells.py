"""C05: enumeration of conversion cells, the decision table of the property statement, rendering to cohdl source.

cell = {"src": S, "tgt": T, "form": name, "qual": name}
  S  ["bit"] ["bool"] ["bv", m] ["u", m] ["s", m] ["Int", m] ["lit", value] ["Null"] ["Full"] ["str", text]
  T  ["bit"] ["bool"] ["bv", n] ["u", n] ["s", n]
Never imports cohdl.
"""
from __future__ import annotations

import itertools

TYPED = ("bit", "bool", "bv", "u", "s", "Int")
VEC = ("bv", "u", "s")

# forms the statement names explicitly ("compile-time errors in every assignment form (<<=, @=, ^=, .next/.value/
# .push, slices and elements)"); for the others (initialisation, port connection, merges) the first sentence applies:
# rejected or value preserved
VIEW_FORMS = tuple(f"{p}_{r}" for p in ("view", "vview", "sview") for r in ("bv", "u", "s"))
# view_<r>:  self.o.<view> <<= src   (o: output port of root kind r, the target type is the VIEW's type)
# vview_<r>: v.<view> @= src         (v: Variable of root kind r)
# sview_<r>: self.o[n:1].<view> <<= src   (view of a slice of a wider root)
EXPLICIT_FORMS = ("ilshift", "ilshift_conc", "imatmul", "ixor", "next", "value", "push", "slice_bv", "slice_u",
                  "slice_s", "elem_vec", "elem_arr") + VIEW_FORMS
VIEW_ATTR = {"u": "unsigned", "s": "signed", "bv": "bitvector"}

FORMS = ["ilshift", "ilshift_conc", "imatmul", "ixor", "next", "value", "push", "slice_bv", "slice_u", "slice_s",
         "elem_vec", "elem_arr", "init_signal", "init_variable", "port_in", "port_out", "ret_merge", "ifexp_merge"]
FORMS += list(VIEW_FORMS)
SEQ_ONLY_QUAL = ("variable",)


# ----------------------------------------------------------------------------- decision table (the statement)
def width(x):
    return x[1] if x[0] in VEC or x[0] == "Int" else 1


def classify(S, T):
    """-> 'accept' | 'reject' | 'unspec'   (accept = may be accepted, then the value must be preserved)"""
    sk, tk = S[0], T[0]
    if tk == "bit":
        if sk in ("bit", "bool", "Null", "Full"):
            return "accept"
        if sk == "lit":
            return "accept" if S[1] in (0, 1) else "reject"
        if sk == "str":
            return "accept" if S[1] in ("0", "1") else "unspec"
        if sk in VEC:
            return "reject"  # Bit <-> vector
        return "unspec"
    if tk == "bool":
        if sk in ("bit", "bool"):
            return "accept"
        if sk == "lit":
            return "accept" if S[1] in (0, 1) else "unspec"  # truth value of other ints: not classified
        if sk == "str":
            return "accept" if S[1] in ("0", "1") else "unspec"
        return "unspec"
    n = T[1]
    if sk in ("Null", "Full"):
        return "accept"
    if sk == "str":
        return "accept" if len(S[1]) == n else "reject"
    if sk == "bit":
        return "reject"  # Bit <-> vector
    if sk in ("bool", "Int"):
        return "unspec"
    if sk == "lit":
        if tk == "u":
            return "accept" if 0 <= S[1] < (1 << n) else "reject"
        if tk == "s":
            return "accept" if -(1 << (n - 1)) <= S[1] < (1 << (n - 1)) else "reject"
        return "unspec"
    m = S[1]
    if tk == "bv" or sk == "bv":
        return "accept" if m == n else "reject"  # equal width copies the bits, any width mismatch is an error
    if sk == tk:
        return "accept" if m <= n else "reject"  # extension / narrowing
    if sk == "u" and tk == "s":
        return "accept" if m < n else "reject"
    if sk == "s" and tk == "u":
        return "reject" if m >= n else "unspec"  # Signed -> wider Unsigned is not classified by the statement
    raise ValueError((S, T))


def src_domain(S):
    """bit patterns a typed source takes / the single pseudo value of an untyped one."""
    if S[0] in ("bit", "bool"):
        return [0, 1]
    if S[0] in VEC or S[0] == "Int":
        m = S[1]
        if m <= 6:
            return list(range(1 << m))
        top = (1 << m) - 1  # sampled: corners and a stride
        vals = {0, 1, 2, top, top - 1, 1 << (m - 1), (1 << (m - 1)) - 1, (1 << (m - 1)) + 1, top // 3, top - top // 3}
        vals.update(range(0, top + 1, max(1, (top + 1) // 48 + 1)))
        return sorted(vals)
    return [0]


def _signed(p, w):
    return p - (1 << w) if p >> (w - 1) else p


def convert(S, T, p):
    """expected target pattern (non-negative int, width(T) bits) of an accepted cell for source pattern p, or None
    where the statement does not determine it (unspec cells: the natural value, used for counting only)."""
    sk, tk = S[0], T[0]
    n = width(T)
    mask = (1 << n) - 1
    if sk in ("bit", "bool"):
        return p & 1 if tk in ("bit", "bool") else None
    if sk == "Null":
        return 0
    if sk == "Full":
        return mask
    if sk == "str":
        return int(S[1], 2) if len(S[1]) == n else None
    if sk == "lit":
        v = S[1]
        if tk in ("bit", "bool"):
            return v if v in (0, 1) else None
        if tk == "u":
            return v if 0 <= v <= mask else None
        if tk == "s":
            return v & mask if -(1 << (n - 1)) <= v < (1 << (n - 1)) else None
        return None
    if tk in ("bit", "bool"):
        return None
    m = S[1]
    if sk == "bv" or tk == "bv":
        return p if m == n else None
    num = _signed(p, m) if sk in ("s", "Int") else p
    lo, hi = (-(1 << (n - 1)), (1 << (n - 1)) - 1) if tk == "s" else (0, mask)
    if not lo <= num <= hi:
        return None
    return num & mask


# ----------------------------------------------------------------------------- enumeration
def sources(W, n):
    """source descriptors to pair with a target of width n (n None for bit/bool targets)."""
    out = [["bit"], ["bool"]]
    for k in VEC:
        for m in W:
            out.append([k, m])
    out.append(["Int", 3])
    w = n or 1
    lits = {0, 1, (1 << w) - 1, 1 << w, -1, -(1 << (w - 1)), (1 << (w - 1)) - 1, 1 << (w - 1), -(1 << (w - 1)) - 1, 2}
    for v in sorted(lits):
        out.append(["lit", v])
    out += [["Null"], ["Full"]]
    pat = "10110100" * 3
    for l in sorted({w, w + 1, max(1, w - 1)}):
        out.append(["str", pat[:l]])
    return out


def targets(W):
    out = [["bit"], ["bool"]]
    for k in VEC:
        for n in W:
            out.append([k, n])
    return out


def quals_for(S, form):
    if S[0] not in TYPED:
        return ["literal"]
    if form in VIEW_FORMS:
        q = ["port", "temp"]
    elif form in ("port_in", "port_out"):
        q = ["port", "signal"]
    elif form == "ilshift_conc":
        q = ["port", "signal", "temp", "const"]
    else:
        q = ["port", "signal", "variable", "temp", "const"]
    if S[0] == "Int":
        q = [x for x in q if x in ("signal", "temp")]
    if form == "port_out":
        q = ["port"]
    return q


def form_applies(form, S, T):
    if form in VIEW_FORMS:
        p, r = form.split("_")
        if T[0] not in VEC:
            return False
        if p != "view" and S[0] not in VEC:
            return False  # literal / Bit / Null ... sources only with the plain view target
        if p == "sview":
            return T[0] != "bv"
        return T[0] != r
    if form.startswith("slice_"):
        return T[0] == "bv"
    if form == "elem_vec":
        return T[0] == "bit"
    if form in ("port_in", "port_out"):
        return S[0] in TYPED and S[0] != "Int"
    return True


def cells(W, forms=None):
    out = []
    for T in targets(W):
        for S in sources(W, T[1] if len(T) > 1 else None):
            for form in forms or FORMS:
                if not form_applies(form, S, T):
                    continue
                for q in quals_for(S, form):
                    out.append({"src": S, "tgt": T, "form": form, "qual": q})
    return out


def cell_name(c):
    def nm(x):
        return x[0] + ("" if len(x) == 1 else f"[{x[1]}]")

    return f"{nm(c['src'])}->{nm(c['tgt'])}/{c['form']}/{c['qual']}"


# ----------------------------------------------------------------------------- rendering
def ty(x):
    k = x[0]
    return {"bit": "Bit", "bool": "bool", "Int": "int"}.get(k) or {"bv": "BitVector", "u": "Unsigned", "s": "Signed"}[k] + f"[{x[1]}]"


def const_values(S):
    d = src_domain(S)
    c = [d[0], d[-1], d[len(d) // 2], d[(len(d) - 1) // 3]]
    out = []
    for x in c:
        if x not in out:
            out.append(x)
    return out


def const_text(S, p):
    k = S[0]
    if k == "bit":
        return f"Bit({p})"
    if k == "bool":
        return "True" if p else "False"
    if k == "bv":
        return f'BitVector[{S[1]}]("' + format(p, f"0{S[1]}b") + '")'
    if k == "u":
        return f"Unsigned[{S[1]}]({p})"
    if k == "s":
        return f"Signed[{S[1]}]({_signed(p, S[1])})"
    raise ValueError(S)


class CellRender:
    """source fragments of one cell with index i inside a design.
    inputs  a<i> (source), c<i> / t<i> (merge forms);  output o<i> (+ o<i>_<k> for constant sources)."""

    def __init__(self, i, cell):
        self.i, self.c = i, cell
        self.S, self.T, self.form, self.qual = cell["src"], cell["tgt"], cell["form"], cell["qual"]
        self.consts = const_values(self.S) if self.qual == "const" else [None]

    # inputs: [(name, type text, bits)]
    def inputs(self):
        S, i = self.S, self.i
        out = []
        if S[0] in TYPED and self.qual != "const":
            if S[0] == "Int":
                out.append((f"a{i}", f"Signed[{S[1]}]", S[1]))
            else:
                out.append((f"a{i}", ty(S), width(S)))
        if self.form in ("ret_merge", "ifexp_merge"):
            out.append((f"c{i}", "Bit", 1))
            out.append((f"t{i}", ty(self.T), width(self.T)))
        return out

    def out_names(self):
        if self.qual == "const":
            return [f"o{self.i}_{k}" for k in range(len(self.consts))]
        return [f"o{self.i}"]

    def container(self):
        """(declared type of the output port, default text, (lo bit, n bits) observed)"""
        T, f = self.T, self.form
        n = width(T)
        if f.startswith("slice_") or f.startswith("sview_"):
            K = {"bv": "BitVector", "u": "Unsigned", "s": "Signed"}[f[6:]]
            return f"{K}[{n + 2}]", "Null", (1, n)
        if f in VIEW_FORMS:
            K = {"bv": "BitVector", "u": "Unsigned", "s": "Signed"}[f.split("_")[1]]
            return f"{K}[{n}]", None, (0, n)
        if f == "elem_vec":
            return "BitVector[3]", "Null", (1, 1)
        d = None
        if f in ("ixor", "push"):
            d = {"bit": "Bit(0)", "bool": "False"}.get(T[0], "Null")
        return ty(T), d, (0, n)

    def container_width(self):
        n = width(self.T)
        if self.form.startswith("slice_") or self.form.startswith("sview_"):
            return n + 2
        if self.form == "elem_vec":
            return 3
        return n

    def port_decls(self):
        L = [f"    {n} = Port.input({t})" for n, t, _ in self.inputs()]
        t, d, _ = self.container()
        for o in self.out_names():
            L.append(f"    {o} = Port.output({t}" + (f", default={d}" if d else "") + ")")
        return L

    def src_text(self, k=None):
        S, i, q = self.S, self.i, self.qual
        if S[0] == "lit":
            return f"({S[1]})"
        if S[0] in ("Null", "Full"):
            return S[0]
        if S[0] == "str":
            return f'"{S[1]}"'
        if q == "const":
            return f"k{i}_{k}"
        if q == "port":
            return f"self.a{i}"
        if q == "signal":
            return f"sg{i}"
        if q == "variable":
            return f"va{i}"
        if q == "temp":
            base = f"sg{i}" if S[0] == "Int" else f"self.a{i}"
            if S[0] in ("u", "s", "Int"):
                return f"({base} + 0)"
            if S[0] in ("bv", "bit"):
                return f"({base} & {base})"
            return f"(not (not {base}))"
        raise ValueError(q)

    def arch_decls(self):
        """lines in architecture scope before the contexts, lines of the helper concurrent block"""
        S, T, i, f = self.S, self.T, self.i, self.form
        decl, conc = [], []
        if self.qual == "const":
            for k, p in enumerate(self.consts):
                decl.append(f"        k{i}_{k} = {const_text(S, p)}")
        if self.qual == "signal" or (S[0] == "Int" and self.qual == "temp"):
            if S[0] == "Int":
                decl.append(f"        sg{i} = Signal[int](0)")
            else:
                decl.append(f"        sg{i} = Signal[{ty(S)}]()")
            conc.append(f"            sg{i}.next = self.a{i}")
        if self.qual == "variable":
            decl.append(f"        va{i} = Variable[{ty(S)}]()")
        if f in ("imatmul", "value"):
            for k in range(len(self.consts)):
                decl.append(f"        v{i}_{k} = Variable[{ty(T)}]()")
        if f.startswith("vview_"):
            for k in range(len(self.consts)):
                decl.append(f"        v{i}_{k} = Variable[{self.container()[0]}]()")
        if f == "elem_arr":
            for k in range(len(self.consts)):
                decl.append(f"        ar{i}_{k} = Signal[Array[{ty(T)}, 2]]()")
        return decl, conc

    def sub_entities(self):
        """module-level class definitions needed by the cell"""
        S, T, i, f = self.S, self.T, self.i, self.form
        if f == "port_in":
            P = ty(T)
        elif f == "port_out":
            P = ty(S)
        else:
            return []
        return ["", "", f"class Sub{i}(Entity):", f"    i = Port.input({P})", f"    o = Port.output({P})", "",
                "    def architecture(self):", "        @std.concurrent", "        def logic():",
                "            self.o <<= self.i"]

    def instances(self):
        i = self.i
        if self.form in ("port_in", "port_out"):
            return [f"        Sub{i}(i={self.src_text()}, o=self.o{i})"]
        return []

    def helpers(self):
        if self.form == "ret_merge":
            return ["", "", f"def helper{self.i}(c, x, y):", "    if c:", "        return x", "    else:", "        return y"]
        return []

    def nonlocals(self):
        if self.form == "imatmul":
            return [f"v{self.i}_{k}" for k in range(len(self.consts))]
        return []

    def statements(self):
        """lines inside the synthesizable context (12 spaces indentation)"""
        S, T, i, f = self.S, self.T, self.i, self.form
        L = [f"            probe({i})"]
        if f in ("port_in", "port_out"):
            return L
        if self.qual == "variable":
            L.append(f"            va{i}.value = self.a{i}")
        _, _, (lo, n) = self.container()
        for k, o in enumerate(self.out_names()):
            src = self.src_text(k)
            tgt = f"self.{o}"
            if f in ("ilshift", "ilshift_conc"):
                L.append(f"            {tgt} <<= {src}")
            elif f == "imatmul":
                L += [f"            v{i}_{k} @= {src}", f"            {tgt} <<= v{i}_{k}"]
            elif f == "ixor":
                L.append(f"            {tgt} ^= {src}")
            elif f == "next":
                L.append(f"            {tgt}.next = {src}")
            elif f == "value":
                L += [f"            v{i}_{k}.value = {src}", f"            {tgt} <<= v{i}_{k}"]
            elif f == "push":
                L.append(f"            {tgt}.push = {src}")
            elif f.startswith("slice_"):
                L.append(f"            {tgt}[{lo + n - 1}:{lo}] <<= {src}")
            elif f.startswith("view_"):
                L.append(f"            {tgt}.{VIEW_ATTR[T[0]]} <<= {src}")
            elif f.startswith("vview_"):
                L += [f"            v{i}_{k}.{VIEW_ATTR[T[0]]} @= {src}", f"            {tgt} <<= v{i}_{k}"]
            elif f.startswith("sview_"):
                L.append(f"            {tgt}[{lo + n - 1}:{lo}].{VIEW_ATTR[T[0]]} <<= {src}")
            elif f == "elem_vec":
                L.append(f"            {tgt}[1] <<= {src}")
            elif f == "elem_arr":
                L += [f"            ar{i}_{k}[1] <<= {src}", f"            {tgt} <<= ar{i}_{k}[1]"]
            elif f == "init_signal":
                L += [f"            x{i}_{k} = Signal[{ty(T)}]({src})", f"            {tgt} <<= x{i}_{k}"]
            elif f == "init_variable":
                L += [f"            x{i}_{k} = Variable[{ty(T)}]({src})", f"            {tgt} <<= x{i}_{k}"]
            elif f == "ret_merge":
                L.append(f"            {tgt} <<= helper{i}(self.c{i}, {src}, self.t{i})")
            elif f == "ifexp_merge":
                L.append(f"            {tgt} <<= ({src} if self.c{i} else self.t{i})")
            else:
                raise ValueError(f)
        return L


def render(cells_with_idx, top="Top"):
    """design source for [(i, cell)]"""
    rs = [CellRender(i, c) for i, c in cells_with_idx]
    L = ["from __future__ import annotations", "import cohdl",
         "from cohdl import Entity, Port, Bit, BitVector, Unsigned, Signed, Signal, Variable, Array, Null, Full, std",
         "", "SINK = []", "", "", "@cohdl.pyeval", "def probe(i):", "    SINK.append(i)"]
    for r in rs:
        L += r.helpers()
        L += r.sub_entities()
    L += ["", "", f"class {top}(Entity):", "    clk = Port.input(Bit)"]
    for r in rs:
        L += r.port_decls()
    L += ["", "    def architecture(self):"]
    conc = []
    for r in rs:
        d, c = r.arch_decls()
        L += d
        conc += c
    for r in rs:
        L += r.instances()
    if conc:
        L += ["", "        @std.concurrent", "        def drive():"] + conc
    cstm = [s for r in rs if r.form == "ilshift_conc" for s in r.statements()]
    sstm = [s for r in rs if r.form != "ilshift_conc" for s in r.statements()]
    if cstm:
        L += ["", "        @std.concurrent", "        def logic():"] + cstm
    if sstm:
        nl = [n for r in rs for n in r.nonlocals()]
        L += ["", "        @std.sequential(std.Clock(self.clk))", "        def proc():"]
        if nl:
            L.append("            nonlocal " + ", ".join(nl))
        L += sstm
    return "\n".join(L) + "\n"


def stimulus(cell):
    """[(inputs {suffix: pattern}, expected pattern | None)] over all source values (x merge inputs)."""
    S, T, f = cell["src"], cell["tgt"], cell["form"]
    dom = src_domain(S) if cell["qual"] != "const" else [None]
    out = []
    if f in ("ret_merge", "ifexp_merge"):
        tdom = src_domain(T)
        if len(dom) * len(tdom) > 512:  # wide operands (thorough tier): thin out the other branch's values
            tdom = tdom[::max(1, len(tdom) // 8)]
        for p, c, t in itertools.product(dom, (0, 1), tdom):
            out.append(({"a": p, "c": c, "t": t}, "src" if c else t))
    else:
        for p in dom:
            out.append(({"a": p}, "src"))
    return out
