"""C15: producer/consumer wrapper entities around std.SyncFlag / std.Mailbox[Unsigned[3]].

cfg = {"comp": "flag"|"mailbox", "tx": 0..3, "rx": 0..3, "form": "none"|"txrx"|"delay",
       "topo": "same"|"two", "style": "plain"|"coro", "send": "always"|"guarded", "order": "obs_first"|"act_first",
       "first": "prod"|"cons" (same context only: which side's code comes first),
       "xobs": bool (extra status observations: is_set()/is_clear() mirrored to outputs o_st_* before the decision call,
               between it and set()/clear() in source order, and after it),
       "uclear": bool (consumer additionally calls clear() without checking is_set(): on input force_clr in the plain
                 style, unconditionally one clock after every receive in the coro style)}

plain style (one decision per clock, no coroutine):
    producer: o_pclear <<= is_clear() ; if want_send [and is_clear()]: set()/send(payload) ; o_set pulse
    consumer: o_cset   <<= is_set()   ; if want_recv and is_set(): o_payload <<= data ; clear() ; o_clr pulse
coro style (the idiom of the docstrings):
    producer: await want_send ; set()/send(payload) ; o_set pulse ; await is_clear() ; o_pclear pulse
    consumer: await want_recv ; [o_payload <<=] await receive() ; o_clr pulse
"""
from __future__ import annotations

_HEAD = '''from __future__ import annotations
import cohdl
from cohdl import std, Bit, BitVector, Port, Unsigned, Signal, Null

'''


def ctor(cfg):
    form = cfg.get("form", "none")
    if form == "none":
        args = ""
    elif form == "delay":
        args = f"delay={cfg['tx']}"
    else:
        args = f"tx_delay={cfg['tx']}, rx_delay={cfg['rx']}"
    if cfg["comp"] == "flag":
        return f"std.SyncFlag({args})"
    return f"std.Mailbox[Unsigned[3]]({args})"


def render(cfg) -> str:
    mb = cfg["comp"] == "mailbox"
    s = _HEAD
    s += "class Top(cohdl.Entity):\n"
    s += "    clk = Port.input(Bit)\n    want_send = Port.input(Bit)\n    want_recv = Port.input(Bit)\n"
    s += "    payload = Port.input(Unsigned[3])\n    force_clr = Port.input(Bit)\n"
    s += "    o_fclr = Port.output(Bit, default=False)\n"
    for n in ("p0", "p1", "p2", "c0", "c1", "c2"):
        s += f"    o_st_{n} = Port.output(Bit, default=False)\n"
    s += "    o_pclear = Port.output(Bit, default=False)\n    o_set = Port.output(Bit, default=False)\n"
    s += "    o_cset = Port.output(Bit, default=False)\n    o_clr = Port.output(Bit, default=False)\n"
    s += "    o_payload = Port.output(Unsigned[3], default=Null)\n\n"
    s += "    def architecture(self):\n"
    s += f"        box = {ctor(cfg)}\n"
    s += "        ctx = std.SequentialContext(std.Clock(self.clk))\n\n"
    act = "box.send(self.payload)" if mb else "box.set()"
    if cfg["style"] == "plain":
        guard = "self.want_send and clr" if cfg["send"] == "guarded" else "self.want_send"
        late = cfg.get("order", "obs_first") == "act_first"
        # act_first: the exported observation comes from a call made *after* set()/clear() were traced in this
        # context (the component then knows the context's role and answers directly instead of through the
        # end-of-context "indirect" signal); the guard itself still has to be evaluated before the action
        if late and cfg["send"] == "always":
            prod = f"            if self.want_send:\n                {act}\n                self.o_set ^= True\n"
            prod += "            self.o_pclear <<= box.is_clear()\n"
        else:
            prod = "            clr = box.is_clear()\n"
            if not late:
                prod += "            self.o_pclear <<= clr\n"
            prod += f"            if {guard}:\n                {act}\n                self.o_set ^= True\n"
            if late:
                prod += "            self.o_pclear <<= box.is_clear()\n"
        xobs = bool(cfg.get("xobs"))
        # xobs: additional status observations (is_set()/is_clear() mirrored to outputs) before the decision call,
        # between it and the action, and after the action - several observer calls per context
        if xobs:
            prod = ("            self.o_st_p0 <<= box.is_set()\n" + prod.replace(
                f"            if {guard}:", f"            self.o_st_p1 <<= box.is_clear()\n            if {guard}:", 1)
                + "            self.o_st_p2 <<= box.is_set()\n")
        cons = "            seen = box.is_set()\n            self.o_payload <<= Null\n"
        if xobs:
            cons = "            self.o_st_c0 <<= box.is_clear()\n" + cons + "            self.o_st_c1 <<= box.is_set()\n"
        if not late:
            cons += "            self.o_cset <<= seen\n"
        cons += "            if self.want_recv and seen:\n"
        if mb:
            cons += "                self.o_payload <<= box.data()\n"
        cons += "                box.clear()\n                self.o_clr ^= True\n"
        if cfg.get("uclear"):
            # clear() NOT guarded by is_set(): documented as "no effect when it is already clear"
            cons += "            if self.force_clr:\n                box.clear()\n                self.o_fclr ^= True\n"
        if late:
            cons += "            self.o_cset <<= box.is_set()\n"
        if xobs:
            cons += "            self.o_st_c2 <<= box.is_clear()\n"
        if cfg["topo"] == "same":
            body = cons + prod if cfg.get("first", "prod") == "cons" else prod + cons
            s += "        @ctx\n        def proc():\n" + body
        else:
            s += "        @ctx\n        def producer():\n" + prod + "\n        @ctx\n        def consumer():\n" + cons
    else:
        s += "        @ctx\n        async def producer():\n"
        if cfg.get("xobs"):
            s += "            self.o_st_p0 <<= box.is_set()\n            self.o_st_p1 <<= box.is_clear()\n"
        s += f"            await self.want_send\n            {act}\n            self.o_set ^= True\n"
        s += "            await box.is_clear()\n            self.o_pclear ^= True\n\n"
        s += "        @ctx\n        async def consumer():\n"
        if cfg.get("xobs"):
            s += "            self.o_st_c0 <<= box.is_clear()\n            self.o_st_c1 <<= box.is_set()\n"
        s += "            await self.want_recv\n"
        if mb:
            s += "            self.o_payload <<= await box.receive()\n"
        else:
            s += "            await box.receive()\n"
        s += "            self.o_clr ^= True\n"
        if cfg.get("uclear"):
            # a second, unguarded clear in the clock after the receive (the flag is clear then: no effect)
            s += "            await std.tick()\n            box.clear()\n            self.o_fclr ^= True\n"
    return s
