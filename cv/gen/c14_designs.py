"""C14: wrapper entities around std.Fifo / std.Stack whose inputs are *requests*.

The wrapper applies the documented preconditions (no push when full, no pop when empty;
for the Stack at most one of push/pop/reset per clock) and exports what happened.
The popped-value / front ports are cleared to zero in clocks without a pop / while empty
(keeps the joint state space of the exploration small).
`full()`/`empty()` are called once per context and kept in a local.
"""
from __future__ import annotations

ELEMS = {
    "bv2": {"width": 2, "type": "BitVector[2]"},
    "u3": {"width": 3, "type": "Unsigned[3]"},
    "rec": {"width": 3, "type": "Rec"},
}

_HEAD = '''from __future__ import annotations
import cohdl
from cohdl import std, Bit, BitVector, Port, Unsigned, Signal, Null


class Rec(std.Record):
    a: Bit
    b: BitVector[2]

'''


def elem_width(elem):
    return ELEMS[elem]["width"]


def _to_elem(elem, src):
    if elem == "bv2":
        return src
    if elem == "u3":
        return f"{src}.unsigned"
    return f"Rec(a={src}[0], b={src}[2:1])"


def _assign_out(elem, port, val, ind, tmp="_r"):
    sp = " " * ind
    if elem == "bv2":
        return f"{sp}{port} <<= {val}\n"
    if elem == "u3":
        return f"{sp}{port} <<= {val}.bitvector\n"
    return f"{sp}{tmp} = {val}\n{sp}{port}[0] <<= {tmp}.a\n{sp}{port}[2:1] <<= {tmp}.b\n"


def fifo_ctor(cfg):
    T = ELEMS[cfg["elem"]]["type"]
    form = cfg.get("form", "none")
    if form == "none":
        args = ""
    elif form == "delay":
        args = f"delay={cfg['tx']}"
    else:
        args = f"tx_delay={cfg['tx']}, rx_delay={cfg['rx']}"
    return f"std.Fifo[{T}, {cfg['N']}]({args})"


def render_fifo(cfg) -> str:
    e = cfg["elem"]
    w = elem_width(e)
    delayed = cfg.get("form", "none") != "none"
    s = _HEAD
    s += "class Top(cohdl.Entity):\n"
    s += "    clk = Port.input(Bit)\n    push_req = Port.input(Bit)\n    pop_req = Port.input(Bit)\n"
    s += f"    data = Port.input(BitVector[{w}])\n"
    s += "    o_empty = Port.output(Bit)\n    o_full = Port.output(Bit)\n"
    s += f"    o_front = Port.output(BitVector[{w}])\n"
    s += f"    o_pop = Port.output(BitVector[{w}], default=Null)\n"
    s += "    o_popv = Port.output(Bit, default=False)\n    o_pushed = Port.output(Bit, default=False)\n"
    s += "    o_full_p = Port.output(Bit, default=True)\n    o_empty_c = Port.output(Bit, default=True)\n\n"
    s += "    def architecture(self):\n"
    s += f"        fifo = {fifo_ctor(cfg)}\n"
    s += "        ctx = std.SequentialContext(std.Clock(self.clk))\n\n"
    if not delayed:
        s += "        @std.concurrent\n        def logic():\n"
        s += "            self.o_empty <<= fifo.empty()\n            self.o_full <<= fifo.full()\n"
        s += _assign_out(e, "self.o_front", "fifo.front()", 12)
        s += "\n"
    else:
        # the combined view is only meaningful without delays; keep the ports driven
        s += "        @std.concurrent\n        def logic():\n"
        s += "            self.o_empty <<= False\n            self.o_full <<= False\n            self.o_front <<= Null\n\n"
    late = cfg.get("obs", "first") == "last"
    # obs=last: the exported full/empty indication comes from a second call made after push()/pop() were traced in
    # the context (direct answer for a known sender/receiver context instead of the end-of-context indirect signal)
    prod = "            is_full = fifo.full()\n"
    if not late:
        prod += "            self.o_full_p <<= is_full\n"
    prod += "            if self.push_req and not is_full:\n"
    prod += f"                fifo.push({_to_elem(e, 'self.data')})\n                self.o_pushed ^= True\n"
    if late:
        prod += "            self.o_full_p <<= fifo.full()\n"
    cons = "            self.o_pop <<= Null\n            is_empty = fifo.empty()\n"
    if not late:
        cons += "            self.o_empty_c <<= is_empty\n"
    cons += "            if self.pop_req and not is_empty:\n"
    cons += _assign_out(e, "self.o_pop", "fifo.pop()", 16)
    cons += "                self.o_popv ^= True\n"
    if late:
        cons += "            self.o_empty_c <<= fifo.empty()\n"
    if cfg["ctx"] == "one":
        s += "        @ctx\n        def proc():\n" + prod + cons
    else:
        s += "        @ctx\n        def producer():\n" + prod + "\n"
        s += "        @ctx\n        def consumer():\n" + cons
    return s


def render_stack(cfg) -> str:
    e = cfg["elem"]
    w = elem_width(e)
    T = ELEMS[e]["type"]
    n = cfg["N"]
    sw = n.bit_length()
    drop = cfg["mode"] == "DROP_OLD"
    s = _HEAD
    s += "class Top(cohdl.Entity):\n"
    s += "    clk = Port.input(Bit)\n    push_req = Port.input(Bit)\n    pop_req = Port.input(Bit)\n"
    s += f"    reset_req = Port.input(Bit)\n    data = Port.input(BitVector[{w}])\n"
    s += "    o_empty = Port.output(Bit)\n    o_full = Port.output(Bit)\n"
    s += f"    o_size = Port.output(Unsigned[{sw}])\n"
    s += f"    o_front = Port.output(BitVector[{w}], default=Null)\n    o_frontv = Port.output(Bit, default=False)\n"
    s += f"    o_pop = Port.output(BitVector[{w}], default=Null)\n"
    s += "    o_popv = Port.output(Bit, default=False)\n    o_pushed = Port.output(Bit, default=False)\n"
    s += "    o_reset = Port.output(Bit, default=False)\n\n"
    s += "    def architecture(self):\n"
    s += f"        stack = std.Stack[{T}, {n}](mode=std.StackMode.{cfg['mode']})\n"
    s += "        ctx = std.SequentialContext(std.Clock(self.clk))\n\n"
    s += "        @std.concurrent\n        def logic():\n"
    s += "            self.o_empty <<= stack.empty()\n            self.o_full <<= stack.full()\n"
    s += "            self.o_size <<= stack.size()\n\n"
    s += "        @ctx\n        def proc():\n"
    s += "            self.o_pop <<= Null\n            self.o_front <<= Null\n"
    s += "            if not stack.empty():\n"
    s += _assign_out(e, "self.o_front", "stack.front()", 16, "_rf")
    s += "                self.o_frontv ^= True\n"
    guard = "self.push_req" if drop else "self.push_req and not stack.full()"
    s += f"            if {guard}:\n"
    s += f"                stack.push({_to_elem(e, 'self.data')})\n                self.o_pushed ^= True\n"
    s += "            elif self.pop_req and not stack.empty():\n"
    s += _assign_out(e, "self.o_pop", "stack.pop()", 16)
    s += "                self.o_popv ^= True\n"
    s += "            elif self.reset_req:\n                stack.reset()\n                self.o_reset ^= True\n"
    return s


def render(cfg) -> str:
    return render_fifo(cfg) if cfg["comp"] == "fifo" else render_stack(cfg)
