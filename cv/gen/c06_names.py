"""C06 generator A: name-directed designs.

A *case* names the slots of a fixed, feature-composed design skeleton:

    {"g": "A",
     "f": [features...],                 # subset of FEATURES
     "n": {slot: name},                  # only the slots that deviate from DEFAULTS
     "via": {slot: "kw"|"scope"},        # how a signal-like slot gets its name (name= argument / Python variable name)
     "xs": [[name, via], ...],           # extra Bit signals (numeric-suffix families, duplicates)
     "opt": {"add": [...], "attr": [...]},   # additional_reserved_names= / attributes={"reserved_names": ...}
     "stim": [[a, b], ...]}

`render(case)` is a pure function case -> (python source, top symbol, compile kwargs).
Every named object is *used* (read and driven) so that the backend declares it.
"""
from __future__ import annotations

import keyword

from hypothesis import strategies as st

from cv.vhdl.lexer import RESERVED_93, RESERVED_2008

FEATURES = ["var", "helper", "enum", "arr", "sub", "sub2", "prefix", "coro", "ctx2", "ops"]

# slot -> (class, default name, feature or None)
SLOTS = {
    "ent_top": ("entity", "Top", None),
    "p_clk": ("port_in", "clk", None),
    "p_a": ("port_in", "a", None),
    "p_b": ("port_in", "b", None),
    "p_y": ("port_out", "y", None),
    "p_z": ("port_out", "z", None),
    "ctx_seq": ("context", "proc", None),
    "ctx_conc": ("context", "logic", None),
    "s0": ("signal", "s0", None),
    "s1": ("signal", "s1", None),
    "v0": ("variable", "v0", "var"),
    "prm0": ("helper_param", "pa", "helper"),
    "prm1": ("helper_param", "pb", "helper"),
    "loc0": ("helper_local", "loc", "helper"),
    "en_t": ("enum_type", "StateT", "enum"),
    "en_l0": ("enum_lit", "idle", "enum"),
    "en_l1": ("enum_lit", "run", "enum"),
    "en_l2": ("enum_lit", "done", "enum"),
    "s_en": ("signal", "cur", "enum"),
    "s_arr": ("array_signal", "arr", "arr"),
    "ent_sub": ("entity", "Sub", "sub"),
    "sp_i": ("port_in", "i", "sub"),
    "sp_o": ("port_out", "o", "sub"),
    "ctx_sub": ("context", "sublogic", "sub"),
    "s_so": ("signal", "so", "sub"),
    "s_so2": ("signal", "so2", "sub2"),
    "pfx0": ("prefix", "pfx", "prefix"),
    "pfx_n": ("prefix", "par", "prefix"),
    "nq0": ("prefix", "nq", "prefix"),
    "ctx_coro": ("context", "coro", "coro"),
    "ctx_seq2": ("context", "proc2", "ctx2"),
    "s2": ("signal", "s2", "ctx2"),
    "v1": ("variable", "v1", "ctx2"),
    "p_w": ("port_out", "w", "ops"),
    "p_v": ("port_out", "v", "ops"),
    "ctx_ops": ("context", "opsproc", "ops"),
    "s_cnt": ("signal", "cnt", "ops"),
    "s_wide": ("signal", "wide", "ops"),
    "s_sg": ("signal", "sg", "ops"),
    "s_bv": ("signal", "bv", "ops"),
    "s_flag": ("signal", "flag", "ops"),
}
SIGNAL_LIKE = ("signal", "variable", "helper_local", "array_signal")
NATURAL_ONLY = ("context", "helper_param")  # the name can only be given as a Python identifier

PREDEFINED = [
    "std_logic", "std_ulogic", "std_logic_vector", "unsigned", "signed", "boolean", "integer", "natural", "positive",
    "resize", "to_unsigned", "to_signed", "to_integer", "shift_left", "shift_right", "rising_edge", "falling_edge",
    "cohdl_bool_to_std_logic", "inp", "true", "false", "work", "ieee", "std", "numeric_std", "std_logic_1164",
    "bit", "string", "character", "rotate_left",
]
GENERATED = [
    "temp", "temp1", "temp2", "temp3", "sig", "sig1", "var", "var1", "proc", "proc1", "inst", "concurrent", "process",
    "array_type", "array_type1", "alias", "buffer", "state_0", "state_1", "state_2",
]
DECOR = ["_a", "a_", "a__b", "__", "_", "__a__", "_1", "_0_", "a_1", "a___b", "_a_b", "A_", "_A", "___x"]
FAMILY = ["x", "x1", "x2", "x3", "x4", "x5", "x6", "x7", "x8", "x16", "X", "X1", "X2", "x_1"]

# identifiers the rendered module itself uses: never used as *Python* variable names of generated objects
TEMPLATE_GLOBALS = {
    "cohdl", "std", "Bit", "BitVector", "Unsigned", "Signed", "Port", "Signal", "Variable", "Entity", "Array", "enum",
    "Null", "self", "E0", "Sub", "Top", "type", "getattr", "annotations", "True", "False", "None",
}


def py_ok(name: str) -> bool:
    return (name.isidentifier() and name.isascii() and not keyword.iskeyword(name) and not keyword.issoftkeyword(name)
            and not name.startswith("__") and name not in TEMPLATE_GLOBALS and not name.startswith("q_"))


def active_slots(case):
    feats = set(case.get("f", []))
    if "sub2" in feats:
        feats.add("sub")
    return [s for s, (_, _, f) in SLOTS.items() if f is None or f in feats]


def names_of(case):
    """slot -> effective name for all active slots"""
    n = case.get("n", {})
    out = {}
    for s in active_slots(case):
        cls, dflt, _ = SLOTS[s]
        nm = n.get(s, dflt)
        if cls in NATURAL_ONLY and not py_ok(nm):
            nm = dflt
        out[s] = nm
    return out


def hostile_slots(case):
    nm = names_of(case)
    return {s: nm[s] for s in nm if nm[s] != SLOTS[s][1]}


# ---------------------------------------------------------------------------------------- render
class _Py:
    """allocates the Python variable that holds a generated object"""

    def __init__(self):
        self.used = set()
        self.k = 0

    def var(self, name, via):
        """-> (python variable name, name= keyword text or '')"""
        if via == "scope" and py_ok(name) and name not in self.used:
            self.used.add(name)
            return name, ""
        self.k += 1
        v = f"q_{self.k}"
        return v, f"name={name!r}"


def _kw(*parts):
    parts = [p for p in parts if p]
    return ", ".join(parts)


def render(case):
    feats = set(case.get("f", []))
    if "sub2" in feats:
        feats.add("sub")
    nm = names_of(case)
    via = case.get("via", {})
    opt = case.get("opt", {}) or {}
    L = []
    w = L.append
    w("from __future__ import annotations")
    w("import cohdl")
    w("from cohdl import std, Bit, BitVector, Unsigned, Signed, Port, Signal, Variable, Entity, Array, enum, Null")
    w("")
    if "enum" in feats:
        lits = [nm["en_l0"], nm["en_l1"], nm["en_l2"]]
        w(f"E0 = enum.Enum({nm['en_t']!r}, {lits!r})")
        w("EL = list(E0)")
        w("")
    if "helper" in feats:
        hp = _Py()
        hp.used.update((nm["prm0"], nm["prm1"]))
        lv, lkw = hp.var(nm["loc0"], via.get("loc0", "kw"))
        w(f"def helper({nm['prm0']}, {nm['prm1']}):")
        w(f"    {lv} = Signal[Unsigned[4]]({lkw})")
        w(f"    {lv} <<= {nm['prm0']} + {nm['prm1']}")
        w(f"    return {lv} ^ {nm['prm0']}")
        w("")
    if "sub" in feats:
        w("def q_sub_arch(self):")
        w(f"    q_i = getattr(self, {nm['sp_i']!r})")
        w(f"    q_o = getattr(self, {nm['sp_o']!r})")
        w("    @std.concurrent")
        w(f"    def {nm['ctx_sub']}():")
        w("        q_o.next = q_i + 1")
        w("")
        w(f"Sub = type({nm['ent_sub']!r}, (Entity,), {{{nm['sp_i']!r}: Port.input(Unsigned[4]), "
          f"{nm['sp_o']!r}: Port.output(Unsigned[4]), 'architecture': q_sub_arch}})")
        w("")
    # ------------------------------------------------------------ top architecture
    py = _Py()
    w("def q_top_arch(self):")
    for slot, v in (("p_clk", "q_clk"), ("p_a", "q_a"), ("p_b", "q_b"), ("p_y", "q_y"), ("p_z", "q_z")):
        w(f"    {v} = getattr(self, {nm[slot]!r})")

    def sig(slot, ty, default=None):
        v, kw = py.var(nm[slot], via.get(slot, "kw"))
        w(f"    {v} = Signal[{ty}]({_kw(default, kw)})")
        return v

    s0 = sig("s0", "Bit")
    s1 = sig("s1", "Unsigned[4]")
    xs = []
    for k, (xn, xv) in enumerate(case.get("xs", [])):
        v, kw = py.var(xn, xv)
        w(f"    {v} = Signal[Bit]({kw})")
        xs.append(v)
    if "enum" in feats:
        s_en = sig("s_en", "E0", "EL[0]")
    if "arr" in feats:
        s_arr = sig("s_arr", "Array[Unsigned[4], 4]")
    if "sub" in feats:
        s_so = sig("s_so", "Unsigned[4]")
        w(f"    Sub(**{{{nm['sp_i']!r}: q_b, {nm['sp_o']!r}: {s_so}}})")
    if "sub2" in feats:
        s_so2 = sig("s_so2", "Unsigned[4]")
        w(f"    Sub(**{{{nm['sp_i']!r}: {s1}, {nm['sp_o']!r}: {s_so2}}})")
    if "prefix" in feats:
        w(f"    with std.prefix({nm['pfx0']!r}):")
        w(f"        q_ps = Signal[Bit](name=std.name({nm['pfx_n']!r}))")
        w(f"    q_nq = std.NamedQualifier[Signal, {nm['nq0']!r}][Unsigned[4]]()")
    if "ctx2" in feats:
        s2 = sig("s2", "Unsigned[4]")
    if "ops" in feats:
        w(f"    q_w = getattr(self, {nm['p_w']!r})")
        w(f"    q_v = getattr(self, {nm['p_v']!r})")
        s_cnt = sig("s_cnt", "int", "0")
        s_wide = sig("s_wide", "Unsigned[8]")
        s_sg = sig("s_sg", "Signed[4]")
        s_bv = sig("s_bv", "BitVector[4]")
        s_flag = sig("s_flag", "bool", "False")
    w("")
    # concurrent context
    w("    @std.concurrent")
    w(f"    def {nm['ctx_conc']}():")
    w(f"        {s0}.next = q_a")
    acc = s0
    for v in xs:
        w(f"        {v}.next = ~{acc}")
        acc = v
    if "prefix" in feats:
        w(f"        q_ps.next = ~{acc}")
        w("        q_nq.next = q_b")
        acc = "q_ps"
    w(f"        q_y.next = {acc} ^ q_a")
    w("")
    # sequential context
    spy = _Py()
    spy.used = set(py.used)
    spy.k = py.k + 100
    w(f"    @std.sequential(std.Clock(q_clk))")
    w(f"    def {nm['ctx_seq']}():")
    terms = ["q_b"]
    if "var" in feats:
        v, kw = spy.var(nm["v0"], via.get("v0", "kw"))
        w(f"        {v} = Variable[Unsigned[4]]({_kw('0', kw)})")
        w(f"        {v} @= q_b + 1")
        terms.append(v)
        last_var = v
    else:
        last_var = "q_b"
    if "arr" in feats:
        w(f"        {s_arr}[q_b[1:0].unsigned] <<= {last_var}")
        terms.append(f"{s_arr}[0]")
    if "helper" in feats:
        w(f"        q_h = helper(q_b, {last_var})")
        terms.append("q_h")
    if "prefix" in feats:
        terms.append("q_nq")
    if "ctx2" in feats:
        terms.append(s2)
    e = terms[0]
    for t in terms[1:]:
        e = f"({e} + {t})"
    w(f"        {s1}.next = {e}")
    if "enum" in feats:
        w(f"        if {s_en} == EL[0]:")
        w(f"            {s_en}.next = EL[1]")
        w(f"        elif {s_en} == EL[1]:")
        w(f"            {s_en}.next = EL[2]")
        w("        else:")
        w(f"            {s_en}.next = EL[0]")
        zsrc = f"{s_so}" if "sub" in feats else "q_b"
        if "sub2" in feats:
            zsrc = f"{s_so} + {s_so2}"
        w(f"        if {s_en} == EL[2]:")
        w(f"            q_z.next = {zsrc}")
        w("        else:")
        w(f"            q_z.next = {s1}")
    else:
        if "sub2" in feats:
            w(f"        q_z.next = {s1} + {s_so} + {s_so2}")
        elif "sub" in feats:
            w(f"        q_z.next = {s1} + {s_so}")
        else:
            w(f"        q_z.next = {s1}")
    w("")
    if "ctx2" in feats:
        spy2 = _Py()
        spy2.used = set(py.used)
        spy2.k = py.k + 200
        w(f"    @std.sequential(std.Clock(q_clk))")
        w(f"    def {nm['ctx_seq2']}():")
        v, kw = spy2.var(nm["v1"], via.get("v1", "kw"))
        w(f"        {v} = Variable[Unsigned[4]]({_kw('0', kw)})")
        w(f"        {v} @= q_b ^ {s1}")
        w(f"        {s2}.next = {v}")
        w("")
    if "ops" in feats:
        # prints boolean, integer, true/false, to_unsigned, to_signed, to_integer, shift_left/right, resize, abs,
        # std_logic_vector/unsigned/signed conversions and cohdl_bool_to_std_logic
        w(f"    @std.sequential(std.Clock(q_clk))")
        w(f"    def {nm['ctx_ops']}():")
        w(f"        {s_flag}.next = q_b == 3")
        w(f"        {s_bv}.next = q_b.bitvector")
        w(f"        {s_wide}.next = {s_cnt}")
        w(f"        {s_sg}.next = {s_cnt}")
        w(f"        {s_cnt}.next = q_b if {s_cnt} < 5 else 0")
        w(f"        if {s_flag} and {s_cnt} == 2:")
        w(f"            q_w.next = (q_b << 1) + {s_cnt}")
        w("        else:")
        w(f"            q_w.next = ({s_bv}.unsigned >> {s_cnt}) + {s_wide}[3:0].unsigned + abs({s_sg}).unsigned")
        w(f"        q_v.next = {s_flag}")
        w("")
    if "coro" in feats:
        w(f"    @std.sequential(std.Clock(q_clk))")
        w(f"    async def {nm['ctx_coro']}():")
        w("        await q_a")
        w("        await cohdl.expr(~q_a)")
        w("        await q_a")
        w("")
    ekw = []
    if opt.get("attr"):
        ekw.append(f"attributes={{'reserved_names': {list(opt['attr'])!r}}}")
    ns = (f"{{{nm['p_clk']!r}: Port.input(Bit), {nm['p_a']!r}: Port.input(Bit), {nm['p_b']!r}: Port.input(Unsigned[4]), "
          f"{nm['p_y']!r}: Port.output(Bit), {nm['p_z']!r}: Port.output(Unsigned[4]), "
          + (f"{nm['p_w']!r}: Port.output(Unsigned[4]), {nm['p_v']!r}: Port.output(Bit), " if "ops" in feats else "")
          + "'architecture': q_top_arch}")
    w(f"Top = type({nm['ent_top']!r}, (Entity,), {_kw(ns, *ekw)})")
    src = "\n".join(L) + "\n"
    ckw = {}
    if opt.get("add"):
        ckw["additional_reserved_names"] = set(opt["add"])
    return src, "Top", ckw


# ---------------------------------------------------------------------------------------- strategy
RES_ALL = sorted(set(RESERVED_93) | set(RESERVED_2008))


def _case_variants(name):
    out = {name.upper(), name.lower(), name.capitalize(), name.swapcase()}
    out.discard(name)
    return sorted(out) or [name.upper()]


@st.composite
def cases(draw, focus=None):
    feats = draw(st.lists(st.sampled_from(FEATURES), unique=True, max_size=5))
    feats = [f for f in FEATURES if f in feats]
    case = {"g": "A", "f": feats, "n": {}, "via": {}, "xs": [], "opt": {}, "stim": []}
    slots = active_slots(case)
    k = draw(st.integers(1, 4))
    chosen = draw(st.lists(st.sampled_from(slots), min_size=1, max_size=k, unique=True))
    cur = {s: SLOTS[s][1] for s in slots}

    def related(slot):
        others = [cur[s] for s in slots if s != slot]
        base = draw(st.sampled_from(others))
        kind = draw(st.sampled_from(["case", "same", "buffer", "arch", "comp", "coro", "alias", "strip", "suffix"]))
        if kind == "case":
            return draw(st.sampled_from(_case_variants(base)))
        if kind == "same":
            return base
        if kind == "buffer":
            return "buffer_" + draw(st.sampled_from([cur["p_y"], cur["p_z"], cur.get("sp_o", "o"), cur.get("p_w", "w")])).strip("_")
        if kind == "arch":
            return "arch_" + draw(st.sampled_from([cur["ent_top"], cur.get("ent_sub", "Sub")]))
        if kind == "comp":
            return "comp_" + cur.get("ent_sub", "Sub") + draw(st.sampled_from(["", "1", "2"]))
        if kind == "coro":
            return draw(st.sampled_from(["s_", "state_"])) + cur.get("ctx_coro", "coro")
        if kind == "alias":
            return "alias_" + cur.get("loc0", "loc")
        if kind == "strip":
            return draw(st.sampled_from(["_", "__", ""])) + base + draw(st.sampled_from(["_", "__", ""]))
        return base + draw(st.sampled_from(["1", "2", "3", "4", "_1"]))

    pools = {
        "reserved": st.sampled_from(RES_ALL),
        "predefined": st.sampled_from(PREDEFINED),
        "generated": st.sampled_from(GENERATED),
        "decor": st.sampled_from(DECOR),
        "family": st.sampled_from(FAMILY),
    }
    pool_names = ["reserved", "predefined", "generated", "decor", "family", "related", "related"]
    if focus:
        pool_names = [focus] * 3 + pool_names
    for slot in chosen:
        pool = draw(st.sampled_from(pool_names))
        name = related(slot) if pool == "related" else draw(pools[pool])
        if draw(st.integers(0, 9)) == 0 and name.lower() != name.upper():
            name = draw(st.sampled_from(_case_variants(name)))
        case["n"][slot] = name
        cur[slot] = name
        if SLOTS[slot][0] in SIGNAL_LIKE:
            case["via"][slot] = draw(st.sampled_from(["kw", "scope"]))
    # port names of one entity and enumerators of one type must be distinct *strings* (dict keys / Python enum members)
    for group in (["p_clk", "p_a", "p_b", "p_y", "p_z", "p_w", "p_v"], ["sp_i", "sp_o"], ["en_l0", "en_l1", "en_l2"]):
        seen = set()
        for s in group:
            if s not in cur:
                continue
            if cur[s] in seen:
                case["n"].pop(s, None)
                cur[s] = SLOTS[s][1]
                if cur[s] in seen:  # a hostile name equal to this slot's default: move the default away
                    case["n"][s] = cur[s] = SLOTS[s][1] + "_q"
            seen.add(cur[s])
    # extra signals: a numeric-suffix family or duplicates, to drive the uniquifier's search
    if draw(st.integers(0, 2)) == 0:
        base = draw(st.sampled_from(["x", "temp", "sig", "buffer_" + cur["p_y"].strip("_") or "x", cur["s0"], "type", "to"]))
        n = draw(st.integers(1, 9))
        fam = draw(st.sampled_from(["dup", "dense", "sparse", "mixed"]))
        xs = []
        for i in range(n):
            if fam == "dup":
                nme = base
            elif fam == "dense":
                nme = base + (str(i) if i else "")
            elif fam == "sparse":
                nme = base + (str(1 << (i - 1)) if i else "")
            else:
                nme = base + draw(st.sampled_from(["", "", "1", "2", "3", "4", "5", "8", "16"]))
            if draw(st.integers(0, 5)) == 0:
                nme = nme.upper()
            xs.append([nme, draw(st.sampled_from(["kw", "kw", "scope"]))])
        case["xs"] = xs
    # user-reserved names
    if draw(st.integers(0, 3)) == 0:
        cand = sorted({cur[s] for s in slots} | {"temp", "buffer_" + cur["p_y"].strip("_"), "x", "x1"})
        which = draw(st.sampled_from(["add", "attr", "both"]))
        names = draw(st.lists(st.sampled_from(cand), min_size=1, max_size=3, unique=True))
        if draw(st.booleans()):
            names = [x.upper() for x in names]
        if which in ("add", "both"):
            case["opt"]["add"] = names
        if which in ("attr", "both"):
            case["opt"]["attr"] = names
    case["stim"] = draw(st.lists(st.tuples(st.integers(0, 1), st.integers(0, 15)).map(list), min_size=2, max_size=3))
    return case


# ---------------------------------------------------------------------------------------- enumeration
def enum_cases(shard):
    """every reserved word / predefined identifier / decoration x every slot, one hostile name per design
    (all features on).  shard = {"lo":, "hi":} index range over the product."""
    feats = [f for f in FEATURES]
    base = {"g": "A", "f": feats, "n": {}, "via": {}, "xs": [], "opt": {}, "stim": [[1, 3], [0, 5]]}
    slots = active_slots(base)
    pool = RES_ALL + PREDEFINED + DECOR + GENERATED
    items = []
    for s in slots:
        cls = SLOTS[s][0]
        for nme in pool:
            if cls in NATURAL_ONLY and not py_ok(nme):
                continue
            vias = ["kw", "scope"] if cls in SIGNAL_LIKE and py_ok(nme) else ["kw"]
            for v in vias:
                items.append((s, nme, v))
    items = items[::int(shard.get("stride", 1))]
    lo, hi = shard.get("lo", 0), shard.get("hi", len(items))
    for s, nme, v in items[lo:hi]:
        c = {"g": "A", "f": feats, "n": {s: nme}, "via": ({s: v} if SLOTS[s][0] in SIGNAL_LIKE else {}), "xs": [],
             "opt": {}, "stim": [[1, 3], [0, 5]]}
        yield c


def enum_size(stride=1):
    return sum(1 for _ in enum_cases({"stride": stride}))
