"""Shared by the std-component checks C14, C15, C16: rendered wrapper source -> simulator.

build(src) compiles generated cohdl source, analyses the emitted VHDL with the trusted
engine and elaborates it.  Nothing here computes an expected value.
"""
from __future__ import annotations

from cv.harness.loader import Rejected, compile_source
from cv.vhdl.analyze import analyse
from cv.vhdl.sim import Blocked, Sim
from cv.vhdl.values import SimError  # noqa: F401  (re-exported)


class Built:
    __slots__ = ("status", "sim", "info", "vhdl", "snap0", "static")

    def __init__(self, status, sim=None, info="", vhdl=None):
        self.status = status  # ok | rejected | blocked | blocked_by_static
        self.sim = sim
        self.info = info
        self.vhdl = vhdl
        self.snap0 = None
        self.static = ""


def build(src: str, top: str = "Top", init: dict | None = None, despite_static: bool = False) -> Built:
    """despite_static: a design with static errors is still elaborated when the engine can (Sim(check_static=False))
    so that a behavioural check can look at what it *does*; Built.static then names the rules, status stays
    blocked_by_static when elaboration is impossible."""
    try:
        vhdl = compile_source(src, top)
    except Rejected as e:
        return Built("rejected", info=str(e)[:300])
    d = analyse(vhdl)
    if d.unsupported:
        return Built("blocked", info=str(d.unsupported)[:300], vhdl=vhdl)
    static = ""
    if d.errors:
        static = "; ".join(sorted({e.rule for e in d.errors})) + ": " + str(d.errors[0])[:200]
        if not despite_static:
            return Built("blocked_by_static", info=static, vhdl=vhdl)
    try:
        # inputs defined during the initial run of all processes
        sim = Sim(d, top=top, inputs=init or None) if not static else Sim(d, top=top, inputs=init or None, check_static=False)
        if init:
            sim.poke(**init)
    except Blocked as e:
        return Built("blocked_by_static" if static else "blocked", info=static or str(e)[:300], vhdl=vhdl)
    except SimError as e:
        return Built("blocked_by_static" if static else "blocked", info=static or f"SimError at elaboration: {e}"[:300],
                     vhdl=vhdl)
    except Exception:  # noqa: BLE001 - elaborating a statically wrong design may fail in any way
        if static:
            return Built("blocked_by_static", info=static, vhdl=vhdl)
        raise
    b = Built("ok", sim=sim, vhdl=vhdl)
    b.static = static
    b.snap0 = sim.snapshot()
    return b


_cache: dict = {}


def build_cached(key: str, make_src, init: dict | None = None, limit: int = 64, despite_static: bool = False) -> Built:
    """One elaborated simulator per configuration and process; every use restores the initial snapshot."""
    b = _cache.get(key)
    if b is None:
        if len(_cache) >= limit:
            _cache.pop(next(iter(_cache)))
        b = _cache[key] = build(make_src(), init=init, despite_static=despite_static)
    if b.status == "ok":
        b.sim.restore(b.snap0)
        b.sim.assert_failures = 0
    return b


def drop_cached(key: str):
    _cache.pop(key, None)


def explore(sim, drv, actions, zero_inputs: dict, cap: int):
    """Breadth-first lock-step exploration of (simulator state, driver/model state).

    drv: .state() -> hashable, .set_state(s), .step(sim, action) -> (when, problems)
    Applies every action from every reached joint state until closure or `cap` states.
    Returns dict(closed, states, transitions, failure=None | (path, when, problems), error=None | (SimError, when)).
    """
    import hashlib
    import marshal
    from collections import deque

    def key_of(snap, ms):
        # `last` (previous value; only rising_edge(clk) reads it) is the same for clk at every snapshot point
        # and irrelevant for every other signal: the key keeps current values, drivers and process variables.
        # Stored as a 128-bit digest of the canonical serialisation (keeps 10^5..10^6 states in memory).
        return hashlib.blake2b(marshal.dumps((tuple((c, d) for c, _l, d in snap[0]), snap[1], ms), 2),
                               digest_size=16).digest()  # marshal version 2: no object-identity references

    snap0 = sim.snapshot()
    ms0 = drv.state()
    k0 = key_of(snap0, ms0)
    parent = {k0: None}
    queue = deque([(snap0, ms0, k0)])
    res = {"closed": True, "states": 0, "transitions": 0, "failure": None, "error": None}
    when = "start"
    try:
        while queue:
            if len(parent) >= cap:
                res["closed"] = False
                break
            csnap, cms, ck = queue.popleft()
            for a in actions:
                sim.restore(csnap)
                drv.set_state(cms)
                when, bad = drv.step(sim, a)
                res["transitions"] += 1
                if bad:
                    path = [a]
                    k = ck
                    while parent[k] is not None:
                        k, pa = parent[k]
                        path.append(pa)
                    path.reverse()
                    res["failure"] = (path, when, bad)
                    res["closed"] = False
                    queue.clear()
                    break
                sim.poke(**zero_inputs)
                nsnap, nms = sim.snapshot(), drv.state()
                nk = key_of(nsnap, nms)
                if nk not in parent:
                    parent[nk] = (ck, a)
                    queue.append((nsnap, nms, nk))
    except SimError as e:
        res["closed"] = False
        res["error"] = (e, when)
    res["states"] = len(parent)
    return res
