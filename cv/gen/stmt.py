"""Generated statement language shared by C01/C03/C04/C08: Hypothesis strategies producing
JSON design specs, and the renderer spec -> cohdl Python module source.

Spec (all JSON):
  W        vector width used throughout the design (Unsigned[W])
  inputs   [{"name","kind":"bit"|"u"}]            outputs/sigs/vars [{"name","kind","default":int|None,"noreset":bool}]
  ctx      {"type":"seq"|"coro"|"comb"|"conc", "reset": None | {"async":bool,"active_low":bool}}
  body     [stmt]   subs [{"name","params":[names],"body":[stmt]}]   helpers [{"name","params","body"}]
Expressions and statements: see cv/ref/seq.py (the executable meaning) and `rx`/`rs` below
(the cohdl spelling).
"""
from __future__ import annotations

from hypothesis import strategies as st

# ----------------------------------------------------------------------------- rendering
HEADER = """from __future__ import annotations
import cohdl
from cohdl import Entity, Port, Bit, BitVector, Unsigned, Signed, Signal, Variable, Array, Null, Full, true, false
from cohdl import std
"""


class Renderer:
    def __init__(self, spec):
        self.spec = spec
        self.W = spec["W"]
        self.kind = {}
        for g in ("inputs", "outputs", "sigs", "vars"):
            for o in spec.get(g, []):
                self.kind[o["name"]] = (g, o)

    def ty(self, o):
        if o["kind"] == "bit":
            return "Bit"
        if o["kind"] == "bool":
            return "bool"
        if o["kind"] == "arr":
            return f"Array[Unsigned[{o.get('w', self.W)}], {o['n']}]"
        return f"Unsigned[{o.get('w', self.W)}]"

    def ref(self, name):
        g, o = self.kind.get(name, (None, None))
        if g in ("inputs", "outputs"):
            return f"self.{name}"
        if o is not None and o.get("pyref"):
            return o["pyref"]
        return name

    def const(self, v, w=None):
        return f"Unsigned[{w or self.W}]({v})"

    def rx(self, e, top=False):
        """expression -> cohdl source"""
        op = e[0]
        if op == "const":
            if len(e) > 2 and e[2] == 1 and e[-1] == "bit":
                return f"Bit({bool(e[1])})"
            return self.const(e[1], e[2] if len(e) > 2 else None)
        if op == "bconst":
            return f"Bit({bool(e[1])})"
        if op in ("in", "sig", "var"):
            return self.ref(e[1])
        if op == "loc":
            return e[1]
        if op == "not":
            return f"(~{self.rx(e[1])})"
        if op == "cnot":
            return f"(not {self.rx(e[1])})"
        if op in ("band", "bor", "bxor"):
            return f"({self.rx(e[1])} {dict(band='&', bor='|', bxor='^')[op]} {self.rx(e[2])})"
        if op in ("cand", "cor"):
            return f"({self.rx(e[1])} {dict(cand='and', cor='or')[op]} {self.rx(e[2])})"
        if op in ("add", "sub"):
            b = e[2]
            bs = str(b[1]) if b[0] == "const" and not (len(b) > 3) else self.rx(b)
            return f"({self.rx(e[1])} {'+' if op == 'add' else '-'} {bs})"
        if op in ("xor", "and", "or"):
            return f"({self.rx(e[1])} {dict(xor='^', **{'and': '&', 'or': '|'})[op]} {self.rx(e[2])})"
        if op == "inv":
            return f"(~{self.rx(e[1])})"
        if op == "idx":
            return f"{self.rx(e[1])}[{e[2]}]"
        if op == "slice":
            return f"{self.rx(e[1])}[{e[2]}:{e[3]}]"
        if op == "cmp":
            b = e[3]
            bs = str(b[1]) if b[0] == "const" else self.rx(b)
            return f"({self.rx(e[2])} {e[1]} {bs})"
        if op == "ifexp":
            return f"({self.rx(e[2])} if {self.rx(e[1])} else {self.rx(e[3])})"
        if op == "aidx":
            i = e[2]
            return f"{self.ref(e[1])}[{i[1] if i[0] == 'const' else self.rx(i)}]"
        if op == "tobool":
            return f"bool({self.rx(e[1])})"
        if op == "uview":
            return f"{self.rx(e[1])}.unsigned"
        if op == "ridx":  # bit of a vector selected by a run-time index
            return f"{self.rx(e[1])}[{self.rx(e[2])}]"
        raise AssertionError(op)

    def target(self, t):
        base = self.ref(t["name"])
        acc = t.get("acc")
        if acc is None:
            return base
        if acc[0] == "slice":
            return f"{base}[{acc[1]}:{acc[2]}]"
        if acc[0] == "bit":
            return f"{base}[{acc[1]}]"
        if acc[0] == "aidx":
            i = acc[1]
            return f"{base}[{i[1] if i[0] == 'const' else self.rx(i)}]"
        raise AssertionError(acc)

    def src_for(self, t, e):
        """literal ints are allowed as sources of whole-vector targets"""
        if e[0] == "const" and len(e) == 2:
            g, o = self.kind.get(t["name"], (None, {"kind": "u"}))
            if t.get("acc") is None and o["kind"] == "u":
                return str(e[1])
        return self.rx(e)

    def rs(self, s, ind):
        """statement -> list of source lines"""
        p = "    " * ind
        k = s["k"]
        if k == "assign":
            return [f"{p}{self.target(s['t'])} <<= {self.src_for(s['t'], s['e'])}"]
        if k == "next":
            return [f"{p}{self.target(s['t'])}.next = {self.src_for(s['t'], s['e'])}"]
        if k == "var":
            return [f"{p}{self.target(s['t'])} @= {self.src_for(s['t'], s['e'])}"]
        if k == "value":
            return [f"{p}{self.target(s['t'])}.value = {self.src_for(s['t'], s['e'])}"]
        if k == "push":
            if s.get("form") == "attr":
                return [f"{p}{self.target(s['t'])}.push = {self.src_for(s['t'], s['e'])}"]
            return [f"{p}{self.target(s['t'])} ^= {self.src_for(s['t'], s['e'])}"]
        if k == "if":
            out = []
            for n, (c, b) in enumerate(s["arms"]):
                out.append(f"{p}{'if' if n == 0 else 'elif'} {self.rx(c)}:")
                out += self.block(b, ind + 1)
            if s.get("else") is not None:
                out.append(f"{p}else:")
                out += self.block(s["else"], ind + 1)
            return out
        if k == "match":
            out = [f"{p}match {self.rx(s['e'])}:"]
            for const, b in s["cases"]:
                out.append(f"{p}    case {const}:")
                out += self.block(b, ind + 2)
            if s.get("default") is not None:
                out.append(f"{p}    case _:")
                out += self.block(s["default"], ind + 2)
            return out
        if k == "forbreak":
            # for-loop over a constant list of (index) ending in break; conditions are selected by index
            conds = ", ".join(f"lambda: {self.rx(c)}" for c, _ in s["items"])
            out = [f"{p}for _k in range({len(s['items'])}):"]
            for n, (c, b) in enumerate(s["items"]):
                out.append(f"{p}    {'if' if n == 0 else 'elif'} _k == {n}:")
                out.append(f"{p}        if {self.rx(c)}:")
                out += self.block(b, ind + 3)
                out.append(f"{p}            break")
            if s.get("else") is not None:
                out.append(f"{p}else:")
                out += self.block(s["else"], ind + 1)
            return out
        if k == "call":
            h = self.spec["helpers"][s["helper"]]
            return [f"{p}{s['bind']} = {h['name']}({', '.join(self.rx(a) for a in s['args'])})"]
        if k == "bind":
            if s.get("mu"):  # explicit intermediate that opts out of the branch analysis
                return [f"{p}{s['bind']} = cohdl.Temporary({self.rx(s['e'])}, maybe_uninitialized=True)"]
            return [f"{p}{s['bind']} = {self.rx(s['e'])}"]
        if k == "always":
            if s.get("form") == "with":
                return [f"{p}with cohdl.always:", f"{p}    {s['bind']} = {self.rx(s['e'])}"]
            return [f"{p}{s['bind']} = cohdl.always({self.rx(s['e'])})"]
        if k == "localsig":
            T = "Bit" if s["kind"] == "bit" else f"Unsigned[{s.get('w', self.W)}]"
            return [f"{p}{s['name']} = Signal[{T}]({self.rx(s['e'])})"]
        if k == "localarr":
            # local array Variable initialised from a tuple or a list of element values
            elems = ", ".join(self.rx(e) for e in s["elems"])
            init = f"({elems},)" if s.get("form") == "tuple" else f"[{elems}]"
            return [f"{p}{s['name']} = Variable[Array[Unsigned[{self.W}], {len(s['elems'])}]]({init}, name='{s['name']}')"]
        if k == "localvar":
            T = "Bit" if s["kind"] == "bit" else f"Unsigned[{s.get('w', self.W)}]"
            return [f"{p}{s['name']} = Variable[{T}]({self.rx(s['e'])}, name='{s['name']}')"]
        if k == "await":
            c = s["c"]
            if c in ("true", "false"):
                return [f"{p}await {c}"]
            if c[0] in ("in", "sig"):
                return [f"{p}await {self.rx(c)}"]
            return [f"{p}await cohdl.expr({self.rx(c)})"]
        if k == "while":
            out = [f"{p}while {'True' if s['c'] == 'true' else 'False' if s['c'] == 'false' else self.rx(s['c'])}:"]
            return out + self.block(s["body"], ind + 1)
        if k in ("break", "continue", "pass"):
            return [f"{p}{k}"]
        if k == "return":
            return [f"{p}return" + (f" {self.rx(s['e'])}" if s.get("e") is not None else "")]
        if k == "awaitcall":
            return [f"{p}await {self.spec['efuncs'][s['f']]['name']}()"]
        if k == "awaitsub":
            sub = self.spec["subs"][s["sub"]]
            call = f"await {sub['name']}({', '.join(self.rx(a) for a in s['args'])})"
            return [f"{p}{s['bind']} = {call}" if s.get("bind") else f"{p}{call}"]
        raise AssertionError(k)

    def block(self, body, ind):
        out = []
        for s in body:
            out += self.rs(s, ind)
        if not out:
            out = ["    " * ind + "pass"]
        return out

    def helper_src(self, h):
        out = [f"def {h['name']}({', '.join(h['params'])}):"]
        out += self.block(h["body"], 1)
        return out

    def module(self):
        sp = self.spec
        L = [HEADER]
        for h in sp.get("helpers", []):
            L += self.helper_src(h) + [""]
        for rc in sp.get("records", []):
            L.append(f"class {rc['cls']}(std.Record):")
            for m in rc["members"]:
                L.append(f"    {m['field']}: {self.ty(self.kind[m['obj']][1])}")
            L.append("")
        L.append("class Top(Entity):")
        ctx = sp["ctx"]
        if ctx["type"] in ("seq", "coro"):
            L.append("    clk = Port.input(Bit)")
            if ctx.get("reset"):
                L.append("    rst = Port.input(Bit)")
                if ctx["reset"].get("derive"):
                    L.append("    rx = Port.input(Bit)")
        for o in sp["inputs"]:
            L.append(f"    {o['name']} = Port.input({self.ty(o)})")
        for o in sp["outputs"]:
            d = o.get("default")
            L.append(f"    {o['name']} = Port.output({self.ty(o)}" + (f", default={self.dflt(o)}" if d is not None else "")
                     + (", noreset=True" if o.get("noreset") else "") + ")")
        for o in sp.get("sigs", []):
            L.append(f"    x_{o['name']} = Port.output({self.ty(o)})")
        L.append("    def architecture(self):")
        for rc in sp.get("records", []):
            args = ", ".join(f"{m['field']}={self.dflt(self.kind[m['obj']][1])}" for m in rc["members"])
            L.append(f"        {rc['name']} = std.{rc['qual']}[{rc['cls']}]({args})")
        for o in sp.get("sigs", []):
            if o.get("pyref"):
                continue
            extra = ", noreset=True" if o.get("noreset") else ""
            L.append(f"        {o['name']} = Signal[{self.ty(o)}]({self.dflt(o)}, name='{o['name']}'{extra})")
        for o in sp.get("vars", []):
            extra = ", noreset=True" if o.get("noreset") else ""
            L.append(f"        {o['name']} = Variable[{self.ty(o)}]({self.dflt(o)}, name='{o['name']}'{extra})")
        nl = [o["name"] for o in sp.get("sigs", []) + sp.get("vars", []) if not o.get("pyref")]
        nonlocal_line = ("            nonlocal " + ", ".join(nl)) if nl else None
        for sub in sp.get("subs", []):
            L.append(f"        async def {sub['name']}({', '.join(sub['params'])}):")
            if nonlocal_line:
                L.append(nonlocal_line)
            L += self.block(sub["body"], 3)
        for ef in sp.get("efuncs", []):
            # plain (non-async) function with visible effects that returns the object the caller awaits
            L.append(f"        def {ef['name']}():")
            if nonlocal_line:
                L.append(nonlocal_line)
            L += self.block(ef["body"], 3)
            L.append(f"            return {self.rx(ef['ret'])}")
        t = ctx["type"]
        if t in ("seq", "coro"):
            # the same context can be spelled in several documented ways (ctx["style"]); a reset can be derived from
            # the parent's with or_reset/and_reset (ctx["reset"]["derive"])
            style = ctx.get("style", "direct")
            r = ctx.get("reset")
            parts = {"reset": None, "on_reset": None, "step_cond": None}
            if r:
                parts["reset"] = f"std.Reset(self.rst, active_low={bool(r.get('active_low'))}, is_async={bool(r.get('async'))})"
                if r.get("on_reset"):
                    L.append("        def on_rst():")
                    if nonlocal_line:
                        L.append(nonlocal_line)
                    L += self.block(r["on_reset"], 3)
                    parts["on_reset"] = "on_reset=on_rst"
            if ctx.get("step_cond") is not None:
                parts["step_cond"] = f"step_cond=lambda: {self.rx(ctx['step_cond'])}"

            def args(*names):
                return ", ".join(["std.Clock(self.clk)"] + [parts[n] for n in names if parts[n]])

            if r and r.get("derive"):
                dv = r["derive"]
                L.append(f"        ctx0 = std.SequentialContext({args('reset')})")
                L.append(f"        ctx1 = ctx0.{dv['op']}_reset(self.rx, active_low={bool(dv.get('active_low'))})")
                if parts["step_cond"]:
                    L.append(f"        ctx1 = ctx1.with_params({parts['step_cond']})")
                L.append(f"        @ctx1({parts['on_reset']})" if parts["on_reset"] else "        @ctx1")
            elif style == "object":
                L.append(f"        ctx0 = std.SequentialContext({args('reset', 'on_reset', 'step_cond')})")
                L.append("        @ctx0")
            elif style == "with_params":
                L.append(f"        ctx0 = std.SequentialContext({args('reset', 'on_reset')})")
                L.append(f"        ctx1 = ctx0.with_params({parts['step_cond'] or 'clk=std.Clock(self.clk)'})")
                L.append("        @ctx1")
            elif style == "call_on_reset":
                L.append(f"        ctx0 = std.SequentialContext({args('reset', 'step_cond')})")
                L.append(f"        @ctx0({parts['on_reset']})" if parts["on_reset"] else "        @ctx0")
            else:
                L.append(f"        @std.sequential({args('reset', 'on_reset', 'step_cond')})")
            L.append(f"        {'async ' if t == 'coro' else ''}def proc():")
        elif t == "comb":
            L.append("        @std.sequential")
            L.append("        def proc():")
        else:
            L.append("        @std.concurrent")
            L.append("        def proc():")
        if nonlocal_line:
            L.append(nonlocal_line)
        L += self.block(sp["body"], 3)
        if sp.get("sigs"):
            L.append("        @std.concurrent")
            L.append("        def export():")
            for o in sp["sigs"]:
                L.append(f"            self.x_{o['name']} <<= {self.ref(o['name'])}")
        return "\n".join(L) + "\n"

    def dflt(self, o):
        d = o.get("default")
        if d is None:
            return ""
        if o["kind"] in ("bit", "bool"):
            return str(bool(d))
        return str(d)


def render(spec) -> str:
    return Renderer(spec).module()


# ----------------------------------------------------------------------------- strategies
class Env:
    """what a statement may reference at its position"""

    def __init__(self, spec, flavor):
        self.W = spec["W"]
        self.flavor = flavor
        self.in_bits = [o["name"] for o in spec["inputs"] if o["kind"] == "bit"]
        self.in_vecs = [o["name"] for o in spec["inputs"] if o["kind"] == "u"]
        objs = spec["outputs"] + [o for o in spec.get("sigs", []) if not o.get("mid")]
        self.sig_bits = [o["name"] for o in objs if o["kind"] == "bit"]
        self.sig_vecs = [o["name"] for o in objs if o["kind"] == "u"]
        # signals of a combinational process that the generated body only reads (design() assigns them itself)
        self.ro_bits = [o["name"] for o in spec.get("sigs", []) if o.get("mid") and o["kind"] == "bit"]
        self.ro_vecs = [o["name"] for o in spec.get("sigs", []) if o.get("mid") and o["kind"] == "u"]
        self.push = [o["name"] for o in objs if o.get("push")]
        self.var_bits = [o["name"] for o in spec.get("vars", []) if o["kind"] == "bit"]
        self.var_vecs = [o["name"] for o in spec.get("vars", []) if o["kind"] == "u"]
        self.var_bools = [o["name"] for o in spec.get("vars", []) if o["kind"] == "bool"]
        self.loc_bits = []
        self.loc_vecs = []
        self.loc_bools = []
        self.counter = [0]
        self.helpers = spec.get("helpers", [])
        self.subs = spec.get("subs", [])
        self.readable_sigs = flavor not in ("conc", "comb")

    def fresh(self, prefix):
        self.counter[0] += 1
        return f"{prefix}{self.counter[0]}"

    def inputs_only(self):
        c = self.child()
        c.sig_vecs, c.sig_bits, c.var_vecs, c.var_bits, c.loc_vecs, c.loc_bits = [], [], [], [], [], []
        c.loc_bools = []
        c.var_bools = []
        c.ro_bits, c.ro_vecs = [], []
        c.readable_sigs = False
        return c

    def child(self):
        import copy
        c = copy.copy(self)
        c.loc_bits = list(self.loc_bits)
        c.loc_vecs = list(self.loc_vecs)
        c.loc_bools = list(self.loc_bools)
        return c


def bit_leaf(env):
    opts = [st.sampled_from(env.in_bits).map(lambda n: ["in", n])] if env.in_bits else []
    if env.readable_sigs and env.sig_bits:
        opts.append(st.sampled_from([n for n in env.sig_bits]).map(lambda n: ["sig", n]))
    if env.ro_bits:
        opts.append(st.sampled_from(env.ro_bits).map(lambda n: ["sig", n]))
    if env.var_bits:
        opts.append(st.sampled_from(env.var_bits).map(lambda n: ["var", n]))
    if env.loc_bits:
        opts.append(st.sampled_from(env.loc_bits).map(lambda n: ["loc", n, 1]))
    if env.in_vecs:
        opts.append(st.tuples(st.sampled_from(env.in_vecs), st.integers(0, env.W - 1)).map(lambda t: ["idx", ["in", t[0]], t[1]]))
    if env.in_vecs and env.W >= 3:
        # three-level view chain with non-zero lower bounds: x[W-1:1][h:1][k]
        W = env.W

        def chain(t):
            name, h2, k = t
            h2 = min(h2, W - 2)
            return ["idx", ["slice", ["slice", ["in", name], W - 1, 1], h2, 1], min(k, h2 - 1)]
        opts.append(st.tuples(st.sampled_from(env.in_vecs), st.integers(1, W - 2), st.integers(0, W - 3)).map(chain))
    if not opts:
        opts.append(st.sampled_from([0, 1]).map(lambda v: ["bconst", v]))
    return st.one_of(opts)


def bit_expr(env, depth=2):
    leaf = bit_leaf(env)
    if depth <= 0:
        return leaf
    sub = bit_expr(env, depth - 1)
    return st.one_of(
        leaf, leaf,
        sub.map(lambda a: ["not", a]),
        st.tuples(st.sampled_from(["band", "bor", "bxor"]), sub, sub).map(list),
    )


def _nonconst_vec_opts(env):
    opts = []
    if env.in_vecs:
        opts += [st.sampled_from(env.in_vecs).map(lambda n: ["in", n])] * 2
    if env.readable_sigs and env.sig_vecs:
        opts.append(st.sampled_from(env.sig_vecs).map(lambda n: ["sig", n]))
    if env.ro_vecs:
        opts += [st.sampled_from(env.ro_vecs).map(lambda n: ["sig", n])] * 2
    if env.var_vecs:
        opts.append(st.sampled_from(env.var_vecs).map(lambda n: ["var", n]))
    if env.loc_vecs:
        opts.append(st.sampled_from(env.loc_vecs).map(lambda n: ["loc", n]))
    return opts


def vec_leaf(env):
    W = env.W
    return st.one_of([st.integers(0, (1 << W) - 1).map(lambda v: ["const", v])] + _nonconst_vec_opts(env))


def nonconst_vec_leaf(env):
    opts = _nonconst_vec_opts(env)
    return st.one_of(opts) if opts else None


def vec_expr(env, depth=2):
    leaf = vec_leaf(env)
    nc = nonconst_vec_leaf(env)
    if depth <= 0 or nc is None:
        return leaf
    sub = vec_expr(env, depth - 1)
    # left operand is always a hardware value so that the operator is traced, not folded
    ncsub = st.one_of(nc, st.tuples(st.sampled_from(["add", "sub", "xor", "and", "or"]), nc, sub).map(list))
    return st.one_of(
        leaf,
        st.tuples(st.sampled_from(["add", "sub", "xor", "and", "or"]), ncsub, sub).map(list),
        ncsub.map(lambda a: ["inv", a]),
    )


def cond_expr(env, depth=2):
    b = bit_expr(env, 1)
    nc = nonconst_vec_leaf(env)
    opts = [b, b]
    if env.loc_bools:
        opts.append(st.sampled_from(env.loc_bools).map(lambda n: ["loc", n, 1]))
    if getattr(env, "var_bools", None):
        opts.append(st.sampled_from(env.var_bools).map(lambda n: ["var", n]))
    if nc is not None:
        cmp_ = st.tuples(st.just("cmp"), st.sampled_from(["==", "!=", "!=", "<", "<=", "<=", ">", ">=", ">="]), nc,
                         st.one_of(vec_leaf(env), st.integers(0, (1 << env.W) - 1).map(lambda v: ["const", v]))).map(list)
        opts += [cmp_, cmp_]
    leaf = st.one_of(opts)
    leaf = st.one_of(leaf, leaf, leaf, leaf.map(lambda c: ["tobool", c]))  # explicit truth value: bool(x)
    if depth <= 0:
        return leaf
    sub = cond_expr(env, depth - 1)
    return st.one_of(leaf, leaf, leaf,
                     st.tuples(st.sampled_from(["cand", "cor"]), sub, sub).map(list),
                     sub.map(lambda a: ["cnot", a]))


@st.composite
def sig_target(draw, env, names_vec, names_bit, allow_acc=True):
    choices = [("u", n) for n in names_vec] + [("bit", n) for n in names_bit]
    kind, name = draw(st.sampled_from(choices))
    t = {"name": name}
    w = env.W
    if kind == "u" and allow_acc and draw(st.integers(0, 4)) == 0:
        if draw(st.booleans()) and w > 1:
            h = draw(st.integers(1, w - 1))
            l = draw(st.integers(0, h))
            if not (h == w - 1 and l == 0):
                t["acc"] = ["slice", h, l]
                return t, ("u", h - l + 1)
        k = draw(st.integers(0, w - 1))
        t["acc"] = ["bit", k]
        return t, ("bit", 1)
    return t, (kind, w if kind == "u" else 1)


@st.composite
def source_for(draw, env, kind, width):
    if kind == "bit":
        if draw(st.integers(0, 3)) == 0:
            nc = nonconst_vec_leaf(env)
            if nc is not None:
                return ["cmp", draw(st.sampled_from(["==", "<", ">="])), draw(nc), ["const", draw(st.integers(0, (1 << env.W) - 1))]]
        return draw(bit_expr(env, 2))
    e = draw(vec_expr(env, 2))
    if width != env.W:
        # slice target: take the matching number of low bits of a full-width non-constant value
        nc = nonconst_vec_leaf(env)
        if nc is None:
            return ["const", draw(st.integers(0, (1 << width) - 1)), width]
        return ["slice", draw(nc), width - 1, 0]
    return e


@st.composite
def simple_stmt(draw, env):
    """an assignment-like statement"""
    sig_v = [n for n in env.sig_vecs if n not in env.push]
    sig_b = [n for n in env.sig_bits if n not in env.push]
    opts = []
    if sig_v or sig_b:
        opts += ["assign"] * 5 + ["next"]
    if env.var_vecs or env.var_bits:
        opts += ["var"] * 3 + ["value"]
    if env.push:
        opts += ["push"] * 2
    if env.flavor != "conc":
        opts += ["bind"]
    if getattr(env, "var_bools", None):
        opts += ["boolvar"] * 2
    k = draw(st.sampled_from(opts))
    if k == "boolvar":
        return {"k": draw(st.sampled_from(["var", "var", "value"])), "t": {"name": draw(st.sampled_from(env.var_bools))},
                "e": draw(cond_expr(env, 1))}
    if k in ("assign", "next"):
        t, (kind, w) = draw(sig_target(env, sig_v, sig_b))
        return {"k": k, "t": t, "e": draw(source_for(env, kind, w))}
    if k in ("var", "value"):
        t, (kind, w) = draw(sig_target(env, env.var_vecs, env.var_bits))
        return {"k": k, "t": t, "e": draw(source_for(env, kind, w))}
    if k == "push":
        name = draw(st.sampled_from(env.push))
        kind = "u" if name in env.sig_vecs else "bit"
        s = {"k": "push", "t": {"name": name}, "e": draw(source_for(env, kind, env.W if kind == "u" else 1))}
        if draw(st.integers(0, 3)) == 0:
            s["form"] = "attr"
        return s
    # bind a python name to an expression result (an intermediate), usable by later statements of the block
    if draw(st.booleans()):
        name = env.fresh("tv")
        # a bound intermediate is always a computed value (binding a bare object would alias it)
        e = draw(vec_expr(env, 2))
        if e[0] in ("const", "in", "sig", "var", "loc"):
            nc = nonconst_vec_leaf(env)
            e = ["inv", draw(nc)] if nc is not None else None
        if e is not None:
            env.loc_vecs.append(name)
            return {"k": "bind", "bind": name, "e": e}
    if draw(st.integers(0, 2)) == 0:
        # truth value of a (possibly already boolean) intermediate: bool(x), bool(bool(x)) chains
        name = env.fresh("tq")
        inner = draw(cond_expr(env, 1))
        env.loc_bools.append(name)
        return {"k": "bind", "bind": name, "e": ["tobool", inner]}
    name = env.fresh("tb")
    e = draw(bit_expr(env, 2))
    if e[0] in ("bconst", "in", "sig", "var", "loc"):
        e = ["not", draw(bit_leaf(env))]
    env.loc_bits.append(name)
    return {"k": "bind", "bind": name, "e": e}


@st.composite
def block(draw, env, depth, min_size=1, max_size=4, loop=False, in_sub=False):
    env = env.child()
    n = draw(st.integers(min_size, max_size))
    out = []
    for _ in range(n):
        nxt = draw(stmt(env, depth, loop=loop, in_sub=in_sub))
        if nxt["k"] == "seq":  # a motif made of several consecutive statements
            out.extend(nxt["body"])
        else:
            out.append(nxt)
        if out[-1]["k"] in ("break", "continue", "return"):
            break
        if out[-1]["k"] == "await" and out[-1]["c"] == "false":
            break
    return out


@st.composite
def stmt(draw, env, depth, loop=False, in_sub=False):
    coro = env.flavor == "coro"
    choices = ["simple"] * 6
    if depth > 0 and env.flavor != "conc":
        choices += ["if"] * 3 + ["match", "forbreak"]
        if env.helpers:
            choices += ["call"] * 3
        if env.flavor in ("seq", "coro"):
            choices += ["localsig", "localvar", "always"]
    if coro:
        choices += ["await"] * 4 + ["await_true"]
        if depth > 0:
            choices += ["while"] * 3
            if env.subs and not in_sub:
                choices += ["awaitsub"] * 2
        if loop:
            choices += ["break", "continue"]
        if in_sub:
            choices += ["return"]
        if depth >= 2:
            choices += ["motif"] * 3
    if env.flavor in ("seq", "coro") and (env.var_vecs or env.var_bits or getattr(env, "var_bools", None)):
        choices += ["snapshot"]
    k = draw(st.sampled_from(choices))
    if k == "motif":
        return draw(motif(env, depth, in_sub))
    if k == "snapshot":
        return draw(snapshot_motif(env))
    if k == "simple":
        return draw(simple_stmt(env))
    if k == "if":
        narms = draw(st.integers(1, 3))
        arms = [[draw(cond_expr(env, 1)), draw(block(env, depth - 1, loop=loop, in_sub=in_sub))] for _ in range(narms)]
        els = draw(st.one_of(st.none(), block(env, depth - 1, loop=loop, in_sub=in_sub)))
        return {"k": "if", "arms": arms, "else": els}
    if k == "match":
        nc = nonconst_vec_leaf(env)
        if nc is None:
            return draw(simple_stmt(env))
        subj = draw(nc)
        # patterns may repeat (Python: the first matching case wins, later duplicates are dead code)
        pool = draw(st.lists(st.integers(0, (1 << env.W) - 1), min_size=1, max_size=3, unique=True))
        consts = list(pool)
        if draw(st.integers(0, 3)) == 0:
            consts.insert(draw(st.integers(1, len(consts))), draw(st.sampled_from(pool)))
        cases = [[c, draw(block(env, depth - 1, max_size=2, loop=False, in_sub=False))] for c in consts]
        dflt = draw(st.one_of(st.none(), block(env, depth - 1, max_size=2, loop=False, in_sub=False)))
        return {"k": "match", "e": subj, "cases": cases, "default": dflt}
    if k == "forbreak":
        n = draw(st.integers(1, 3))
        items = [[draw(cond_expr(env, 1)), draw(block(env, 0, max_size=2))] for _ in range(n)]
        els = draw(st.one_of(st.none(), block(env, 0, max_size=2)))
        return {"k": "forbreak", "items": items, "else": els}
    if k == "call":
        hi = draw(st.integers(0, len(env.helpers) - 1))
        h = env.helpers[hi]
        args = [draw(vec_expr(env, 1)) for _ in h["params"]]
        name = env.fresh("hv")
        env.loc_vecs.append(name)
        call = {"k": "call", "helper": hi, "args": args, "bind": name}
        tg = [n for n in env.sig_vecs if n not in env.push and not n.startswith("ls")]
        if tg and draw(st.booleans()):
            # use the merged return value right away
            return {"k": "seq", "body": [call, {"k": "assign", "t": {"name": draw(st.sampled_from(tg))}, "e": ["loc", name]}]}
        return call
    if k == "localsig":
        name = env.fresh("ls")
        if draw(st.booleans()):
            e = draw(vec_expr(env, 1))
            env.sig_vecs = env.sig_vecs + [name]
            return {"k": "localsig", "name": name, "kind": "u", "e": e}
        e = draw(bit_expr(env, 1))
        env.sig_bits = env.sig_bits + [name]
        return {"k": "localsig", "name": name, "kind": "bit", "e": e}
    if k == "localvar":
        name = env.fresh("lv")
        if draw(st.booleans()):
            e = draw(vec_expr(env, 1))
            env.var_vecs = env.var_vecs + [name]
            return {"k": "localvar", "name": name, "kind": "u", "e": e}
        e = draw(bit_expr(env, 1))
        env.var_bits = env.var_bits + [name]
        return {"k": "localvar", "name": name, "kind": "bit", "e": e}
    if k == "always":
        name = env.fresh("al")
        # an always expression may only read inputs (it is evaluated continuously, outside the process)
        ienv = env.child()
        ienv.sig_vecs, ienv.sig_bits, ienv.var_vecs, ienv.var_bits, ienv.loc_vecs, ienv.loc_bits = [], [], [], [], [], []
        ienv.readable_sigs = False
        if ienv.in_vecs and draw(st.booleans()):
            e = draw(vec_expr(ienv, 1).filter(lambda e: e[0] != "const"))
            env.loc_vecs.append(name)
        else:
            e = draw(bit_expr(ienv, 1).filter(lambda e: e[0] != "bconst"))
            env.loc_bits.append(name)
        return {"k": "always", "bind": name, "e": e, "form": draw(st.sampled_from(["call", "call", "with"]))}
    if k == "await":
        # mostly wait for conditions over inputs, so that the drawn stimulus can satisfy them
        cenv = env.inputs_only() if draw(st.integers(0, 3)) else env
        return {"k": "await", "c": draw(cond_expr(cenv, 1))}
    if k == "await_true":
        return {"k": "await", "c": draw(st.sampled_from(["true"] * 7 + ["false"]))}
    if k == "while":
        cenv = env.inputs_only() if draw(st.integers(0, 2)) else env
        c = draw(st.one_of(st.just("true"), cond_expr(cenv, 1), cond_expr(cenv, 1)))
        if draw(st.integers(0, 11)) == 0:
            c = "false"  # a loop whose condition is a compile-time False still costs the loop-entry clock
        body = draw(block(env, depth - 1, loop=True, in_sub=in_sub))
        return {"k": "while", "c": c, "body": body}
    if k == "awaitsub":
        si = draw(st.integers(0, len(env.subs) - 1))
        sub = env.subs[si]
        args = [draw(vec_expr(env, 1)) for _ in sub["params"]]
        s = {"k": "awaitsub", "sub": si, "args": args}
        if sub.get("returns"):
            name = env.fresh("rv")
            s["bind"] = name
            env.loc_vecs.append(name)
        return s
    if k in ("break", "continue"):
        return {"k": k}
    if k == "return":
        return {"k": "return", "e": None}
    raise AssertionError(k)


@st.composite
def snapshot_motif(draw, env):
    """value derived from a Variable, then the Variable is re-assigned, then the saved value is used:
    `@=` takes effect immediately, the saved intermediate must still hold the old value"""
    kinds = (["bool"] if getattr(env, "var_bools", None) else []) + (["bit"] if env.var_bits else []) + (["u"] if env.var_vecs else [])
    if env.var_vecs and env.in_vecs and env.W >= 4:
        kinds += ["ridx"]
    kind = draw(st.sampled_from(kinds))
    sig_b = [n for n in env.sig_bits if n not in env.push]
    sig_v = [n for n in env.sig_vecs if n not in env.push]
    if kind == "bool":
        v = draw(st.sampled_from(env.var_bools))
        name = env.fresh("tq")
        save = {"k": "bind", "bind": name, "e": ["tobool", ["var", v]] if draw(st.booleans()) else ["cnot", ["var", v]]}
        upd = {"k": "var", "t": {"name": v}, "e": draw(cond_expr(env.inputs_only(), 1))}
        env.loc_bools.append(name)
        use_e = ["loc", name, 1]
        tgt = sig_b
    elif kind == "ridx":
        # element selected by a Variable used directly as run-time index: the reference to the element is made with the
        # index the Variable holds at that point, a later `@=` of the Variable must not move it
        v = draw(st.sampled_from(env.var_vecs))
        name = env.fresh("tb")
        save = {"k": "bind", "bind": name, "e": ["ridx", ["in", draw(st.sampled_from(env.in_vecs))], ["uview", ["slice", ["var", v], 1, 0]]]}
        upd = {"k": "var", "t": {"name": v}, "e": draw(vec_expr(env.inputs_only(), 1))}
        env.loc_bits.append(name)
        use_e = ["loc", name, 1]
        tgt = sig_b
    elif kind == "bit":
        v = draw(st.sampled_from(env.var_bits))
        name = env.fresh("tb")
        save = {"k": "bind", "bind": name, "e": ["not", ["var", v]]}
        upd = {"k": "var", "t": {"name": v}, "e": draw(bit_expr(env.inputs_only(), 1))}
        env.loc_bits.append(name)
        use_e = ["loc", name, 1]
        tgt = sig_b
    else:
        v = draw(st.sampled_from(env.var_vecs))
        name = env.fresh("tv")
        save = {"k": "bind", "bind": name, "e": ["add", ["var", v], ["const", draw(st.integers(1, 3))]]}
        upd = {"k": "var", "t": {"name": v}, "e": draw(vec_expr(env.inputs_only(), 1))}
        env.loc_vecs.append(name)
        use_e = ["loc", name]
        tgt = sig_v
    if tgt:
        use = {"k": "assign", "t": {"name": draw(st.sampled_from(tgt))}, "e": use_e}
    else:
        use = {"k": "pass"}
    return {"k": "seq", "body": [save, upd, use]}


@st.composite
def motif(draw, env, depth, in_sub):
    """structured nestings that random composition reaches rarely: nested loops with an outer break/continue
    placed after the inner loop, awaits in else branches inside loops, continue after an await, break out of a
    nested if, await directly after a loop"""
    ienv = env.inputs_only()
    cond = lambda: cond_expr(ienv, 1)  # noqa: E731
    simple = lambda: simple_stmt(env.child())  # noqa: E731
    kind = draw(st.sampled_from(["nested_outer_exit", "await_in_else", "continue_after_await", "break_nested_if",
                                 "loop_then_await", "two_inner_loops"]))
    aw = lambda: {"k": "await", "c": draw(st.one_of(st.just("true"), cond()))}  # noqa: E731
    if kind == "nested_outer_exit":
        inner_body = [draw(simple()), aw()] + ([{"k": draw(st.sampled_from(["break", "continue"]))}] if draw(st.booleans()) else [])
        inner = {"k": "while", "c": draw(cond()), "body": inner_body}
        exit_kind = draw(st.sampled_from(["break", "break", "continue"]))
        tail = [{"k": exit_kind}] if draw(st.booleans()) else [{"k": "if", "arms": [[draw(cond()), [draw(simple()), {"k": exit_kind}]]], "else": None},
                                                                draw(simple()), aw()]
        pre = [draw(simple())] + ([aw()] if draw(st.booleans()) else [])
        return {"k": "while", "c": draw(st.one_of(st.just("true"), cond())), "body": pre + [inner] + tail}
    if kind == "two_inner_loops":
        l1 = {"k": "while", "c": draw(cond()), "body": [draw(simple()), aw()]}
        l2 = {"k": "while", "c": draw(cond()), "body": [aw(), draw(simple())]}
        return {"k": "while", "c": draw(st.one_of(st.just("true"), cond())),
                "body": [draw(simple()), l1, draw(simple()), l2, {"k": "if", "arms": [[draw(cond()), [{"k": "break"}]]], "else": None}, aw()]}
    if kind == "await_in_else":
        return {"k": "while", "c": draw(cond()), "body": [
            {"k": "if", "arms": [[draw(cond()), [draw(simple())]]], "else": [aw(), draw(simple())]}, draw(simple()), aw()]}
    if kind == "continue_after_await":
        return {"k": "while", "c": draw(st.one_of(st.just("true"), cond())), "body": [
            draw(simple()), aw(), {"k": "if", "arms": [[draw(cond()), [draw(simple()), {"k": "continue"}]]], "else": None},
            draw(simple()), aw(), {"k": "if", "arms": [[draw(cond()), [{"k": "break"}]]], "else": None}]}
    if kind == "break_nested_if":
        return {"k": "while", "c": draw(st.one_of(st.just("true"), cond())), "body": [
            aw(), {"k": "if", "arms": [[draw(cond()), [{"k": "if", "arms": [[draw(cond()), [draw(simple()), {"k": "break"}]]],
                                                          "else": [draw(simple())]}, draw(simple())]]], "else": [aw()]},
            draw(simple())]}
    # loop_then_await
    return {"k": "if", "arms": [[draw(cond()), [{"k": "while", "c": draw(cond()), "body": [draw(simple()), aw()]}, aw(), draw(simple())]]],
            "else": [draw(simple())]}


@st.composite
def helper_def(draw, idx, W):
    """a helper with `return`s in nested branches"""
    params = ["p0", "p1"][: draw(st.integers(1, 2))]
    spec = {"W": W, "inputs": [], "outputs": [], "sigs": [], "vars": []}
    env = Env(spec, "seq")
    env.loc_vecs = list(params)

    def hcond():
        # run-time conditions over the parameters (constant conditions would be folded at compile time)
        prm = st.sampled_from(params).map(lambda n: ["loc", n])
        return st.one_of(
            st.tuples(st.just("cmp"), st.sampled_from(["==", "!=", "<", ">="]), prm, st.integers(0, (1 << W) - 1).map(lambda v: ["const", v])).map(list),
            st.tuples(prm, st.integers(0, W - 1)).map(lambda t: ["idx", t[0], t[1]]),
        )

    def ret():
        # a helper never returns a bare parameter (that would alias the caller's object instead of computing a value)
        return vec_expr(env, 1).map(lambda e: {"k": "return", "e": e if e[0] not in ("loc", "in", "sig", "var") else ["inv", e]})

    def branch(depth):
        if depth == 0:
            return ret().map(lambda r: [r])
        return st.one_of(
            ret().map(lambda r: [r]),
            st.tuples(hcond(), branch(depth - 1), branch(depth - 1)).map(
                lambda t: [{"k": "if", "arms": [[t[0], t[1]]], "else": t[2]}]),
            st.tuples(hcond(), branch(depth - 1), ret()).map(
                lambda t: [{"k": "if", "arms": [[t[0], t[1]]], "else": None}, t[2]]),
            # a branch without return next to a branch with one, then a common return (fall-through paths)
            st.tuples(hcond(), vec_expr(env, 1), hcond(), ret(), ret()).map(
                lambda t: [{"k": "if", "arms": [[t[0], [{"k": "bind", "bind": "hl0", "e": ["inv", t[1]]}]], [t[2], [t[3]]]],
                            "else": None}, t[4]]),
            st.tuples(hcond(), vec_expr(env, 1), hcond(), ret(), ret()).map(
                lambda t: [{"k": "if", "arms": [[t[0], [{"k": "bind", "bind": "hl0", "e": ["inv", t[1]]}]], [t[2], [t[3]]]],
                            "else": None}, t[4]]),
        )
    body = draw(branch(2))
    return {"name": f"h{idx}", "params": params, "body": body}


@st.composite
def design(draw, flavor, reset=None, max_stmts=5, depth=2):
    """flavor: 'seq' | 'coro' | 'comb' | 'conc'"""
    W = draw(st.integers(2, 4))
    nib = draw(st.integers(1, 3))
    niv = draw(st.integers(1, 2))
    inputs = [{"name": f"ib{i}", "kind": "bit"} for i in range(nib)] + [{"name": f"iv{i}", "kind": "u"} for i in range(niv)]

    def dflt(kind, allow_none):
        v = st.integers(0, 1) if kind == "bit" else st.integers(0, (1 << W) - 1)
        # objects without default are undefined until first written: keep them, but rare, because a read of an
        # undefined object in a condition ends the comparable part of a run
        return st.integers(0, 6).flatmap(lambda k: st.none() if k == 0 else v) if allow_none else v

    outputs = []
    for i in range(draw(st.integers(1, 2))):
        outputs.append({"name": f"ob{i}", "kind": "bit", "default": draw(dflt("bit", flavor != "coro" or True))})
    for i in range(draw(st.integers(1, 2))):
        outputs.append({"name": f"ov{i}", "kind": "u", "default": draw(dflt("u", True))})
    sigs, vars_ = [], []
    if flavor in ("seq", "coro"):
        for i in range(draw(st.integers(0, 2))):
            kind = draw(st.sampled_from(["u", "u", "bit"]))
            sigs.append({"name": f"g{kind[0]}{i}", "kind": kind, "default": draw(dflt(kind, False))})
    if flavor == "comb":
        # signals the body only reads; design() assigns each exactly once from the inputs, before or *after* the reads
        # (the process then has to run again when they change: they must be in its sensitivity list)
        for i in range(draw(st.sampled_from([0, 1, 1, 2]))):
            kind = draw(st.sampled_from(["u", "u", "bit"]))
            sigs.append({"name": f"gm{i}", "kind": kind, "default": draw(dflt(kind, False)), "mid": True})
    if flavor in ("seq", "coro"):
        # (a combinational process runs an unspecified number of times per input change: persistent
        # variables and reads of its own outputs would make it depend on that number)
        for i in range(draw(st.integers(0, 2))):
            kind = draw(st.sampled_from(["u", "u", "bit"]))
            vars_.append({"name": f"v{kind[0]}{i}", "kind": kind, "default": draw(dflt(kind, False))})
    records = []
    if flavor in ("seq", "coro") and draw(st.integers(0, 3)) == 0:
        # members of a std.Record signal (resettable or marked noreset as a whole)
        qual = draw(st.sampled_from(["Signal", "NoresetSignal"]))
        nr = qual == "NoresetSignal"
        sigs.append({"name": "ra0", "kind": "u", "default": draw(dflt("u", False)), "pyref": "rc0.a", "noreset": nr})
        sigs.append({"name": "rb0", "kind": "bit", "default": draw(dflt("bit", False)), "pyref": "rc0.b", "noreset": nr})
        records.append({"name": "rc0", "cls": "Rec0", "qual": qual,
                        "members": [{"field": "a", "obj": "ra0"}, {"field": "b", "obj": "rb0"}]})
    if flavor in ("seq", "coro") and draw(st.integers(0, 2)) == 0:
        vars_.append({"name": "vq0", "kind": "bool", "default": draw(st.integers(0, 1))})
    if flavor in ("seq", "coro") and draw(st.integers(0, 2)) == 0:
        kind = draw(st.sampled_from(["u", "bit"]))
        outputs.append({"name": "op0", "kind": kind, "default": draw(dflt(kind, False)), "push": True})
        if draw(st.integers(0, 2)) == 0:
            outputs[-1]["noreset"] = True  # excluded from reset, but still returns to its default after a push
    spec = {"W": W, "inputs": inputs, "outputs": outputs, "sigs": sigs, "vars": vars_,
            "ctx": {"type": flavor, "reset": reset}, "helpers": [], "subs": [], "records": records}
    if flavor != "conc" and draw(st.integers(0, 1)) == 0:
        spec["helpers"] = [draw(helper_def(0, W))]
    env = Env(spec, flavor)
    if flavor == "coro" and draw(st.integers(0, 1)) == 0:
        nsub = draw(st.integers(1, 2))
        for i in range(nsub):
            params = ["q0"][: draw(st.integers(0, 1))]
            senv = env.child()
            senv.subs = []
            senv.loc_vecs = list(params)
            shape = draw(st.sampled_from(["flat", "deep", "early_exit", "early_exit"]))
            if shape == "early_exit":
                # a loop whose header state has several exits (condition false, break/return before the first await) while
                # another path keeps iterating: what follows `await sub()` belongs to the exits only
                ienv = senv.inputs_only()
                sm = lambda: draw(simple_stmt(senv.child()))  # noqa: E731
                opt = lambda: [sm()] if draw(st.booleans()) else []  # noqa: E731
                leave = draw(st.sampled_from([{"k": "break"}, {"k": "break"}, {"k": "return", "e": None}]))
                guard = {"k": "if", "arms": [[draw(cond_expr(ienv, 1)), opt() + [leave]]], "else": None}
                aw = {"k": "await", "c": draw(st.one_of(st.just("true"), cond_expr(ienv, 1)))}
                inner = opt() + ([guard, aw] if draw(st.integers(0, 3)) else [aw, guard]) + opt()
                wcond = draw(st.one_of(st.just("true"), cond_expr(ienv, 1)))
                after = opt()
                if draw(st.integers(0, 2)) == 0:
                    # the body ends in an unconditional return: only the break path (and a false condition) reaches what
                    # follows the loop, which then must still be executed - including its awaits
                    guard["arms"][0][1][-1] = {"k": "break"}
                    if draw(st.integers(0, 3)):
                        wcond = "true"
                    inner = opt() + [aw, guard] + opt() + [{"k": "return", "e": None}]
                    after = [sm()] + ([{"k": "await", "c": draw(st.one_of(st.just("true"), cond_expr(ienv, 1)))}]
                                      if draw(st.booleans()) else []) + [sm()]
                body = opt() + [{"k": "while", "c": wcond, "body": inner}] + after
            else:
                body = draw(block(senv, 2 if shape == "deep" else 1, min_size=1, max_size=3, in_sub=True))
            spec["subs"].append({"name": f"sub{i}", "params": params, "body": body})
        env.subs = spec["subs"]
    if flavor == "conc":
        # single assignment per target, sources read inputs only
        body = []
        for o in outputs:
            t = {"name": o["name"]}
            body.append({"k": "assign", "t": t, "e": draw(source_for(env, o["kind"], W if o["kind"] == "u" else 1))})
        spec["body"] = body
    else:
        spec["body"] = draw(block(env, depth, min_size=1, max_size=max_stmts))
        if flavor == "coro" and draw(st.integers(0, 5)) == 0:
            # `await request()`: request() acts (assignments) and returns the signal to wait for.  The call happens once,
            # its effects are an action of the process (so the await is never "the very first action")
            ienv = Env(spec, flavor).inputs_only()
            ebody = [draw(_plain_assign(Env(spec, flavor))) for _ in range(draw(st.integers(1, 2)))]
            spec["efuncs"] = [{"name": "hq0", "body": ebody, "ret": ["in", draw(st.sampled_from(ienv.in_bits))]}]
            # first or last statement of the body (in the middle it would cut the lifetime of bound intermediates)
            pos = 0 if draw(st.integers(0, 2)) else len(spec["body"])
            spec["body"].insert(pos, {"k": "awaitcall", "f": 0})
        if flavor == "coro" and spec["subs"]:
            # a sub-coroutine nobody awaits tests nothing: await each unused one somewhere at the top level (mostly)
            import json as _json
            text = _json.dumps(spec["body"])
            for si, sub in enumerate(spec["subs"]):
                if f'"sub": {si}' not in text and draw(st.integers(0, 3)):
                    ienv = Env(spec, flavor).inputs_only()
                    call = {"k": "awaitsub", "sub": si, "args": [draw(vec_expr(ienv, 1)) for _ in sub["params"]]}
                    spec["body"].insert(draw(st.integers(0, len(spec["body"]))), call)
        if flavor == "coro" and False and not _unambiguous_first(spec["body"][0]):
            # "the very first action of the process" is only unambiguous for a plain assignment, a plain
            # `await <signal>` / `await true|false` or a `while <signal>|True`: otherwise start with an assignment
            spec["body"].insert(0, draw(_plain_assign(env)))
        if flavor == "comb":
            # combinational style: every output gets a value on every path (no latches, whose content
            # after initialisation with undefined inputs is not determined by the property)
            pre = [{"k": "assign", "t": {"name": o["name"]},
                    "e": draw(source_for(Env(spec, "comb"), o["kind"], W if o["kind"] == "u" else 1))} for o in outputs]
            ienv = Env(spec, "comb").inputs_only()
            mids = [{"k": draw(st.sampled_from(["assign", "next"])), "t": {"name": o["name"]},
                     "e": draw(source_for(ienv, o["kind"], W if o["kind"] == "u" else 1))} for o in sigs if o.get("mid")]
            first = [m for m in mids if draw(st.integers(0, 2)) == 0]
            spec["body"] = first + pre + spec["body"] + [m for m in mids if m not in first]
    return spec


def _unambiguous_first(s):
    k = s["k"]
    if k in ("assign", "next", "var", "value", "push"):
        return s["t"].get("acc") is None or True
    if k == "await":
        return isinstance(s["c"], str) or s["c"][0] in ("in", "sig")
    if k == "while":
        return s["c"] == "true" or s["c"][0] in ("in", "sig")
    return False


@st.composite
def _plain_assign(draw, env):
    sig_v = [n for n in env.sig_vecs if n not in env.push]
    sig_b = [n for n in env.sig_bits if n not in env.push]
    t, (kind, w) = draw(sig_target(env, sig_v, sig_b, allow_acc=False))
    return {"k": "assign", "t": t, "e": draw(source_for(env, kind, w))}


@st.composite
def stimulus(draw, spec, n):
    W = spec["W"]
    rows = []
    for _ in range(n):
        row = {}
        for o in spec["inputs"]:
            row[o["name"]] = draw(st.integers(0, 1)) if o["kind"] == "bit" else draw(st.integers(0, (1 << W) - 1))
        rows.append(row)
    return rows
