"""Helper catalogue for property C18: for every cohdl.std combinational helper its
configuration space, the argument kinds, the call expression (source text) and the
expected result computed by cv.ref.helpers.  No cohdl import here.

A *config* is a JSON-able dict of small ints / strings.  Arguments are flat scalars
`a[0..]` of kind ("bv"|"u"|"s", width) | ("bit",) | ("bool",); lists are assembled in the
call expression.  Expected results are normal forms:

    ("bv", width, value)   a BitVector (any subtype) of exactly this width and bit pattern
    ("num", value)         an Unsigned/Signed/int with this numeric value (width not documented)
    ("bit", 0|1)           a Bit / bool with this truth value
    ("seq", [forms])       tuple / list of results
"""
from __future__ import annotations

import itertools

from cv.ref import helpers as H

VEC = {"bv": "BitVector", "u": "Unsigned", "s": "Signed"}


class Unspecified(Exception):
    """the documentation does not determine the result for these inputs"""


class Helper:
    name = ""
    family = None  # helpers sharing one implementation report under one signature
    params: dict = {}
    levels = "PT"  # observation levels that make sense without a simulator

    def valid(self, c) -> bool:
        return True

    def args(self, c) -> list:
        raise NotImplementedError

    def ok(self, c, v) -> bool:  # documented precondition on the argument values
        return True

    def expr(self, c) -> str:
        raise NotImplementedError

    def pre(self, c) -> str:  # extra module level source (constants)
        return ""

    def ref(self, c, v):
        raise NotImplementedError

    def variant(self, c) -> str:  # root-cause relevant part of the config (for signatures)
        return ""

    def nontrivial(self, c, v, exp) -> bool:
        """result differs from the all-zero / identity value"""
        return True

    def num_kinds(self, c, n):
        """'u' / 's' for each of the n numeric result ports of the simulation wrapper"""
        return ["s" if any(k[0] == "s" for k in self.args(c)) else "u"] * n

    def configs(self):
        keys = list(self.params)
        for combo in itertools.product(*[self.params[k] for k in keys]):
            c = dict(zip(keys, combo))
            if self.valid(c):
                yield c


def _lst(n, first=0):
    return "[" + ", ".join(f"a[{i}]" for i in range(first, first + n)) + "]"


def _num(v, w, t):
    return H.to_signed(v, w) if t == "s" else v


# ------------------------------------------------------------------------------ bit counting
class PopCount(Helper):
    def __init__(self, name, fn):
        self.name, self.fn = name, fn
        self.params = {"w": list(range(1, 10)), "b": [0, 1, 2, 3, 4, 5, 6, 7]}

    def args(self, c):
        return [("bv", c["w"])]

    def expr(self, c):
        return f"std.{self.name}(a[0]" + (f", batch_size={c['b']})" if c["b"] else ")")

    def ref(self, c, v):
        return ("num", self.fn(v[0], c["w"]))

    def variant(self, c):
        b = c["b"] or 6
        return f"w%b={c['w'] % b},nb={-(-c['w'] // b)}"

    def nontrivial(self, c, v, exp):
        return exp[1] != 0 and c["w"] > (c["b"] or 6)


class LeadTrail(Helper):
    def __init__(self, name, fn):
        self.name, self.fn = name, fn
        self.params = {"w": list(range(1, 9)), "t": ["bv", "u"]}

    def args(self, c):
        return [(c["t"], c["w"])]

    def expr(self, c):
        return f"std.{self.name}(a[0])"

    def ref(self, c, v):
        return ("num", self.fn(v[0], c["w"]))

    def variant(self, c):
        return c["t"]

    def nontrivial(self, c, v, exp):
        return 0 < exp[1] < c["w"]


class OneHot(Helper):
    name = "one_hot"
    params = {"w": list(range(1, 9)), "pos": list(range(0, 8)), "form": ["int", "u"]}

    def valid(self, c):
        return c["pos"] < c["w"] and (c["form"] == "int" or c["pos"] == 0)

    def args(self, c):
        return [] if c["form"] == "int" else [("u", max(1, (c["w"] - 1).bit_length()))]

    def ok(self, c, v):
        return c["form"] == "int" or v[0] < c["w"]

    def expr(self, c):
        return f"std.one_hot({c['w']}, {c['pos']})" if c["form"] == "int" else f"std.one_hot({c['w']}, a[0])"

    def ref(self, c, v):
        return ("bv", c["w"], H.one_hot(c["w"], c["pos"] if c["form"] == "int" else v[0]))

    def variant(self, c):
        return c["form"]


class IsOneHot(Helper):
    name = "is_one_hot"
    params = {"w": list(range(1, 9)), "t": ["bv", "u", "s"]}

    def args(self, c):
        return [(c["t"], c["w"])]

    def expr(self, c):
        return "std.is_one_hot(a[0])"

    def ref(self, c, v):
        return ("bit", H.is_one_hot(v[0], c["w"]))

    def variant(self, c):
        return c["t"]

    def nontrivial(self, c, v, exp):
        return exp[1] == 1


class ReverseBits(Helper):
    name = "reverse_bits"
    params = {"w": list(range(1, 9)), "t": ["bv", "u"]}

    def args(self, c):
        return [(c["t"], c["w"])]

    def expr(self, c):
        return "std.reverse_bits(a[0])"

    def ref(self, c, v):
        return ("bv", c["w"], H.reverse_bits(v[0], c["w"]))

    def nontrivial(self, c, v, exp):
        return exp[2] != v[0]


class Rotate(Helper):
    def __init__(self, name, fn):
        self.name, self.fn = name, fn
        self.params = {"w": list(range(1, 9)), "n": [-1] + list(range(0, 9)), "t": ["bv", "u"]}

    def valid(self, c):
        return c["n"] <= c["w"]

    def args(self, c):
        return [(c["t"], c["w"])]

    def expr(self, c):
        return f"std.{self.name}(a[0])" if c["n"] < 0 else f"std.{self.name}(a[0], {c['n']})"

    def ref(self, c, v):
        n = 1 if c["n"] < 0 else c["n"]
        return ("bv", c["w"], self.fn(v[0], c["w"], n))

    def variant(self, c):
        n = c["n"]
        return "default" if n < 0 else ("0" if n == 0 else ("w" if n == c["w"] else "mid"))

    def nontrivial(self, c, v, exp):
        return exp[2] != v[0]


class ShiftFill(Helper):
    def __init__(self, name, fn):
        self.name, self.fn = name, fn
        self.params = {"w": list(range(1, 7)), "fw": list(range(0, 7))}  # fw 0: fill is a Bit

    def valid(self, c):
        return c["fw"] <= c["w"]

    def args(self, c):
        return [("bv", c["w"]), ("bit",) if c["fw"] == 0 else ("bv", c["fw"])]

    def expr(self, c):
        return f"std.{self.name}(a[0], a[1])"

    def ref(self, c, v):
        return ("bv", c["w"], self.fn(v[0], c["w"], v[1], max(1, c["fw"])))

    def variant(self, c):
        return "bit" if c["fw"] == 0 else ("full" if c["fw"] == c["w"] else "part")


class Repeat(Helper):
    name = "repeat"
    params = {"w": list(range(0, 5)), "times": list(range(1, 10))}  # w 0: a Bit

    def args(self, c):
        return [("bit",) if c["w"] == 0 else ("bv", c["w"])]

    def expr(self, c):
        return f"std.repeat(a[0], {c['times']})"

    def ref(self, c, v):
        w = max(1, c["w"])
        return ("bv", w * c["times"], H.repeat(v[0], w, c["times"]))

    def variant(self, c):
        return ("bit" if c["w"] == 0 else "vec") + f",popcount(times)={bin(c['times']).count('1')}"

    def nontrivial(self, c, v, exp):
        return c["times"] > 1 and exp[2] != 0


class Stretch(Helper):
    name = "stretch"
    params = {"w": list(range(0, 6)), "f": list(range(1, 6))}

    def args(self, c):
        return [("bit",) if c["w"] == 0 else ("bv", c["w"])]

    def expr(self, c):
        return f"std.stretch(a[0], {c['f']})"

    def ref(self, c, v):
        w = max(1, c["w"])
        return ("bv", w * c["f"], H.stretch(v[0], w, c["f"]))

    def variant(self, c):
        return ("bit" if c["w"] == 0 else "vec") + (",f=1" if c["f"] == 1 else "")

    def nontrivial(self, c, v, exp):
        return c["f"] > 1 and 0 < v[0] < H.mask(max(1, c["w"]))


FILLS = ["none", "Null", "Full", "bit"]


def _fill_src(fill, argi):
    return {"none": "", "Null": ", Null", "Full": ", Full", "bit": f", a[{argi}]"}[fill]


def _fill_val(fill, v, argi):
    return {"none": 0, "Null": 0, "Full": 1}.get(fill, v[argi] if fill == "bit" else 0)


class SidePad(Helper):
    def __init__(self, name, fn):
        self.name, self.fn = name, fn
        self.params = {"w": list(range(1, 6)), "extra": list(range(0, 5)), "fill": FILLS}

    def args(self, c):
        return [("bv", c["w"])] + ([("bit",)] if c["fill"] == "bit" else [])

    def expr(self, c):
        return f"std.{self.name}(a[0], {c['w'] + c['extra']}{_fill_src(c['fill'], 1)})"

    def ref(self, c, v):
        rw = c["w"] + c["extra"]
        return ("bv", rw, self.fn(v[0], c["w"], rw, _fill_val(c["fill"], v, 1)))

    def variant(self, c):
        return c["fill"] + (",same" if c["extra"] == 0 else "")

    def nontrivial(self, c, v, exp):
        return c["extra"] > 0 and exp[2] != v[0]


class Pad(Helper):
    name = "pad"
    params = {"w": list(range(1, 5)), "l": list(range(0, 4)), "r": list(range(0, 4)),
              "fill": ["default", "None", "Null", "Full", "bit"]}

    def args(self, c):
        return [("bv", c["w"])] + ([("bit",)] if c["fill"] == "bit" else [])

    def expr(self, c):
        f = {"default": "", "None": ", fill=None", "Null": ", fill=Null", "Full": ", fill=Full", "bit": ", fill=a[1]"}[c["fill"]]
        return f"std.pad(a[0], left={c['l']}, right={c['r']}{f})"

    def ref(self, c, v):
        fill = 1 if c["fill"] == "Full" else (v[1] if c["fill"] == "bit" else 0)
        return ("bv", c["w"] + c["l"] + c["r"], H.pad(v[0], c["w"], c["l"], c["r"], fill))

    def variant(self, c):
        return c["fill"] + f",l={min(c['l'], 1)},r={min(c['r'], 1)}"

    def nontrivial(self, c, v, exp):
        return c["l"] + c["r"] > 0 and exp[2] != 0


def _shape(n, variant):
    """deterministic part widths: 0 = Bit, 1..3 = BitVector"""
    return [(i * (variant + 1) + variant) % 4 for i in range(n)]


class Concat(Helper):
    name = "concat"
    params = {"n": list(range(1, 10)), "v": list(range(0, 4))}

    def valid(self, c):
        return sum(max(1, w) for w in _shape(c["n"], c["v"])) <= 16

    def args(self, c):
        return [("bit",) if w == 0 else ("bv", w) for w in _shape(c["n"], c["v"])]

    def expr(self, c):
        return "std.concat(" + ", ".join(f"a[{i}]" for i in range(c["n"])) + ")"

    def ref(self, c, v):
        val, w = H.concat([(x, max(1, pw)) for x, pw in zip(v, _shape(c["n"], c["v"]))])
        return ("bv", w, val)

    def variant(self, c):
        return f"n={c['n']}"

    def nontrivial(self, c, v, exp):
        return c["n"] > 1 and 0 < exp[2] < H.mask(exp[1])


class ApplyMask(Helper):
    name = "apply_mask"
    params = {"w": list(range(1, 7)), "form": ["fn", "Mask", "MaskNull", "MaskFull", "as_vector", "as_vector_Null", "as_vector_Full"]}

    def args(self, c):
        f = c["form"]
        if f in ("fn", "Mask"):
            return [("bv", c["w"])] * 3
        if f in ("MaskNull", "MaskFull"):
            return [("bv", c["w"])] * 2
        if f == "as_vector":
            return [("bv", c["w"])]
        return []

    def expr(self, c):
        w = c["w"]
        return {
            "fn": "std.apply_mask(a[0], a[1], a[2])",
            "Mask": "std.Mask(a[2]).apply(a[0], a[1])",
            "MaskNull": "std.Mask(Null).apply(a[0], a[1])",
            "MaskFull": "std.Mask(Full).apply(a[0], a[1])",
            "as_vector": f"std.Mask(a[0]).as_vector({w})",
            "as_vector_Null": f"std.Mask(Null).as_vector({w})",
            "as_vector_Full": f"std.Mask(Full).as_vector({w})",
        }[c["form"]]

    def ref(self, c, v):
        w, f = c["w"], c["form"]
        full = H.mask(w)
        if f in ("fn", "Mask"):
            return ("bv", w, H.apply_mask(v[0], v[1], v[2], w))
        if f == "MaskNull":
            return ("bv", w, H.apply_mask(v[0], v[1], 0, w))
        if f == "MaskFull":
            return ("bv", w, H.apply_mask(v[0], v[1], full, w))
        m = {"as_vector": v[0] if v else 0, "as_vector_Null": 0, "as_vector_Full": full}[f]
        return ("bv", w, H.apply_mask(0, full, m, w))  # apply(zeros(width), ones(width))

    def variant(self, c):
        return c["form"]


class Batched(Helper):
    name = "batched"
    params = {"w": list(range(1, 13)), "n": list(range(1, 8)), "partial": [0, 1]}

    def valid(self, c):
        return c["partial"] == 1 or c["w"] % c["n"] == 0

    def args(self, c):
        return [("bv", c["w"])]

    def expr(self, c):
        return f"std.batched(a[0], {c['n']}" + (", allow_partial=True)" if c["partial"] else ")")

    def ref(self, c, v):
        return ("seq", [("bv", bw, bv) for bv, bw in H.batched(v[0], c["w"], c["n"])])

    def variant(self, c):
        return f"rem={c['w'] % c['n']}" + (",one" if c["w"] <= c["n"] else "")

    def nontrivial(self, c, v, exp):
        return len(exp[1]) > 1 and v[0] != 0


class SelectBatch(Helper):
    name = "select_batch"
    params = {"k": list(range(1, 6)), "b": list(range(1, 8))}

    def valid(self, c):
        return c["k"] * c["b"] <= 14

    def args(self, c):
        return [("bv", c["k"] * c["b"]), ("bv", c["k"])]

    def ok(self, c, v):
        # "using a onehot selector": other selectors are outside the documented use
        return bin(v[1]).count("1") == 1

    def expr(self, c):
        return f"std.select_batch(a[0], a[1], {c['b']})"

    def ref(self, c, v):
        return ("bv", c["b"], H.select_batch(v[0], v[1], c["k"], c["b"]))

    def variant(self, c):
        return f"k={c['k']}"

    def nontrivial(self, c, v, exp):
        return c["k"] > 1 and exp[2] != 0


KEYS = {
    # name: (source of the key function for width w, key on the raw unsigned value)
    1: (lambda w: f"lambda x: x[{w - 1}:1].unsigned", lambda v, w: v >> 1),  # ignores the lsb (ties)
    2: (lambda w: f"lambda x: x[{w - 2}:0].unsigned", lambda v, w: v & H.mask(w - 1)),  # low bits only
    3: (lambda w: "lambda x: ~x", lambda v, w: (~v) & H.mask(w)),  # reversed order
    4: (lambda w: "lambda x: x.signed", lambda v, w: H.to_signed(v, w)),  # signed view of an Unsigned
}


class MinMax(Helper):
    def __init__(self, name):
        self.name = name
        self.is_max = name.startswith("max")
        self.kind = name.split("_")[1] if "_" in name else "value"
        forms = ["list", "tuple", "args"] if self.kind == "value" else ["list", "tuple"]
        # key: 0 none | 1..4 see KEYS (orderings that differ from the elements' own);  cmp: 0 default | 2 reversed
        self.params = {"n": list(range(1, 10)), "t": ["u", "s"], "w": [2, 3], "form": forms, "key": [0, 1, 2, 3, 4],
                       "cmp": [0, 2]}

    def valid(self, c):
        if c["form"] == "args" and c["n"] < 2:
            return False  # a single positional argument is documented to be the iterable
        if c["cmp"] and c["form"] == "tuple":
            return False  # (keeps the table small)
        return not (c["key"] and c["t"] == "s")

    def args(self, c):
        return [(c["t"], c["w"])] * c["n"]

    def _smaller(self, c):
        lt = (lambda a, b: a < b)
        gt = (lambda a, b: a > b)
        default = gt if self.is_max else lt
        if not c["cmp"]:
            return default
        return lt if self.is_max else gt

    def expr(self, c):
        n = c["n"]
        items = ", ".join(f"a[{i}]" for i in range(n))
        arg = {"list": f"[{items}]", "tuple": f"({items},)", "args": items}[c["form"]]
        key = f", key={KEYS[c['key']][0](c['w'])}" if c["key"] else ""
        cmp = ""
        if c["cmp"]:
            cmp = ", cmp=lambda a, b: a " + ("<" if self.is_max else ">") + " b"
        return f"std.{self.name}({arg}{key}{cmp})"

    def ref(self, c, v):
        w, t = c["w"], c["t"]
        nums = [_num(x, w, t) for x in v]
        keys = [KEYS[c["key"]][1](x, w) for x in v] if c["key"] else nums
        idx = H.first_extreme(keys, self._smaller(c))
        if self.kind == "value":
            return ("num", nums[idx])
        if self.kind == "index":
            return ("num", idx)
        return ("seq", [("num", idx), ("num", nums[idx])])

    def variant(self, c):
        return f"{c['form']},key={c['key']},cmp={c['cmp']},{c['t']}"

    def num_kinds(self, c, n):
        return {"value": [c["t"]], "index": ["u"], "element": ["u", c["t"]]}[self.kind]

    def nontrivial(self, c, v, exp):
        return c["n"] > 2 and len(set(v)) > 1


class Count(Helper):
    name = "count"
    params = {"n": list(range(0, 10)), "w": [1, 2], "mode": ["value", "value_kw", "check"]}

    def args(self, c):
        return [("u", c["w"])] * c["n"] + ([] if c["mode"] == "check" else [("u", c["w"])])

    def expr(self, c):
        n = c["n"]
        if c["mode"] == "value":
            return f"std.count({_lst(n)}, a[{n}])"
        if c["mode"] == "value_kw":
            return f"std.count({_lst(n)}, value=a[{n}])"
        return f"std.count({_lst(n)}, check=lambda x: x[0])"

    def ref(self, c, v):
        n = c["n"]
        if c["mode"] == "check":
            return ("num", H.count([x & 1 for x in v[:n]]))
        return ("num", H.count([x == v[n] for x in v[:n]]))

    def variant(self, c):
        return c["mode"] + (",empty" if c["n"] == 0 else "")

    def nontrivial(self, c, v, exp):
        return exp[1] > 0 and c["n"] > 2


class Clamp(Helper):
    name = "clamp"
    params = {"t": ["u", "s"], "w": [3, 4], "lo": list(range(-8, 16, 3)), "span": [0, 1, 3, 6]}

    def _range(self, c):
        return (-(1 << (c["w"] - 1)), (1 << (c["w"] - 1)) - 1) if c["t"] == "s" else (0, (1 << c["w"]) - 1)

    def valid(self, c):
        lo, hi = self._range(c)
        return lo <= c["lo"] and c["lo"] + c["span"] <= hi

    def args(self, c):
        return [(c["t"], c["w"])]

    def expr(self, c):
        return f"std.clamp(a[0], {c['lo']}, {c['lo'] + c['span']})"

    def ref(self, c, v):
        return ("num", H.clamp(_num(v[0], c["w"], c["t"]), c["lo"], c["lo"] + c["span"]))

    def variant(self, c):
        return c["t"]

    def nontrivial(self, c, v, exp):
        return exp[1] != _num(v[0], c["w"], c["t"])


class CountElements(Helper):
    def __init__(self, name, fn):
        self.name, self.fn = name, fn
        self.until = name.endswith("until")
        self.params = {"n": list(range(1, 10)), "seq": ["list", "tuple", "vec0", "vec1"], "mode": ["val", "cond"]}

    def valid(self, c):
        return c["seq"] in ("list", "tuple") or c["mode"] == "val"

    def args(self, c):
        if c["seq"].startswith("vec"):
            return [("bv", c["n"])]
        return [("u", 2)] * c["n"] + ([("u", 2)] if c["mode"] == "val" else [])

    def expr(self, c):
        n = c["n"]
        if c["seq"].startswith("vec"):
            return f"std.{self.name}(a[0], Bit({c['seq'][-1] == '1'}))"
        seq = _lst(n) if c["seq"] == "list" else "(" + "".join(f"a[{i}], " for i in range(n)) + ")"
        if c["mode"] == "val":
            return f"std.{self.name}({seq}, a[{n}])"
        return f"std.{self.name}({seq}, cond=lambda x: x > 1)"

    def ref(self, c, v):
        n = c["n"]
        if c["seq"].startswith("vec"):
            sym = int(c["seq"][-1])
            preds = [b == sym for b in H.bits_lsb_first(v[0], n)]
        elif c["mode"] == "val":
            preds = [x == v[n] for x in v[:n]]
        else:
            preds = [x > 1 for x in v[:n]]
        return ("num", self.fn(preds))

    def variant(self, c):
        return f"{c['seq'][:3]},{c['mode']}"

    def nontrivial(self, c, v, exp):
        return 0 < exp[1] < c["n"]


class ChooseFirst(Helper):
    name = "choose_first"
    params = {"n": list(range(0, 7)), "ck": ["bit", "bool"], "typed": [0, 1]}

    def args(self, c):
        return [(c["ck"],)] * c["n"]

    def expr(self, c):
        pairs = "".join(f"(a[{i}], Unsigned[3]({i + 1})), " for i in range(c["n"]))
        t = "[Unsigned[3]]" if c["typed"] else ""
        return f"std.choose_first{t}({pairs}default=Unsigned[3](0))"

    def ref(self, c, v):
        return ("num", H.choose_first([(x, i + 1) for i, x in enumerate(v)], 0))

    def variant(self, c):
        return c["ck"] + (",empty" if c["n"] == 0 else "")

    def nontrivial(self, c, v, exp):
        return exp[1] > 1


class Cond(Helper):
    name = "cond"
    params = {"ck": ["bit", "bool"], "typed": [0, 1], "w": [1, 2, 3]}

    def args(self, c):
        return [(c["ck"],), ("u", c["w"]), ("u", c["w"])]

    def expr(self, c):
        t = f"[Unsigned[{c['w']}]]" if c["typed"] else ""
        return f"std.cond{t}(a[0], a[1], a[2])"

    def ref(self, c, v):
        return ("num", v[1] if v[0] else v[2])

    def variant(self, c):
        return c["ck"]

    def nontrivial(self, c, v, exp):
        return v[1] != v[2]


class Select(Helper):
    name = "select"
    # argument and keys of one type (BitVector), as in std.is_one_hot; `select_with` is documented
    # as `branches[arg] if arg in branches else default`, which settles nothing for mixed key types
    params = {"w": [1, 2, 3], "keys": list(range(0, 256, 7)), "typed": [0, 1]}

    def valid(self, c):
        return c["keys"] < (1 << (1 << c["w"]))

    def _keys(self, c):
        return [k for k in range(1 << c["w"]) if (c["keys"] >> k) & 1]

    def args(self, c):
        return [("bv", c["w"])]

    def pre(self, c):
        w = c["w"]
        items = ", ".join(f"BitVector[{w}]('{k:0{w}b}'): Unsigned[4]({k + 1})" for k in self._keys(c))
        return f"BRANCHES = {{{items}}}"

    def expr(self, c):
        t = "[Unsigned[4]]" if c["typed"] else ""
        return f"std.select{t}(a[0], BRANCHES, default=Unsigned[4](0))"

    def ref(self, c, v):
        return ("num", v[0] + 1 if v[0] in self._keys(c) else 0)

    def variant(self, c):
        return "empty" if not self._keys(c) else "keys"

    def nontrivial(self, c, v, exp):
        return exp[1] != 0


OPS = {
    "cat": ("a @ b", None),
    "or": ("a | b", lambda a, b, w: a | b),
    "and": ("a & b", lambda a, b, w: a & b),
    "xor": ("a ^ b", lambda a, b, w: a ^ b),
    "add": ("a + b", lambda a, b, w: (a + b) & H.mask(w)),
}


class Fold(Helper):
    name = "fold"
    params = {"fn": ["binary_fold", "binary_fold_right", "batched_fold"], "op": list(OPS), "n": list(range(1, 10)),
              "batch": [0, 1, 2, 3, 4, 5, 6, 7], "v": [0, 1]}

    def valid(self, c):
        if c["v"] and c["op"] != "cat":
            return False
        return c["fn"] == "batched_fold" or c["batch"] == 0

    def _widths(self, c):
        if c["op"] == "cat":
            return [1 + (i * (c["v"] + 1)) % 2 for i in range(c["n"])]
        return [2] * c["n"]

    def args(self, c):
        t = "bv" if c["op"] in ("cat",) else "u"
        return [(t, w) for w in self._widths(c)]

    def pre(self, c):
        return f"def OP(a, b):\n    return {OPS[c['op']][0]}"

    def expr(self, c):
        n = c["n"]
        if c["fn"] == "binary_fold":
            return f"std.binary_fold(OP, {_lst(n)})"
        if c["fn"] == "binary_fold_right":
            return f"std.binary_fold(OP, {_lst(n)}, right_fold=True)"
        b = f", batch_size={c['batch']}" if c["batch"] else ""
        return f"std.batched_fold(OP, {_lst(n)}{b})"

    def ref(self, c, v):
        ws = self._widths(c)
        if c["op"] == "cat":
            val, w = H.left_fold(lambda x, y: H.concat([x, y]), list(zip(v, ws)))
            return ("bv", w, val)
        f = OPS[c["op"]][1]
        return ("bv", 2, H.left_fold(lambda x, y: f(x, y, 2), list(v)))

    def variant(self, c):
        b = c["batch"] or 2
        return f"{c['fn']},{c['op']},n%b={c['n'] % b},deep={int(c['n'] > 2 * b)}"

    def nontrivial(self, c, v, exp):
        return c["n"] > 2 * (c["batch"] or 2) and exp[2] != 0


class Crc(Helper):
    name = "crc"
    levels = "P"  # the register is a Signal: only observable at plain-Python level without a simulator
    params = {"n": [3, 4, 5, 8], "poly": [0, 1, 2, 3], "init": ["default", "Null", "Full", "val"], "inv": [0, 1],
              "L": [1, 2, 3, 5, 8, 12], "k": [1, 2, 3, 4, 8]}
    POLYS = {3: [0b011, 0b101, 0b111, 0b001], 4: [0b0011, 0b1001, 0b1111, 0b0101], 5: [0b00101, 0b10101, 0b01111, 0b11011],
             8: [0x07, 0x31, 0x9B, 0xD5]}

    def valid(self, c):
        # invert_result is rejected at plain-Python level (`~` on a Signal): keep it in the table for the
        # simulated level but only for one polynomial per width, so that sampling is not dominated by it
        if c["inv"] and c["poly"] != 0:
            return False
        return c["k"] <= max(1, c["L"])

    def _poly(self, c):
        return self.POLYS[c["n"]][c["poly"]]

    def _init(self, c):
        n = c["n"]
        return {"default": 0, "Null": 0, "Full": H.mask(n), "val": (0xA5 >> (8 - n)) if n <= 8 else 0xA5}[c["init"]]

    def args(self, c):
        return [("bit",)] * c["L"]

    def pre(self, c):
        n = c["n"]
        init = {"default": "", "Null": ", initial_value=Null", "Full": ", initial_value=Full",
                "val": f", initial_value=BitVector[{n}]('{self._init(c):0{n}b}')"}[c["init"]]
        inv = ", invert_result=True" if c["inv"] else ""
        lines = ["def CRC(a):", f"    c = std.crc.BitwiseCrc(BitVector[{n}]('{self._poly(c):0{n}b}'){init}{inv})"]
        L, k = c["L"], c["k"]
        if k == 1:
            lines += [f"    c.update(a[{i}])" for i in range(L)]
        else:
            for off in range(0, L, k):
                chunk = ", ".join(f"a[{i}]" for i in range(off, min(L, off + k)))
                lines.append(f"    c.update_multiple({chunk})")
        lines.append("    return c.result()")
        return "\n".join(lines)

    def expr(self, c):
        return "CRC(a)"

    def ref(self, c, v):
        n = c["n"]
        r = H.poly_mod(list(v), self._poly(c), n, self._init(c))
        return ("bv", n, r ^ H.mask(n) if c["inv"] else r)

    def variant(self, c):
        return ("single" if c["k"] == 1 else "multi") + f",init={c['init']},inv={c['inv']}"

    def nontrivial(self, c, v, exp):
        return c["L"] >= 3 and any(v)


HELPERS = {}
for _h in [
    PopCount("count_set_bits", H.count_set_bits), PopCount("count_clear_bits", H.count_clear_bits),
    LeadTrail("count_leading_zeros", H.count_leading_zeros), LeadTrail("count_leading_ones", H.count_leading_ones),
    LeadTrail("count_trailing_zeros", H.count_trailing_zeros), LeadTrail("count_trailing_ones", H.count_trailing_ones),
    OneHot(), IsOneHot(), ReverseBits(), Rotate("rol", H.rol), Rotate("ror", H.ror),
    ShiftFill("lshift_fill", H.lshift_fill), ShiftFill("rshift_fill", H.rshift_fill),
    Repeat(), Stretch(), SidePad("leftpad", H.leftpad), SidePad("rightpad", H.rightpad), Pad(), Concat(), ApplyMask(),
    Batched(), SelectBatch(),
    MinMax("minimum"), MinMax("maximum"), MinMax("min_element"), MinMax("max_element"), MinMax("min_index"), MinMax("max_index"),
    Count(), Clamp(), CountElements("count_elements_while", H.count_elements_while),
    CountElements("count_elements_until", H.count_elements_until),
    ChooseFirst(), Cond(), Select(), Fold(), Crc(),
]:
    HELPERS[_h.name] = _h

FAMILY = {
    "count_set_bits": "popcount", "count_clear_bits": "popcount",
    "count_leading_zeros": "count_elements", "count_leading_ones": "count_elements", "count_trailing_zeros": "count_elements",
    "count_trailing_ones": "count_elements", "count_elements_while": "count_elements", "count_elements_until": "count_elements",
    "rol": "rotate", "ror": "rotate", "lshift_fill": "shift_fill", "rshift_fill": "shift_fill",
    "leftpad": "pad", "rightpad": "pad", "pad": "pad",
    "minimum": "minmax", "maximum": "minmax", "min_element": "minmax", "max_element": "minmax", "min_index": "minmax",
    "max_index": "minmax",
}

HEADER = """from __future__ import annotations
import cohdl
from cohdl import std, Bit, BitVector, Unsigned, Signed, Null, Full, Port, Signal
"""


def port_type(kind):
    if kind[0] in ("bit", "bool"):
        return "Bit"
    return f"{VEC[kind[0]]}[{kind[1]}]"


def out_ports(form, prefix="o"):
    """[(port name, kind, width or None, index path)] for an expected normal form;
    kind in bv | bit | num"""
    k = form[0]
    if k == "bv":
        return [(prefix, "bv", form[1], [])]
    if k == "bit":
        return [(prefix, "bit", None, [])]
    if k == "num":
        return [(prefix, "num", None, [])]
    out = []
    for i, f in enumerate(form[1]):
        for n, kk, w, p in out_ports(f, f"{prefix}_{i}"):
            out.append((n, kk, w, [i] + p))
    return out


def sim_shape(name, c):
    """(result ports [(name, cohdl port type, kind, index path)]) of the simulation wrapper; the shape
    (number of results, vector widths) is that of the reference result for an admissible valuation"""
    h = HELPERS[name]
    kinds = h.args(c)
    v = [0] * len(kinds)
    if not h.ok(c, v):
        v = [1] * len(kinds)
    ports = out_ports(h.ref(c, v))
    nk = h.num_kinds(c, sum(1 for p in ports if p[1] == "num"))
    res = []
    for n, kk, w, path in ports:
        if kk == "bv":
            ty = f"BitVector[{w}]"
        elif kk == "bit":
            ty = "Bit"
        else:
            # width of numeric results is not documented: a generous port, cohdl widens on assignment
            ty = "Signed[12]" if nk.pop(0) == "s" else "Unsigned[12]"
        res.append((n, ty, kk, path))
    return res


def render_module(name, c) -> str:
    """module with `call(a)`, the traced entity TopT (level T) and the entity Sim (level S)"""
    h = HELPERS[name]
    body = [HEADER]
    if h.pre(c):
        body.append(h.pre(c))
    body.append(f"def call(a):\n    return {h.expr(c)}")
    body.append(
        "ARGS = []\nRES = []\n"
        "@cohdl.pyeval\n"
        "def probe(*a):\n"
        "    RES.append(a)\n"
        "class TopT(cohdl.Entity):\n"
        "    o = Port.output(Bit)\n"
        "    def architecture(self):\n"
        "        @std.concurrent\n"
        "        def logic():\n"
        "            for k in range(len(ARGS)):\n"
        "                probe(k, call(ARGS[k]))\n"
    )
    body.append(_sim(h, c))
    return "\n\n".join(body) + "\n"


def _sim(h, c):
    if h.name == "crc":
        return _sim_crc(h, c)
    kinds = h.args(c)
    outs = sim_shape(h.name, c)
    lines = ["class Sim(cohdl.Entity):"]
    for i, k in enumerate(kinds):
        lines.append(f"    i{i} = Port.input({port_type(k)})")
    for n, t, _, _ in outs:
        lines.append(f"    {n} = Port.output({t})")
    args = "(" + "".join(f"self.i{i}, " for i in range(len(kinds))) + ")"
    lines.append("    def architecture(self):")
    lines += ["        @std.concurrent", "        def logic():"]
    lines.append(f"            r = call({args})")
    for n, t, _, path in outs:
        lines.append(f"            self.{n} <<= r" + "".join(f"[{i}]" for i in path))
    return "\n".join(lines)


def _sim_crc(h, c):
    """clocked wrapper: `clear` reloads the initial value, otherwise every rising edge feeds the k
    bits d0..d<k-1> (d0 first) - or, with `last`, only the remaining L % k bits; o = result()"""
    n, L, k = c["n"], c["L"], c["k"]
    rem = L % k
    init = {"default": "", "Null": ", initial_value=Null", "Full": ", initial_value=Full",
            "val": f", initial_value=BitVector[{n}]('{h._init(c):0{n}b}')"}[c["init"]]
    inv = ", invert_result=True" if c["inv"] else ""
    lines = ["class Sim(cohdl.Entity):", "    clk = Port.input(Bit)", "    clear = Port.input(Bit)", "    last = Port.input(Bit)"]
    lines += [f"    d{i} = Port.input(Bit)" for i in range(k)]
    lines.append(f"    o = Port.output(BitVector[{n}])")
    lines.append("    def architecture(self):")
    lines.append(f"        crc = std.crc.BitwiseCrc(BitVector[{n}]('{h._poly(c):0{n}b}'){init}{inv})")
    lines += ["        @std.sequential(std.Clock(self.clk))", "        def proc():", "            if self.clear:",
              "                crc.clear()"]
    full = "crc.update(self.d0)" if k == 1 else "crc.update_multiple(" + ", ".join(f"self.d{i}" for i in range(k)) + ")"
    if rem:
        part = "crc.update(self.d0)" if rem == 1 and k == 1 else \
            "crc.update_multiple(" + ", ".join(f"self.d{i}" for i in range(rem)) + ")"
        lines += ["            elif self.last:", f"                {part}"]
    lines += ["            else:", f"                {full}"]
    lines += ["        @std.concurrent", "        def outp():", "            self.o <<= crc.result()"]
    return "\n".join(lines)
