"""C16: wrapper entities for the std timing utilities.

kinds: wait (std.wait_for / Waiter.wait_for), delay (std.delayed / DelayLine), counter
(continuous_counter), clkdiv (ClockDivider), toggle (ToggleSignal), debounce.
Every wrapper exports marker outputs only; nothing here computes an expectation.
"""
from __future__ import annotations

_HEAD = '''from __future__ import annotations
import cohdl
from cohdl import std, Bit, BitVector, Port, Unsigned, Signed, Signal, Null, Full

'''


def _clock(cfg):
    f = cfg.get("freq_mhz")
    if f is None:
        return "std.Clock(self.clk)"
    return f"std.Clock(self.clk, frequency=std.MHz({f}))"


def _dur(ns):
    # mix the unit helpers: value in ns given as ns / ps / us
    if isinstance(ns, dict):
        return f"std.{ns['unit']}({ns['val']})"
    return f"std.ns({ns})"


# ----------------------------------------------------------------------------- wait_for
def _wait_expr(i, w):
    """w = {"api": "std"|"waiter", "kind": "const"|"rt"|"dur", "n": int | None, "dur": {...}, "allow_zero": bool}"""
    if w["kind"] == "const":
        arg = str(w["n"])
    elif w["kind"] == "rt":
        arg = f"self.n{i}"
    else:
        arg = _dur(w["dur"])
    az = ", allow_zero=True" if w.get("allow_zero") else ""
    if w["api"] == "std":
        return f"std.wait_for({arg}{az})"
    return f"waiter.wait_for({arg}{az})"


def render_wait(cfg) -> str:
    pw = cfg.get("port_width", 3)
    s = _HEAD + "class Top(cohdl.Entity):\n"
    s += "    clk = Port.input(Bit)\n    start = Port.input(Bit)\n"
    s += f"    n0 = Port.input(Unsigned[{pw}])\n    n1 = Port.input(Unsigned[{pw}])\n"
    s += "    o_before = Port.output(Bit, default=False)\n    o_mid = Port.output(Bit, default=False)\n"
    s += "    o_after = Port.output(Bit, default=False)\n\n"
    s += "    def architecture(self):\n"
    s += f"        ctx = std.SequentialContext({_clock(cfg)})\n"
    if any(w["api"] == "waiter" for w in cfg["waits"]):
        wm = cfg["waiter_max"]
        s += f"        waiter = std.Waiter({_dur(wm) if isinstance(wm, dict) else wm})\n"
    s += "\n        @ctx\n        async def proc():\n            await self.start\n            self.o_before ^= True\n"
    ws = cfg["waits"]
    s += f"            await {_wait_expr(0, ws[0])}\n"
    if len(ws) == 2:
        s += "            self.o_mid ^= True\n"
        s += f"            await {_wait_expr(1, ws[1])}\n"
    s += "            self.o_after ^= True\n"
    return s


# ----------------------------------------------------------------------------- delayed / DelayLine
ELEM = {
    "bit": ("Bit", 1, False),
    "bv3": ("BitVector[3]", 3, False),
    "u3": ("Unsigned[3]", 3, False),
    "s3": ("Signed[3]", 3, True),
}


def _initial(elem, init):
    if init == "none":
        return ""
    if init in ("Null", "Full"):
        return f", initial={init}"
    lit = {"bit": "True", "bv3": 'BitVector[3]("101")', "u3": "Unsigned[3](5)", "s3": "Signed[3](-3)"}[elem]
    return f", initial={lit}"


def render_delay(cfg) -> str:
    T, _w, _sg = ELEM[cfg["elem"]]
    n = cfg["n"]
    ini = _initial(cfg["elem"], cfg["init"])
    s = _HEAD + "class Top(cohdl.Entity):\n"
    s += f"    clk = Port.input(Bit)\n    en = Port.input(Bit)\n    inp = Port.input({T})\n"
    s += f"    o_ref = Port.output({T})\n    o_d = Port.output({T})\n"
    taps = list(range(0, n + 1)) if cfg["usage"] in ("line", "ctx_arg") else []
    for k in taps:
        s += f"    o_t{k} = Port.output({T})\n"
    s += "\n    def architecture(self):\n"
    s += "        ctx = std.SequentialContext(std.Clock(self.clk))\n"
    u = cfg["usage"]
    if u == "ctx_arg":
        s += f"        line = std.DelayLine(self.inp, {n}{ini}, ctx=ctx)\n"
    s += "\n        @ctx\n        def proc():\n            self.o_ref <<= self.inp\n"
    if u == "inline":
        s += f"            self.o_d <<= std.delayed(self.inp, {n}{ini})\n"
    elif u == "inline_en":
        s += f"            if self.en:\n                self.o_d <<= std.delayed(self.inp, {n}{ini})\n"
    else:
        if u == "line":
            s += f"            line = std.DelayLine(self.inp, {n}{ini})\n"
        s += "            self.o_d <<= line.last()\n"
        for k in taps:
            s += f"            self.o_t{k} <<= line[{k}]\n"
    return s


# ----------------------------------------------------------------------------- continuous_counter
def render_counter(cfg) -> str:
    rt = cfg["limit_kind"] == "rt"
    pw = cfg.get("port_width", 3)
    if rt:
        cw = pw
    else:
        cw = max(1, int(cfg["limit"]).bit_length())
    s = _HEAD + "class Top(cohdl.Entity):\n"
    s += f"    clk = Port.input(Bit)\n    rst = Port.input(Bit)\n    lim = Port.input(Unsigned[{pw}])\n"
    s += f"    o_cnt = Port.output(Unsigned[{cw}])\n    o_cb = Port.output(Unsigned[{cw}], default=0)\n\n"
    s += "    def architecture(self):\n"
    if cfg.get("reset"):
        s += "        ctx = std.SequentialContext(std.Clock(self.clk), std.Reset(self.rst))\n"
    else:
        s += "        ctx = std.SequentialContext(std.Clock(self.clk))\n"
    s += "\n        def on_change(v):\n            self.o_cb <<= v\n\n"
    lim = "self.lim" if rt else str(cfg["limit"])
    cb = ", on_change=on_change" if cfg.get("callback", True) else ""
    s += f"        cnt = std.continuous_counter(ctx, {lim}{cb})\n"
    s += "        std.concurrent_assign(self.o_cnt, cnt)\n"
    if not cfg.get("callback", True):
        s += "        std.concurrent_assign(self.o_cb, cnt)\n"
    return s


# ----------------------------------------------------------------------------- ClockDivider / ToggleSignal
def _period_arg(p, port):
    if p["kind"] == "const":
        return str(p["n"])
    if p["kind"] == "rt":
        return f"self.{port}"
    return _dur(p["dur"])


def render_gen(cfg) -> str:
    """cfg["comp"] in ("clkdiv", "toggle")"""
    pw = cfg.get("port_width", 3)
    s = _HEAD + "class Top(cohdl.Entity):\n"
    s += "    clk = Port.input(Bit)\n    en = Port.input(Bit)\n    dis = Port.input(Bit)\n    rst = Port.input(Bit)\n"
    s += f"    d0 = Port.input(Unsigned[{pw}])\n    d1 = Port.input(Unsigned[{pw}])\n"
    s += "    o_state = Port.output(Bit)\n    o_rise = Port.output(Bit)\n    o_fall = Port.output(Bit)\n"
    s += "    o_cbr = Port.output(Bit, default=False)\n    o_cbf = Port.output(Bit, default=False)\n\n"
    s += "    def architecture(self):\n"
    cr = cfg.get("ctx_reset")  # None | high | low | high_async | low_async : reset of the context the generator is built from
    if cr:
        kw_r = (", active_low=True" if cr.startswith("low") else "") + (", is_async=True" if cr.endswith("async") else "")
        s += f"        ctx = std.SequentialContext({_clock(cfg)}, std.Reset(self.rst{kw_r}))\n\n"
    else:
        s += f"        ctx = std.SequentialContext({_clock(cfg)})\n\n"
    s += "        def on_r():\n            self.o_cbr ^= True\n\n        def on_f():\n            self.o_cbf ^= True\n\n"
    kw = ""
    if cfg.get("default_state"):
        kw += ", default_state=True"
    if cfg.get("require_enable"):
        kw += ", require_enable=True"
    if cfg.get("callbacks"):
        kw += ", on_rising=on_r, on_falling=on_f"
    if cfg["comp"] == "clkdiv":
        if cfg.get("tick_at_start"):
            kw += ", tick_at_start=True"
        s += f"        gen = std.ClockDivider(ctx, {_period_arg(cfg['p0'], 'd0')}{kw})\n"
    else:
        if cfg.get("first_state"):
            kw += ", first_state=True"
        second = "" if cfg.get("p1") is None else ", " + _period_arg(cfg["p1"], "d1")
        s += f"        gen = std.ToggleSignal(ctx, {_period_arg(cfg['p0'], 'd0')}{second}{kw})\n"
    drive = cfg.get("drive", "none")
    if drive == "method":
        s += "\n        @ctx\n        def ctl():\n            if self.en:\n                gen.enable()\n"
        s += "            else:\n                gen.disable()\n"
    elif drive == "signal":
        s += "        std.concurrent_assign(gen.get_reset_signal(), self.dis)\n"
    s += "\n        @std.concurrent\n        def logic():\n"
    s += "            self.o_state <<= gen.state()\n            self.o_rise <<= gen.rising()\n            self.o_fall <<= gen.falling()\n"
    return s


# ----------------------------------------------------------------------------- debounce
def render_debounce(cfg) -> str:
    s = _HEAD + "class Top(cohdl.Entity):\n"
    s += "    clk = Port.input(Bit)\n    inp = Port.input(Bit)\n    o = Port.output(Bit)\n\n"
    s += "    def architecture(self):\n"
    s += f"        ctx = std.SequentialContext({_clock(cfg)})\n"
    p = cfg["period"]
    arg = _dur(p["dur"]) if isinstance(p, dict) else str(p)
    ini = ", initial=True" if cfg.get("initial") else ""
    s += f"        std.concurrent_assign(self.o, std.debounce(ctx, self.inp, {arg}{ini}))\n"
    return s


def render(case_kind, cfg) -> str:
    return {
        "wait": render_wait,
        "delay": render_delay,
        "counter": render_counter,
        "clkdiv": render_gen,
        "toggle": render_gen,
        "debounce": render_debounce,
    }[case_kind](cfg)
