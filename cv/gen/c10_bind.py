"""C10 generator (a): function signatures x call shapes (argument binding).

A *signature* is a list of parameters ``[name, kind, has_default]`` with kind in
    po  positional-only      n   positional-or-keyword
    va  *args                ko  keyword-only          kw  **kwargs
in the only order Python accepts.  A *call* is a list of items
    ["p", v]                 positional value
    ["s", [v, ...], form]    *[...] / *(...)
    ["k", name, v]           keyword
    ["d", [[name, v], ...]]  **{...}
rendered as: positional and starred items in their order, then keyword and
double-starred items in their order (the only orders the grammar allows are
permutations of this that do not change the ast.Call args/keywords lists).

All values are distinct small ints, so the returned tuple shows which argument
went where.  Everything here is plain data + text rendering: no cohdl import.
"""
from __future__ import annotations

import itertools

from hypothesis import strategies as st

CONTEXTS = ["mod", "local", "lambda", "modlambda", "method", "static", "classm", "callobj", "init"]
NAMES = ["a", "b", "c", "d", "e", "f"]
UNKNOWN = "zz"


# ------------------------------------------------------------------ signatures
def signatures(max_params: int):
    """All valid signatures with at most max_params parameters (incl. *a / **k)."""
    out = []
    for n_po, n_n, va, n_ko, kw in itertools.product(range(max_params + 1), range(max_params + 1), (0, 1),
                                                     range(max_params + 1), (0, 1)):
        if n_po + n_n + va + n_ko + kw > max_params:
            continue
        npos = n_po + n_n
        for ndef in range(npos + 1):  # trailing positional defaults
            for kodef in itertools.product((False, True), repeat=n_ko):
                names = iter(NAMES)
                sig = []
                for i in range(n_po):
                    sig.append([next(names), "po", i >= npos - ndef])
                for i in range(n_n):
                    sig.append([next(names), "n", n_po + i >= npos - ndef])
                if va:
                    sig.append(["r", "va", False])
                for i in range(n_ko):
                    sig.append([next(names), "ko", kodef[i]])
                if kw:
                    sig.append(["k", "kw", False])
                out.append(sig)
    return out


def _kwnames(sig):
    return [p[0] for p in sig if p[1] in ("po", "n", "ko")] + [UNKNOWN]


_calls_cache = {}


def calls(sig, max_values: int):
    """All call shapes with at most max_values argument values in total (depends on the keyword names only)."""
    names = _kwnames(sig)
    key = (tuple(names), max_values)
    if key not in _calls_cache:
        _calls_cache[key] = _calls(names, max_values)
    return _calls_cache[key]


def _calls(names, max_values):
    pos_items = [("p",), ("s", 0), ("s", 1), ("s", 2)]
    out = []

    def pos_part(budget):
        # sequences of positional / starred items using <= budget values; at most 2 starred items
        res = [[]]
        frontier = [([], 0, 0)]
        while frontier:
            seq, used, stars = frontier.pop()
            for it in pos_items:
                cost = 1 if it[0] == "p" else it[1]
                nstars = stars + (it[0] == "s")
                if used + cost > budget or nstars > 2 or len(seq) >= 4:
                    continue
                if it[0] == "s" and seq and seq[-1][0] == "s" and seq[-1][1] == 0 and it[1] == 0:
                    continue
                s2 = seq + [it]
                res.append(s2)
                frontier.append((s2, used + cost, nstars))
        return res

    def kw_part(budget):
        # sequences of keyword / double-starred items; explicit keyword names are unique (syntax)
        res = [[]]
        frontier = [([], 0)]
        while frontier:
            seq, used = frontier.pop()
            if len(seq) >= 3:
                continue
            explicit = {it[1] for it in seq if it[0] == "k"}
            nd = sum(1 for it in seq if it[0] == "d")
            opts = [("k", n) for n in names if n not in explicit]
            if nd < 2:
                opts.append(("d", ()))
                opts += [("d", (n,)) for n in names]
                opts += [("d", c) for c in itertools.combinations(names, 2)]
            for it in opts:
                cost = 1 if it[0] == "k" else len(it[1])
                if used + cost > budget:
                    continue
                if it[0] == "d" and not it[1] and seq and seq[-1] == ("d", ()):
                    continue
                s2 = seq + [it]
                res.append(s2)
                frontier.append((s2, used + cost))
        return res

    def cost(seq):
        return sum(1 if it[0] in ("p", "k") else (it[1] if it[0] == "s" else len(it[1])) for it in seq)

    pp = pos_part(max_values)
    kp = kw_part(max_values)
    for ps in pp:
        cp = cost(ps)
        for ks in kp:
            if cp + cost(ks) > max_values:
                continue
            out.append(_concrete(ps, ks))
    return out


def _concrete(ps, ks):
    """Attach distinct values."""
    v = itertools.count(11)
    call = []
    for i, it in enumerate(ps):
        if it[0] == "p":
            call.append(["p", next(v)])
        else:
            call.append(["s", [next(v) for _ in range(it[1])], "list" if i % 2 == 0 else "tuple"])
    for it in ks:
        if it[0] == "k":
            call.append(["k", it[1], next(v)])
        else:
            call.append(["d", [[n, next(v)] for n in it[1]]])
    return call


# ------------------------------------------------------------------ hypothesis (bigger)
@st.composite
def signature_strategy(draw, max_params=6):
    n_po = draw(st.integers(0, 3))
    n_n = draw(st.integers(0, 3))
    va = draw(st.booleans())
    n_ko = draw(st.integers(0, 3))
    kw = draw(st.booleans())
    while n_po + n_n + n_ko + va + kw > max_params:
        if n_ko:
            n_ko -= 1
        elif n_po:
            n_po -= 1
        else:
            n_n -= 1
    npos = n_po + n_n
    ndef = draw(st.integers(0, npos))
    names = iter(NAMES)
    sig = []
    for i in range(n_po):
        sig.append([next(names), "po", i >= npos - ndef])
    for i in range(n_n):
        sig.append([next(names), "n", n_po + i >= npos - ndef])
    if va:
        sig.append(["r", "va", False])
    for i in range(n_ko):
        sig.append([next(names), "ko", draw(st.booleans())])
    if kw:
        sig.append(["k", "kw", False])
    return sig


@st.composite
def call_strategy(draw, sig, valid_bias=True):
    """A call for sig: either a mutation of a binding-correct call or a free shape."""
    names = _kwnames(sig)
    v = itertools.count(11)
    call = []
    if draw(st.integers(0, 3)) > 0 and valid_bias:
        # start from a call that binds, then perturb
        positional = [p for p in sig if p[1] in ("po", "n")]
        min_k = max([i + 1 for i, p in enumerate(positional) if p[1] == "po" and not p[2]], default=0)
        k = draw(st.integers(min_k, len(positional)))
        pos = [p[0] for p in positional[:k]]
        kws = [p[0] for p in positional[k:] if p[1] == "n" and (not p[2] or draw(st.booleans()))]
        kws += [p[0] for p in sig if p[1] == "ko" and (not p[2] or draw(st.booleans()))]
        nextra = draw(st.integers(0, 2)) if (any(p[1] == "va" for p in sig) and k == len(positional)) else 0
        posvals = [next(v) for _ in range(len(pos) + nextra)]
        # split positional values into p / s items
        i = 0
        while i < len(posvals):
            if draw(st.integers(0, 3)) == 0:
                n = draw(st.integers(0, min(3, len(posvals) - i)))
                call.append(["s", posvals[i:i + n], draw(st.sampled_from(["list", "tuple"]))])
                i += n
            else:
                call.append(["p", posvals[i]])
                i += 1
        if any(p[1] == "kw" for p in sig) and draw(st.booleans()):
            kws.append(draw(st.sampled_from([UNKNOWN, "yy"])))
        kws = draw(st.permutations(kws))
        i = 0
        explicit = set()
        while i < len(kws):
            if draw(st.integers(0, 3)) == 0:
                n = draw(st.integers(0, min(3, len(kws) - i)))
                call.append(["d", [[k, next(v)] for k in kws[i:i + n]]])
                i += n
            else:
                call.append(["k", kws[i], next(v)])
                explicit.add(kws[i])
                i += 1
        # perturbation
        mut = draw(st.sampled_from(["none", "none", "drop", "dup_kw", "dup_d", "extra_p", "extra_k", "po_as_kw"]))
        if mut == "drop" and call:
            del call[draw(st.integers(0, len(call) - 1))]
        elif mut == "dup_kw":
            cand = [n for n in names if n not in explicit]
            if cand:
                call.append(["k", draw(st.sampled_from(cand)), next(v)])
        elif mut == "dup_d":
            call.append(["d", [[draw(st.sampled_from(names)), next(v)]]])
        elif mut == "extra_p":
            call.insert(0, ["p", next(v)])
        elif mut == "extra_k":
            if UNKNOWN not in explicit:
                call.append(["k", UNKNOWN, next(v)])
        elif mut == "po_as_kw":
            po = [p[0] for p in sig if p[1] == "po" and p[0] not in explicit]
            if po:
                call.append(["k", draw(st.sampled_from(po)), next(v)])
    else:
        for _ in range(draw(st.integers(0, 4))):
            if draw(st.integers(0, 2)) == 0:
                call.append(["s", [next(v) for _ in range(draw(st.integers(0, 3)))],
                             draw(st.sampled_from(["list", "tuple"]))])
            else:
                call.append(["p", next(v)])
        explicit = set()
        for _ in range(draw(st.integers(0, 4))):
            if draw(st.integers(0, 2)) == 0:
                ks = draw(st.lists(st.sampled_from(names), max_size=3, unique=True))
                call.append(["d", [[k, next(v)] for k in ks]])
            else:
                cand = [n for n in names if n not in explicit]
                if cand:
                    k = draw(st.sampled_from(cand))
                    explicit.add(k)
                    call.append(["k", k, next(v)])
    # canonical order: positional / starred first
    call = [c for c in call if c[0] in ("p", "s")] + [c for c in call if c[0] in ("k", "d")]
    return call


@st.composite
def bind_case(draw, contexts=CONTEXTS):
    sig = draw(signature_strategy())
    ctx = draw(st.sampled_from(contexts))
    call = draw(call_strategy(sig))
    return {"kind": "bind", "ctx": ctx, "sig": sig, "call": call}


# ------------------------------------------------------------------ rendering
def render_sig(sig, self_name=None):
    parts = []
    if self_name:
        parts.append(self_name)
    kinds = [p[1] for p in sig]
    n_po = kinds.count("po")
    seen_po = 0
    star_done = False
    for idx, (name, kind, dflt) in enumerate(sig):
        if kind == "po":
            parts.append(f"{name}={100 + idx}" if dflt else name)
            seen_po += 1
            if seen_po == n_po:
                parts.append("/")
        elif kind == "n":
            parts.append(f"{name}={100 + idx}" if dflt else name)
        elif kind == "va":
            parts.append(f"*{name}")
            star_done = True
        elif kind == "ko":
            if not star_done:
                parts.append("*")
                star_done = True
            parts.append(f"{name}={100 + idx}" if dflt else name)
        elif kind == "kw":
            parts.append(f"**{name}")
    return ", ".join(parts)


def result_tuple(sig):
    names = [p[0] for p in sig]
    if not names:
        return "()"
    return "(" + ", ".join(names) + ",)"


def render_call_args(call):
    parts = []
    for it in call:
        if it[0] == "p":
            parts.append(str(it[1]))
        elif it[0] == "s":
            body = ", ".join(map(str, it[1]))
            if it[2] == "list":
                parts.append(f"*[{body}]")
            else:
                parts.append(f"*({body}{',' if len(it[1]) == 1 else ''})")
        elif it[0] == "k":
            parts.append(f"{it[1]}={it[2]}")
        elif it[0] == "d":
            parts.append("**{" + ", ".join(f'"{k}": {v}' for k, v in it[1]) + "}")
    return ", ".join(parts)


def render(case):
    """-> (module level definitions, body lines of run(), result expression)."""
    sig, ctx, call = case["sig"], case["ctx"], case["call"]
    args = render_call_args(call)
    res = result_tuple(sig)
    defs, body = [], []
    if ctx == "mod":
        defs += [f"def fn({render_sig(sig)}):", f"    return {res}"]
        expr = f"fn({args})"
    elif ctx == "local":
        body += [f"def fn({render_sig(sig)}):", f"    return {res}"]
        expr = f"fn({args})"
    elif ctx == "lambda":
        body += [f"fn = lambda {render_sig(sig)}: {res}"]
        expr = f"fn({args})"
    elif ctx == "modlambda":
        defs += [f"fn = lambda {render_sig(sig)}: {res}"]
        expr = f"fn({args})"
    elif ctx == "method":
        defs += ["class Cls:", f"    def fn({render_sig(sig, 'self')}):", f"        return {res}"]
        expr = f"Cls().fn({args})"
    elif ctx == "static":
        defs += ["class Cls:", "    @staticmethod", f"    def fn({render_sig(sig)}):", f"        return {res}"]
        expr = f"Cls.fn({args})"
    elif ctx == "classm":
        defs += ["class Cls:", "    @classmethod", f"    def fn({render_sig(sig, 'cls')}):", f"        return {res}"]
        expr = f"Cls.fn({args})"
    elif ctx == "callobj":
        defs += ["class Cls:", f"    def __call__({render_sig(sig, 'self')}):", f"        return {res}"]
        body += ["obj = Cls()"]
        expr = f"obj({args})"
    elif ctx == "init":
        defs += ["class Cls:", f"    def __init__({render_sig(sig, 'self')}):", f"        self.res = {res}"]
        expr = f"Cls({args}).res"
    else:
        raise ValueError(ctx)
    return defs, body, expr


# ------------------------------------------------------------------ independent model of binding
def model_bind(sig, call):
    """Python's binding rules written out (PEP 570/3102): -> ("ok", {name: value}) or ("err", category).

    Used only to *classify* a CPython TypeError (root-cause signature) and to cross-check
    the generator; the expected value itself always comes from running CPython.
    """
    pos, kws = [], {}
    for it in call:
        if it[0] == "p":
            pos.append(it[1])
        elif it[0] == "s":
            pos.extend(it[1])
    for it in call:
        if it[0] == "k":
            if it[1] in kws:
                return ("err", "dup_keyword")
            kws[it[1]] = it[2]
        elif it[0] == "d":
            for k, v in it[1]:
                if k in kws:
                    return ("err", "dup_keyword")
                kws[k] = v
    bound = {}
    positional = [p for p in sig if p[1] in ("po", "n")]
    has_va = any(p[1] == "va" for p in sig)
    has_kw = any(p[1] == "kw" for p in sig)
    for p, v in zip(positional, pos):
        bound[p[0]] = v
    extra = pos[len(positional):]
    if extra and not has_va:
        return ("err", "too_many_positional")
    rest = dict(kws)
    for name, kind, dflt in sig:
        if kind in ("n", "ko") and name in rest:
            if name in bound:
                return ("err", "multiple_values")
            bound[name] = rest.pop(name)
    po_kw = [p[0] for p in sig if p[1] == "po" and p[0] in rest]
    if po_kw and not has_kw:
        # CPython reports this before/instead of "unexpected keyword"
        return ("err", "posonly_as_keyword")
    if rest and not has_kw:
        return ("err", "unexpected_keyword")
    for idx, (name, kind, dflt) in enumerate(sig):
        if kind in ("po", "n", "ko") and name not in bound:
            if dflt:
                bound[name] = 100 + idx
            else:
                return ("err", "missing_kwonly" if kind == "ko" else "missing_positional")
    for name, kind, dflt in sig:
        if kind == "va":
            bound[name] = tuple(extra)
        elif kind == "kw":
            bound[name] = rest
    return ("ok", bound)


def sources(sig, call):
    """name -> how the parameter got its value (for signatures of findings)."""
    src = {}
    positional = [p for p in sig if p[1] in ("po", "n")]
    i = 0
    for it in call:
        if it[0] == "p":
            if i < len(positional):
                src[positional[i][0]] = "positional"
            i += 1
        elif it[0] == "s":
            for _ in it[1]:
                if i < len(positional):
                    src[positional[i][0]] = "star"
                i += 1
    by_name = {p[0] for p in sig if p[1] in ("n", "ko")}  # positional-only names never bind by keyword
    for it in call:
        if it[0] == "k" and it[1] in by_name:
            src.setdefault(it[1], "keyword")
        elif it[0] == "d":
            for k, _ in it[1]:
                if k in by_name:
                    src.setdefault(k, "dstar")
    for name, kind, dflt in sig:
        if kind in ("po", "n", "ko") and name not in src:
            src[name] = "default"
    return src
