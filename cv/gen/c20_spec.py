"""C20 - Hypothesis strategies: RegMapSpec (register map layout + hardware side) and master schedules.

case = {"map": RegMapSpec, "schedules": [Schedule...]}   (formats: cv.ref.axi)
"""
from __future__ import annotations

from hypothesis import strategies as st

from cv.ref.axi import flatten

DATA_PATTERNS = [0xFFFFFFFF, 0xA5A5A5A5, 0x5A5A5A5A, 0x80000001, 0x00FF00FF, 0xFF00FF00, 0x12345678, 0x0F0F0F0F,
                 0xFFFF0000, 0x0000FFFF]


def _data(draw):
    if draw(st.integers(0, 2)) == 0:
        return draw(st.sampled_from(DATA_PATTERNS))
    return draw(st.integers(0, 0xFFFFFFFF))


# ------------------------------------------------------------------------------ register classes
def _reg_class(draw, idx, hw):
    # cut the 32 bits into ranges; field boundaries are mostly not byte aligned
    n_fields = draw(st.sampled_from([1, 2, 2, 3, 3, 4] if idx else [2, 2, 3, 3, 4]))
    cuts = sorted(draw(st.sets(st.integers(1, 31), min_size=2 * n_fields - 1, max_size=2 * n_fields - 1)))
    bounds = [0] + cuts + [32]
    fields = []
    # every second range is a field, the others are gaps (sometimes a gap is used as well)
    k = 0
    for i in range(len(bounds) - 1):
        lo, hi = bounds[i], bounds[i + 1] - 1
        use = i % 2 == 0 or draw(st.integers(0, 3)) == 0
        if not use or len(fields) >= 4:
            continue
        kind = draw(st.sampled_from(["memfield", "memfield", "memufield", "memufield", "field", "ufield", "flag"]))
        if idx == 0 and len(fields) < 2:
            kind = draw(st.sampled_from(["memfield", "memufield", "memfield", "flag"]))   # multi-field storage
        f = {"name": f"f{k}", "kind": kind, "hi": hi, "lo": lo, "bit": False, "default": None}
        k += 1
        w = hi - lo + 1
        if kind == "flag":
            f["hi"] = f["lo"] = draw(st.integers(lo, hi))
        else:
            if w > 16:
                f["hi"] = hi = lo + draw(st.integers(3, 15))
                w = hi - lo + 1
            if w == 1 and kind in ("field", "memfield") and draw(st.booleans()):
                f["bit"] = True
            f["default"] = draw(st.sampled_from([0, 0, (1 << w) - 1, draw(st.integers(0, (1 << w) - 1))]))
            if kind in ("field", "ufield"):
                f["hw"] = hw and draw(st.integers(0, 3)) != 0
        fields.append(f)
    notify = []
    for j in range(draw(st.sampled_from([0, 0, 1, 1, 2]))):
        notify.append({"name": f"n{j}", "kind": draw(st.sampled_from(["push", "flag"])),
                       "on": draw(st.sampled_from(["r", "w"]))})
    if not hw:
        notify = []
    return {"name": f"RC{idx}", "fields": fields, "notify": notify}


def _leaf_item(draw, name, n_classes, hw, allow_io=True):
    kinds = ["memword", "memuword", "word", "uword"] + ["reg"] * 5
    if hw and allow_io:
        kinds += ["input", "output"]
    what = draw(st.sampled_from(kinds))
    it = {"name": name, "what": what, "off": 0}
    if what in ("memword", "memuword", "word", "uword"):
        it["default"] = draw(st.sampled_from([0, 0, 1234, 0xFFFFFFFF, 0x80000000]))
        if what in ("word", "uword"):
            it["hw"] = hw and draw(st.integers(0, 3)) != 0
    elif what == "reg":
        it["cls"] = draw(st.integers(0, n_classes - 1))
    else:
        w = draw(st.integers(1, 32))
        off = draw(st.integers(0, 32 - w))
        it.update(w=w, offset=off, cfg=draw(st.sampled_from(["lsbs", "msbs", "explicit"])))
    return it


def _file(draw, name, depth, n_classes, hw):
    """RegFile with 1-3 leaf members and, while depth > 1, one nested RegFile at a non-zero offset"""
    members = []
    mcur = 0
    for j in range(draw(st.integers(1, 2))):
        m = _leaf_item(draw, f"s{j}", n_classes, hw)
        m["off"] = mcur + 4 * draw(st.sampled_from([0, 0, 1, 3]))
        mcur = m["off"] + 4
        members.append(m)
    if depth > 1:
        inner = _file(draw, "g", depth - 1, n_classes, hw)
        inner["off"] = mcur + 4 * draw(st.sampled_from([1, 0, 2]))
        mcur = inner["off"] + 4 * inner["word_count"]
        members.append(inner)
    wc = mcur // 4 + draw(st.integers(0, 2))
    return {"name": name, "what": "file", "off": 0, "word_count": wc, "items": members}


@st.composite
def reg_maps(draw):
    hw = draw(st.integers(0, 4)) != 4      # (Hypothesis' first examples take the smallest choices)
    n_classes = draw(st.integers(1, 2))
    classes = [_reg_class(draw, i, hw) for i in range(n_classes)]
    n_items = draw(st.integers(2, 6))
    with_array = draw(st.integers(0, 2)) == 0
    with_file = draw(st.integers(0, 7)) != 7
    items = []
    cur = 0
    # one multi-word object (reg32.Memory), mostly of power-of-two size at a word-aligned offset that is not a
    # multiple of its size (the decoder's fast path must not be taken for it), with registers / holes around it
    mem_after = draw(st.integers(0, n_items - 1)) if draw(st.integers(0, 7)) != 7 else None
    for i in range(n_items):
        gap = draw(st.sampled_from([0, 0, 1, 2, 5]))
        off = cur + 4 * gap
        name = f"m{i}"
        if with_array and i == (1 if n_items > 2 or not with_file else 0):
            elem = _leaf_item(draw, "elem", n_classes, hw, allow_io=False)
            n = draw(st.integers(2, 3))
            step = draw(st.sampled_from([4, 4, 8, 12]))
            items.append({"name": name, "what": "array", "off": off, "elem": elem, "n": n, "step": step})
            cur = off + n * step
        elif with_file and i == n_items - 1:
            f = _file(draw, name, draw(st.sampled_from([2, 3, 2, 1])), n_classes, hw)
            f["off"] = off
            items.append(f)
            cur = off + 4 * f["word_count"]
        else:
            it = _leaf_item(draw, name, n_classes, hw)
            if i == 0 and draw(st.integers(0, 4)) != 0:
                it = {"name": name, "what": "reg", "off": 0, "cls": 0}
            it["off"] = off
            items.append(it)
            cur = off + 4
        if i == mem_after:
            words = draw(st.sampled_from([4, 2, 4, 8, 2, 4, 3, 6]))
            moff = cur + 4 * draw(st.sampled_from([0, 0, 1, 2]))
            if words & (words - 1) == 0 and moff % (4 * words) == 0 and draw(st.integers(0, 5)) != 5:
                moff += 4 * draw(st.integers(1, words - 1))
            mode = draw(st.sampled_from(["split", "immediate", "readback", "ignore", "split"]))
            items.append({"name": "mem", "what": "mem", "off": moff, "words": words,
                          "initial": draw(st.sampled_from([0xFFFFFFFF, 0, 0xFFFFFFFF, None])),
                          "mode": mode, "unaligned": mode == "split" and draw(st.sampled_from([False, True, False])),
                          "inline": draw(st.booleans()), "mode_explicit": draw(st.booleans())})
            cur = moff + 4 * words
    total_words = cur // 4 + draw(st.integers(0, 3))
    bits = max(4, (4 * total_words - 1).bit_length())
    addr_width = draw(st.sampled_from([bits, bits + 1, bits + 3, 16, 32]))
    addr_width = max(addr_width, bits)
    # members declared out of address order are rejected by cohdl (AttributeError in RegFile.__init_subclass__,
    # `existing_name._parent_offset_`): keep that class rare
    items = list(draw(st.permutations(items))) if draw(st.integers(0, 11)) == 0 else items
    return {"addr_width": addr_width, "active_high_reset": draw(st.integers(0, 3)) == 0,
            "entry": "base" if hw else "map",
            "word_count": total_words if draw(st.integers(0, 3)) != 0 else None,
            "classes": classes, "items": items}


# ------------------------------------------------------------------------------ schedules
def _addr(draw, spec, insts, total_bytes, prefer=None):
    a = _addr_raw(draw, spec, insts, total_bytes, prefer)
    if a % 4:
        # "only aligned reads/writes are allowed unless allow_unaligned is set"; an unaligned window must not
        # reach beyond the end of the memory
        for i in insts:
            if i["what"] == "memcell" and i["off"] <= a < i["off"] + 4:
                if not i["unaligned"] or i["off"] + 4 >= i["mem_off"] + 4 * i["mem_words"]:
                    a -= a % 4
    return a


def _addr_raw(draw, spec, insts, total_bytes, prefer=None):
    o = draw(st.integers(0, 19))
    cells = [i for i in insts if i["what"] == "memcell"]
    others = [i for i in insts if i["what"] != "memcell"] or insts
    if cells and draw(st.integers(0, 11)) == 0:
        # the size-aligned window around a multi-word object (where a decoder that only looks at the upper
        # address bits would place it): registers and holes below / above it
        size = 4 * cells[0]["mem_words"]
        lo = cells[0]["mem_off"] // size * size if size & (size - 1) == 0 else max(cells[0]["mem_off"] - size, 0)
        return (lo + 4 * draw(st.integers(0, 2 * cells[0]["mem_words"] - 1))) % (1 << spec["addr_width"])
    if prefer and o < 8:
        base = draw(st.sampled_from(prefer))["off"]
    elif cells and draw(st.integers(0, 2)) == 0:
        base = draw(st.sampled_from(cells))["off"]
    else:
        base = draw(st.sampled_from(others))["off"]
    if o < 15:
        return base
    if o < 17:
        return base + draw(st.integers(1, 3))          # unaligned, same word
    mapped = {i["off"] for i in insts}
    holes = [a for a in range(0, total_bytes + 16, 4) if a not in mapped]
    if o < 19 and holes:
        return draw(st.sampled_from(holes)) % (1 << spec["addr_width"])
    return draw(st.integers(0, (1 << min(spec["addr_width"], 32)) - 1))


@st.composite
def schedules(draw, spec, max_steps=12, flip=False):
    insts = flatten(spec)
    total = max(i["off"] for i in insts) + 4
    multi = [i for i in insts if i["what"] == "reg" and
             len([f for f in spec["classes"][i["cls"]]["fields"] if f["kind"] in ("memfield", "memufield", "flag")]) >= 2]
    in_ports = [(name, ty, role) for i in insts for name, d, ty, role in i["ports"] if d == "in"]
    hw_init = {}
    for name, ty, role in in_ports:
        if role[0] in ("raw", "sig", "field"):
            hw_init[name] = draw(st.integers(0, (1 << ty[1]) - 1))
    steps = []
    n = draw(st.integers(4, max_steps))
    last_w = None
    for i in range(n):
        o = draw(st.integers(0, 11))
        if o == 0 and in_ports:
            name, ty, role = draw(st.sampled_from(in_ports))
            if role[0] in ("flagclr", "notifyclr"):
                steps.append({"op": "pulse", "port": name})
            else:
                steps.append({"op": "hw", "set": {name: draw(st.integers(0, (1 << ty[1]) - 1))}})
            continue
        start = draw(st.sampled_from(["seq", "seq", "seq", "par", "par", "early", "pipe"]))
        gap = draw(st.sampled_from([0, 0, 0, 1, 3]))
        if o <= 6:
            strb = draw(st.sampled_from([15, 15, 15, 1, 2, 4, 8, 3, 6, 12, 5, 9, 7, 14, 11, 13, 0]))
            cells = [i for i in insts if i["what"] == "memcell"]
            addr = _addr(draw, spec, insts, total, prefer=(multi + cells) if strb != 15 else None)
            skew = draw(st.sampled_from([(0, 0), (0, 0), (0, 2), (2, 0), (1, 0), (0, 1), (3, 1), (0, 5)]))
            steps.append({"op": "w", "addr": addr, "data": _data(draw), "strb": strb, "aw": skew[0], "w": skew[1],
                          "b": draw(st.sampled_from([-1, -1, 0, 1, 3])), "gap": gap, "start": start})
            last_w = addr
        else:
            addr = last_w if last_w is not None and draw(st.booleans()) else _addr(draw, spec, insts, total)
            steps.append({"op": "r", "addr": addr, "ar": draw(st.sampled_from([0, 0, 1, 3])),
                          "r": draw(st.sampled_from([-1, -1, 0, 1, 3])), "gap": gap, "start": start})
    # every schedule: one pipelined pair of writes with AW/W skew - the channel that has accepted write k already
    # presents write k+1 (other address, data, strobes) while the other channel of write k is still outstanding
    # every schedule with a memory: one partial-strobe write to a memory word (read back by the final sweep)
    cells = [i for i in insts if i["what"] == "memcell"]
    if cells:
        c = draw(st.sampled_from(cells))
        steps.insert(draw(st.integers(0, len(steps))),
                     {"op": "w", "addr": c["off"], "data": _data(draw),
                      "strb": draw(st.sampled_from([2, 6, 1, 12, 5, 10, 8, 14, 7, 9])),
                      "aw": 0, "w": draw(st.sampled_from([0, 0, 1])), "b": -1, "gap": 0, "start": "seq"})
    targets = [i for i in insts if i["what"] in ("memword", "memuword", "memcell", "reg", "output")]
    if len(targets) >= 2:
        a = draw(st.sampled_from(targets))
        b = draw(st.sampled_from([t for t in targets if t is not a]))
        d = draw(st.integers(2, 4))
        skew = (0, d) if draw(st.booleans()) != flip else (d, 0)
        d1 = _data(draw)
        d2 = (~d1 & 0xFFFFFFFF) if draw(st.booleans()) else _data(draw)
        pair = [{"op": "w", "addr": a["off"], "data": d1, "strb": draw(st.sampled_from([15, 15, 3, 12, 5])),
                 "aw": skew[0], "w": skew[1], "b": draw(st.sampled_from([-1, 0, 2])), "gap": 0, "start": "seq"},
                {"op": "w", "addr": b["off"], "data": d2, "strb": draw(st.sampled_from([15, 15, 10, 6])),
                 "aw": 0, "w": 0, "b": draw(st.sampled_from([-1, 0])), "gap": 0, "start": "pipe"}]
        pos = draw(st.integers(0, len(steps)))
        steps[pos:pos] = pair
    return {"hw_init": hw_init, "steps": steps}


@st.composite
def cases(draw, n_sched=6):
    spec = draw(reg_maps())
    scheds = [draw(schedules(spec, flip=bool(i % 2))) for i in range(n_sched)]
    return {"map": spec, "schedules": scheds}
