"""C12 - Hypothesis strategy for HierSpec (instantiation trees over generated leaf entities).

HierSpec (JSON):
  {"templates": [T...], "top": index}          children always have a smaller index
  leaf  T = {"name", "kind": "leaf", "ports": [P...], "seq": bool, "assigns": [[out_port, Expr]...]}
  node  T = {"name", "kind": "node", "ports": [P...], "signals": [{"name","ty"}...],
             "insts": [I...], "glue": [[dstActual, srcActual]...]}
  P = {"name", "dir": "in"|"out", "ty": ["bit"] | ["u"|"s"|"bv", width], "default": absent|null|int}   (declaration
       order!; default only on outputs of registered leaves: power-up value of the port)
  I = {"t": child index, "helper": "none"|"open"|"conn", "where": "arch"|"conc",
       "order": [port names in keyword order of the call],
       "conn": {formal: Actual},            actuals given in the instantiation call
       "pre":  {formal: Actual},            helper-created input signal, fed by `inst.formal <<= actual`
       "post": {formal: Actual}}            helper-created output signal, copied by `actual <<= inst.formal`
  Actual = {"root": name of a port/signal of the node, "sl": null | [hi, lo] | [i], "view": null|"u"|"s"|"bv",
            "op": absent | ["xor"|"and"|"or", Actual] | ["addc", int] | ["lt"|"eq", Actual]}   (computed value as the
            actual of an input formal: `Child(a=self.x ^ self.y)`; lt/eq give a Bit)
            optional "psl": [hi, lo] | [i] and "pview": slice / index / typed view of the computed value
  node T additionally "regs": [{"name", "src": Actual, "en": Actual|null, "rst": bool}]: signals (listed in "signals"
            with a non-null "default") updated in a clocked context `if en: r <<= src`, with std.Reset(self.rst) if rst
  Expr (leaf logic, typed by construction):
     ["p", port] ["lit", ty, value] ["sl", e, hi, lo] ["ix", e, i] ["view", kind, e] ["cat", e1, e2]
     ["add"|"sub", e1, e2] ["addc"|"subc", e, int] ["and"|"or"|"xor", e1, e2] ["not", e]
     ["lt"|"le"|"gt"|"ge"|"eq"|"ne", e1, e2]            (-> boolean, only at the root of a Bit assignment)

The construction is dependency ordered: an instance only reads node inputs and signals that are
completely driven by earlier instances, so every tree is combinationally acyclic.
"""
from __future__ import annotations

from hypothesis import strategies as st

IN_NAMES = ["a", "B", "cIn", "D", "e", "Fx", "g", "Hh"]
OUT_NAMES = ["o", "P", "qOut", "R", "s", "Tz", "u", "Vv"]
VIEW_ATTR = {"u": "unsigned", "s": "signed", "bv": "bitvector"}


def width(ty):
    return 1 if ty[0] == "bit" else ty[1]


def actual_type(root_ty, act):
    ty = list(root_ty)
    sl = act.get("sl")
    if sl is not None:
        ty = ["bit"] if len(sl) == 1 else ["bv", sl[0] - sl[1] + 1]
    if act.get("view"):
        ty = [act["view"], width(ty)]
    if act.get("op") and act["op"][0] in ("lt", "eq"):
        ty = ["bit"]
    psl = act.get("psl")
    if psl is not None:
        ty = ["bit"] if len(psl) == 1 else ["bv", psl[0] - psl[1] + 1]
    if act.get("pview"):
        ty = [act["pview"], width(ty)]
    return ty


def classify(formal_ty, root_ty, act):
    """class of an actual relative to its formal (labels / signatures)."""
    at = actual_type(root_ty, act)
    if act.get("op"):
        return "expr+slice" if act.get("psl") is not None or act.get("pview") else "expr"
    parts = []
    if act.get("sl") is not None:
        parts.append("index" if len(act["sl"]) == 1 else ("slice" if root_ty[0] == "bv" else "numslice"))
    if act.get("view"):
        parts.append("view")
    if at[0] == formal_ty[0] and at[0] != "bit" and at[1] != formal_ty[1]:
        parts.append("narrower" if at[1] < formal_ty[1] else "wider")
    return "+".join(parts) if parts else "whole"


# ------------------------------------------------------------------------------ types
def _vec_ty(draw, lo=1, hi=6):
    return [draw(st.sampled_from(["u", "u", "s", "bv", "bv"])), draw(st.integers(lo, hi))]


def _any_ty(draw):
    if draw(st.integers(0, 4)) == 0:
        return ["bit"]
    return _vec_ty(draw)


# ------------------------------------------------------------------------------ leaf logic
def _gen_vec(draw, kind, w, ins, depth, exact):
    """expression of kind `kind` and width == w (exact) or <= w."""
    def ok_w(x):
        return x == w if exact else x <= w

    opts = []
    ports = [p for p in ins if p["ty"][0] == kind and ok_w(p["ty"][1])]
    if ports:
        opts += ["port", "port"]
    vecs = [p for p in ins if p["ty"][0] != "bit"]
    if kind == "bv":
        if [p for p in vecs if p["ty"][1] >= w]:
            opts.append("slice")
        if depth > 0 and w >= 2:
            opts.append("cat")
        if depth > 0 and [p for p in vecs if p["ty"][0] != "bv" and p["ty"][1] == w]:
            opts.append("view")
        if depth > 0:
            opts += ["bitop", "not"]
    else:
        if depth > 0:
            opts += ["arith", "arith", "bitop", "arithc"]
        if vecs:
            opts.append("view")
    bits = [p for p in ins if p["ty"][0] == "bit"]
    if not vecs and bits:
        # only Bit inputs: build the vector out of them (never a constant-only expression, which
        # would test constant folding = C09, not instantiation)
        w2 = w if exact or kind == "bv" else draw(st.integers(1, w))
        e = _bv_from_bits(draw, w2, ins)
        return e if kind == "bv" else ["view", kind, e]
    if not opts:
        w2 = w if exact or kind == "bv" else draw(st.integers(1, w))
        e = _bv_from_bits(draw, w2, ins)
        return e if kind == "bv" else ["view", kind, e]
    o = draw(st.sampled_from(opts))
    if o == "port":
        return ["p", draw(st.sampled_from(ports))["name"]]
    if o == "lit":
        return ["lit", [kind, w], draw(st.integers(0, (1 << w) - 1))]
    if o == "slice":
        p = draw(st.sampled_from([p for p in vecs if p["ty"][1] >= w]))
        lo = draw(st.integers(0, p["ty"][1] - w))
        return ["sl", ["p", p["name"]], lo + w - 1, lo]
    if o == "cat":
        w1 = draw(st.integers(1, w - 1))
        e1 = _gen_any_bv(draw, w1, ins, depth - 1)
        e2 = _gen_any_bv(draw, w - w1, ins, depth - 1)
        return ["cat", e1, e2]
    if o == "view":
        if kind == "bv":
            p = draw(st.sampled_from([p for p in vecs if p["ty"][0] != "bv" and p["ty"][1] == w]))
            return ["view", "bv", ["p", p["name"]]]
        # view of a bit vector expression of width w' (<= w, or == w)
        w2 = w if exact else draw(st.integers(1, w))
        e = _gen_any_bv(draw, w2, ins, max(depth - 1, 0), allow_view=False)
        return ["view", kind, e]
    if o == "not":
        e = _gen_vec(draw, "bv", w, ins, depth - 1, True)
        return ["not", e]
    if o == "bitop":
        w2 = w if exact else draw(st.integers(1, w))
        e1 = _gen_vec(draw, kind, w2, ins, depth - 1, True)
        e2 = _gen_vec(draw, kind, w2, ins, depth - 1, True)
        return [draw(st.sampled_from(["and", "or", "xor"])), e1, e2]
    if o == "arith":
        # result width = max of the operand widths; one operand is made exactly w2 wide
        w2 = w if exact else draw(st.integers(1, w))
        e1 = _gen_vec(draw, kind, w2, ins, depth - 1, True)
        e2 = _gen_vec(draw, kind, w2, ins, depth - 1, False)
        if draw(st.booleans()):
            e1, e2 = e2, e1
        return [draw(st.sampled_from(["add", "sub"])), e1, e2]
    if o == "arithc":
        w2 = w if exact else draw(st.integers(1, w))
        e1 = _gen_vec(draw, kind, w2, ins, depth - 1, True)
        hi = (1 << w2) - 1 if kind == "u" else (1 << (w2 - 1)) - 1
        return [draw(st.sampled_from(["addc", "subc"])), e1, draw(st.integers(0, max(hi, 0)))]
    raise AssertionError(o)


def _bv_from_bits(draw, w, ins):
    """BitVector[w] concatenated from single bits of the inputs (Bit ports, indexed vector ports)."""
    names = [_gen_bit_plain(draw, ins) for _ in range(max(w, 2))]
    e = names[0]
    for n in names[1:]:
        e = ["cat", e, n]
    return e if w >= 2 else ["sl", e, 0, 0]


def _gen_any_bv(draw, w, ins, depth, allow_view=True):
    """bit vector expression of exactly w bits: BitVector expression or slice."""
    e = _gen_vec(draw, "bv", w, ins, depth if allow_view else 0, True)
    return e


def _gen_bit(draw, ins, depth):
    opts = []
    bits = [p for p in ins if p["ty"][0] == "bit"]
    vecs = [p for p in ins if p["ty"][0] != "bit"]
    if bits:
        opts += ["port"]
    if vecs:
        opts += ["ix", "ix"]
    nums = [p for p in vecs if p["ty"][0] in ("u", "s")]
    if nums:
        opts += ["cmp", "cmp"]
    if [p for p in vecs if p["ty"][0] == "bv"]:
        opts += ["eq"]
    if depth > 0 and (bits or vecs):
        opts += ["bitop"]
    if not opts:
        return ["lit", ["bit"], draw(st.integers(0, 1))]
    o = draw(st.sampled_from(opts))
    if o == "port":
        return ["p", draw(st.sampled_from(bits))["name"]]
    if o == "ix":
        p = draw(st.sampled_from(vecs))
        return ["ix", ["p", p["name"]], draw(st.integers(0, p["ty"][1] - 1))]
    if o == "cmp":
        p = draw(st.sampled_from(nums))
        k, w = p["ty"]
        e1 = ["p", p["name"]]
        e2 = _gen_vec(draw, k, 6, ins, max(depth - 1, 0), False)
        if draw(st.booleans()):
            e1, e2 = e2, e1
        return [draw(st.sampled_from(["lt", "le", "gt", "ge", "eq", "ne"])), e1, e2]
    if o == "eq":
        p = draw(st.sampled_from([p for p in vecs if p["ty"][0] == "bv"]))
        e2 = _gen_any_bv(draw, p["ty"][1], ins, max(depth - 1, 0), allow_view=False)
        return [draw(st.sampled_from(["eq", "ne"])), ["p", p["name"]], e2]
    e1 = _gen_bit_plain(draw, ins)
    e2 = _gen_bit_plain(draw, ins)
    return [draw(st.sampled_from(["and", "or", "xor"])), e1, e2]


def _gen_bit_plain(draw, ins):
    bits = [p for p in ins if p["ty"][0] == "bit"]
    vecs = [p for p in ins if p["ty"][0] != "bit"]
    if bits and (not vecs or draw(st.booleans())):
        return ["p", draw(st.sampled_from(bits))["name"]]
    p = draw(st.sampled_from(vecs))
    return ["ix", ["p", p["name"]], draw(st.integers(0, p["ty"][1] - 1))]


def _leaf(draw, idx):
    n_in = draw(st.integers(1, 3))
    n_out = draw(st.integers(1, 3))
    ins = [{"name": f"{IN_NAMES[i]}{idx}", "dir": "in", "ty": _any_ty(draw)} for i in range(n_in)]
    outs = [{"name": f"{OUT_NAMES[i]}{idx}", "dir": "out", "ty": _any_ty(draw)} for i in range(n_out)]
    seq = draw(st.integers(0, 3)) == 0
    assigns = []
    for o in outs:
        if o["ty"][0] == "bit":
            e = _gen_bit(draw, ins, 1)
        else:
            k, w = o["ty"]
            e = _gen_vec(draw, k, w, ins, 2, k == "bv")
        assigns.append([o["name"], e])
    ports = ins + outs
    if seq:
        # registered outputs: the port default is what the port shows before the first clock edge (often all-zero)
        for o in outs:
            dv = draw(st.sampled_from([0, 0, 0, "any", None]))
            o["default"] = draw(st.integers(0, (1 << width(o["ty"])) - 1)) if dv == "any" else dv
        ports.append({"name": "clk", "dir": "in", "ty": ["bit"]})
    ports = draw(st.permutations(ports))
    return {"name": f"L{idx}", "kind": "leaf", "ports": list(ports), "seq": seq, "assigns": assigns}


# ------------------------------------------------------------------------------ nodes
class _NodeBuilder:
    def __init__(self, draw, idx, templates, allow_mismatch, is_top=False, allow_conv=True):
        self.draw, self.idx, self.templates = draw, idx, templates
        self.is_top = is_top
        self.allow_conv = allow_conv   # actuals whose Python type differs from the type of the sliced root
        self.allow_expr = False        # computed values (x ^ y, x + 1, x < y) as actuals of input formals
        self.cur_where = "arch"
        self.regs = []
        self.ports = []
        self.signals = []
        self.insts = []
        self.glue = []
        self.sources = []      # [root, ty] readable and completely driven
        self.consumed = set()
        self.n_in = self.n_out = self.n_sig = 0
        self.has_clk = False
        self.allow_mismatch = allow_mismatch

    # -- objects
    def new_in(self, ty):
        name = f"{IN_NAMES[self.n_in % 8]}{self.idx}" + ("x" * (self.n_in // 8))
        self.n_in += 1
        self.ports.append({"name": name, "dir": "in", "ty": list(ty)})
        self.sources.append([name, list(ty)])
        return name

    def new_out(self, ty):
        name = f"{OUT_NAMES[self.n_out % 8]}{self.idx}" + ("x" * (self.n_out // 8))
        self.n_out += 1
        self.ports.append({"name": name, "dir": "out", "ty": list(ty)})
        return name

    def new_sig(self, ty, readable=True):
        name = f"w{self.n_sig}n{self.idx}"
        self.n_sig += 1
        self.signals.append({"name": name, "ty": list(ty)})
        if readable:
            self.sources.append([name, list(ty)])
        return name

    def new_dest(self, ty):
        """a fresh, completely driven destination: out port or local signal."""
        if self.draw(st.booleans()):
            return self.new_out(ty)
        return self.new_sig(ty)

    # -- actuals
    def in_actual(self, fty):
        d = self.draw
        # computed values are only accepted for instances inside a context (kept rare in architecture())
        if self.allow_expr and d(st.integers(0, 1 if self.cur_where == "conc" else 9)) == 0:
            if d(st.integers(0, 2)) != 2:
                return self.sliced_expr_actual(fty)
            return self.expr_actual(fty)
        return self.plain_in_actual(fty)

    def _whole(self, ty):
        same = [s for s in self.sources if s[1] == list(ty)]
        if same and (self.n_in >= 5 or self.draw(st.integers(0, 3)) != 0):
            s = self.draw(st.sampled_from(same))
            self.consumed.add(s[0])
            return {"root": s[0], "sl": None, "view": None}
        return {"root": self.new_in(ty), "sl": None, "view": None}

    def sliced_expr_actual(self, fty):
        """a slice / index / typed view of a value computed in the context of the instance and read by
        nothing else: `Child(a=(self.x ^ self.y)[6:3].unsigned)`"""
        d = self.draw
        w = width(fty)
        k2 = d(st.sampled_from(["bv", "u", "s"]))
        extra = d(st.integers(0, 3))
        if fty[0] == "bit":
            extra = max(extra, 1)
        elif extra == 0 and k2 == fty[0]:
            extra = 1
        bty = [k2, w + extra]
        a = self._whole(bty)
        ops = ["xor", "and", "or"] + (["addc"] if k2 in ("u", "s") and bty[1] > 1 else [])
        op = d(st.sampled_from(ops))
        a["op"] = ["addc", d(st.integers(1, max(1, (1 << (bty[1] - 1)) - 1)))] if op == "addc" else [op, self._whole(bty)]
        if fty[0] == "bit":
            a["psl"] = [d(st.integers(0, bty[1] - 1))]
            return a
        cur = k2
        if extra:
            lo = d(st.integers(0, extra))
            a["psl"] = [lo + w - 1, lo]
            cur = "bv"
        if cur != fty[0]:
            a["pview"] = fty[0]
        return a

    def expr_actual(self, fty):
        d = self.draw
        if fty[0] == "bit":
            nums = [s for s in self.sources if s[1][0] in ("u", "s")]
            if nums and d(st.booleans()):
                lhs = d(st.sampled_from(nums))
                self.consumed.add(lhs[0])
                a = {"root": lhs[0], "sl": None, "view": None}
                a["op"] = [d(st.sampled_from(["lt", "eq"])), self._whole(lhs[1])]
                return a
            a = self._whole(fty)
            a["op"] = [d(st.sampled_from(["xor", "and", "or"])), self._whole(fty)]
            return a
        a = self._whole(fty)
        ops = ["xor", "and", "or"] + (["addc", "addc"] if fty[0] in ("u", "s") else [])
        op = d(st.sampled_from(ops))
        if op == "addc":
            a["op"] = ["addc", d(st.integers(1, max(1, (1 << (fty[1] - 1)) - 1)))]
        else:
            a["op"] = [op, self._whole(fty)]
        return a

    def plain_in_actual(self, fty):
        d = self.draw
        src = self.sources
        n_in_ports = self.n_in
        if fty[0] == "bit":
            same = [s for s in src if s[1][0] == "bit"]
            vecs = [s for s in src if s[1][0] != "bit"]
            opts = []
            if same:
                opts += ["same"] * 3
            if vecs:
                opts += ["index"] * 3
            if n_in_ports < 5 or not opts:
                opts += ["new"] * 2
            o = d(st.sampled_from(opts))
            if o == "same":
                s = d(st.sampled_from(same))
                self.consumed.add(s[0])
                return {"root": s[0], "sl": None, "view": None}
            if o == "index":
                s = d(st.sampled_from(vecs))
                self.consumed.add(s[0])
                return {"root": s[0], "sl": [d(st.integers(0, s[1][1] - 1))], "view": None}
            return {"root": self.new_in(fty), "sl": None, "view": None}
        k, w = fty
        same = [s for s in src if s[1] == fty]
        wider = [s for s in src if s[1][0] != "bit" and s[1][1] > w]
        viewable = [s for s in src if s[1][0] not in ("bit", k) and s[1][1] == w]
        if not self.allow_conv:
            wider = [s for s in wider if s[1][0] == "bv"] if k == "bv" else []
            viewable = []
        narrow = [s for s in src if s[1][0] == k and s[1][1] < w and k != "bv"]
        wide_same = [s for s in src if s[1][0] == k and s[1][1] > w]
        opts = []
        if same:
            opts += ["same"] * 6
        if wider:
            opts += ["slice"] * 4
        if viewable:
            opts += ["view"] * 3
        if self.allow_mismatch and narrow:
            opts += ["narrow"] * 3
        if self.allow_mismatch and wide_same:
            opts += ["wide"] * 2
        if n_in_ports < 5 or not opts:
            opts += ["new"] * 4 + (["newwide"] * 2 if self.allow_conv or k == "bv" else [])
        o = d(st.sampled_from(opts))
        if o == "same":
            s = d(st.sampled_from(same))
            self.consumed.add(s[0])
            return {"root": s[0], "sl": None, "view": None}
        if o in ("slice", "newwide"):
            if o == "newwide":
                rk = d(st.sampled_from(["u", "s", "bv", "bv"])) if self.allow_conv else "bv"
                s = [self.new_in([rk, w + d(st.integers(1, 4))]), None]
                s[1] = self.ports[-1]["ty"]
            else:
                s = d(st.sampled_from(wider))
            self.consumed.add(s[0])
            lo = d(st.integers(0, s[1][1] - w))
            return {"root": s[0], "sl": [lo + w - 1, lo], "view": None if k == "bv" else k}
        if o == "view":
            s = d(st.sampled_from(viewable))
            self.consumed.add(s[0])
            return {"root": s[0], "sl": None, "view": k}
        if o in ("narrow", "wide"):
            s = d(st.sampled_from(narrow if o == "narrow" else wide_same))
            self.consumed.add(s[0])
            return {"root": s[0], "sl": None, "view": None}
        return {"root": self.new_in(fty), "sl": None, "view": None}

    def build_inst(self, child_idx):
        d = self.draw
        child = self.templates[child_idx]
        helper = d(st.sampled_from(["none", "none", "none", "open", "conn"]))
        where = d(st.sampled_from(["arch", "arch", "conc"]))
        self.cur_where = where
        conn, pre, post = {}, {}, {}
        cins = [p for p in child["ports"] if p["dir"] == "in"]
        couts = [p for p in child["ports"] if p["dir"] == "out"]
        for p in cins:
            if p["name"] in ("clk", "rst"):
                self.need_port(p["name"])
                conn[p["name"]] = {"root": p["name"], "sl": None, "view": None}
                continue
            a = self.in_actual(p["ty"])
            if helper == "conn" and d(st.booleans()):
                pre[p["name"]] = a
            else:
                conn[p["name"]] = a
        # outputs: plan groups (members of a group share one wider destination)
        modes = {}
        for p in couts:
            opts = ["whole"] * 8 + ["group"] + ["partial"] * 4
            if p["ty"][0] in ("u", "s") and not self.allow_conv:
                opts = [o for o in opts if o not in ("partial", "group")]
            if p["ty"][0] != "bit" and self.allow_conv:
                opts += ["view"] * 2
                if self.allow_mismatch and p["ty"][0] != "bv":
                    opts += ["wider", "narrower"]
            if helper != "none":
                opts += ["auto"] * 5
            modes[p["name"]] = d(st.sampled_from(opts))
        group = [p for p in couts if modes[p["name"]] == "group"]
        if len(group) == 1:
            modes[group[0]["name"]] = "whole"
            group = []
        new_sources = []
        if group:
            group = list(d(st.permutations(group)))
            tot = sum(width(p["ty"]) for p in group)
            gk = d(st.sampled_from(["bv", "bv", "u", "s"])) if self.allow_conv else "bv"
            root = self.new_dest([gk, tot])
            hi = tot - 1
            for p in group:
                w = width(p["ty"])
                if p["ty"][0] == "bit":
                    conn[p["name"]] = {"root": root, "sl": [hi], "view": None}
                else:
                    conn[p["name"]] = {"root": root, "sl": [hi, hi - w + 1],
                                       "view": None if p["ty"][0] == "bv" else p["ty"][0]}
                hi -= w
        for p in couts:
            m = modes[p["name"]]
            ty = p["ty"]
            if m == "group":
                continue
            if m == "whole":
                conn[p["name"]] = {"root": self.new_dest(ty), "sl": None, "view": None}
            elif m == "partial":
                # one slice of a wider object, the other bits stay undriven
                w = width(ty)
                tot = w + d(st.integers(1, 3))
                gk = d(st.sampled_from(["bv", "bv", "u", "s"])) if self.allow_conv else "bv"
                to_port = self.is_top and d(st.booleans())
                root = self.new_out([gk, tot]) if to_port else self.new_sig([gk, tot], readable=False)
                lo = d(st.integers(0, tot - w))
                sl = [lo] if ty[0] == "bit" else [lo + w - 1, lo]
                if ty[0] == "bit" and d(st.booleans()) and w == 1:
                    sl = [lo]
                conn[p["name"]] = {"root": root, "sl": sl, "view": None if ty[0] in ("bit", "bv") else ty[0]}
                if not to_port:
                    self.consumed.add(root)
                    dst = self.new_dest(["bit"] if ty[0] == "bit" else ["bv", w])
                    self.glue.append([{"root": dst, "sl": None, "view": None}, {"root": root, "sl": sl, "view": None}])
            elif m == "view":
                ok = d(st.sampled_from([k for k in ("u", "s", "bv") if k != ty[0]]))
                conn[p["name"]] = {"root": self.new_dest([ok, ty[1]]), "sl": None, "view": ty[0]}
            elif m in ("wider", "narrower"):
                w2 = ty[1] + d(st.integers(1, 3)) if m == "wider" else ty[1] - 1
                if w2 < 1:
                    conn[p["name"]] = {"root": self.new_dest(ty), "sl": None, "view": None}
                else:
                    conn[p["name"]] = {"root": self.new_dest([ty[0], w2]), "sl": None, "view": None}
            elif m == "auto":
                post[p["name"]] = {"root": self.new_dest(ty), "sl": None, "view": None}
        names = list(conn)
        order = list(d(st.permutations(names)))
        self.insts.append({"t": child_idx, "helper": helper, "where": where, "order": order,
                           "conn": conn, "pre": pre, "post": post})

    def need_port(self, name):
        if name not in [p["name"] for p in self.ports]:
            self.ports.append({"name": name, "dir": "in", "ty": ["bit"]})
        if name == "clk":
            self.has_clk = True

    def add_regs(self):
        """parent-owned registers with a non-null default (conditionally updated in a clocked context, optionally
        with reset); they are sources for the inputs of the instances (connected whole)"""
        d = self.draw
        use_rst = d(st.booleans())
        self.need_port("clk")
        if use_rst:
            self.need_port("rst")
        for j in range(d(st.integers(1, 2))):
            ty = ["bit"] if d(st.integers(0, 4)) == 0 else [d(st.sampled_from(["u", "s", "bv"])), d(st.integers(2, 5))]
            w = width(ty)
            name = f"r{j}n{self.idx}"
            self.signals.append({"name": name, "ty": ty, "default": d(st.integers(1, (1 << w) - 1))})
            src = {"root": self.new_in(ty), "sl": None, "view": None}
            en = {"root": self.new_in(["bit"]), "sl": None, "view": None} if d(st.integers(0, 3)) != 0 else None
            self.regs.append({"name": name, "src": src, "en": en, "rst": use_rst})
            # listed several times: instances pick it often
            self.sources += [[name, ty]] * 3

    def finish(self):
        d = self.draw
        # export unconsumed local signals so that the logic stays observable
        for s in self.signals:
            if s["name"] not in self.consumed and d(st.integers(0, 9)) != 0:
                o = self.new_out(s["ty"])
                self.glue.append([{"root": o, "sl": None, "view": None}, {"root": s["name"], "sl": None, "view": None}])
        ports = list(d(st.permutations(self.ports)))
        return {"name": None, "kind": "node", "ports": ports, "signals": self.signals, "insts": self.insts,
                "glue": self.glue, "regs": self.regs}


def _node(draw, idx, templates, children, name, allow_mismatch, allow_conv, allow_expr=False):
    b = _NodeBuilder(draw, idx, templates, allow_mismatch, is_top=(name == "Top"), allow_conv=allow_conv)
    b.allow_expr = allow_expr
    if draw(st.integers(0, 2)) == 0:
        b.add_regs()
    for c in children:
        b.build_inst(c)
    t = b.finish()
    t["name"] = name
    return t


@st.composite
def hier_specs(draw):
    n_leaf = draw(st.integers(1, 3))
    templates = [_leaf(draw, i) for i in range(n_leaf)]
    allow_mismatch = draw(st.integers(0, 3)) == 0
    allow_conv = draw(st.integers(0, 2)) == 0
    allow_expr = draw(st.integers(0, 5)) == 5
    n_mid = draw(st.sampled_from([0, 0, 1, 1, 2]))
    for m in range(n_mid):
        idx = len(templates)
        n_inst = draw(st.integers(1, 3))
        children = [draw(st.integers(0, n_leaf - 1)) for _ in range(n_inst)]
        templates.append(_node(draw, idx, templates, children, f"M{idx}", allow_mismatch, allow_conv, allow_expr))
    idx = len(templates)
    n_inst = draw(st.integers(1, 3))
    children = [draw(st.integers(0, idx - 1)) for _ in range(n_inst)]
    if n_mid and not any(c >= n_leaf for c in children):
        children[0] = idx - 1
    templates.append(_node(draw, idx, templates, children, "Top", allow_mismatch, allow_conv, allow_expr))
    return {"templates": templates, "top": idx}


@st.composite
def inout_cases(draw):
    """small fixed-shape case: a leaf with an INOUT port whose actual is a whole object / typed view / slice(+view) of
    an inout port of Top with another (or the same) VHDL vector type; judged on the emitted port map (text)"""
    w = draw(st.integers(1, 5))
    fk = draw(st.sampled_from(["u", "s", "bv"]))
    rk = draw(st.sampled_from(["bv", "u", "s"]))
    extra = draw(st.sampled_from([0, 0, 2, 3]))
    if extra:
        lo = draw(st.integers(0, extra))
        sl = [lo + w - 1, lo]
        view = None if fk == "bv" else fk      # a slice has Python type BitVector
    else:
        sl = None
        view = fk if fk != rk else None
    return {"inout": {"w": w, "fk": fk, "rk": rk, "rw": w + extra, "sl": sl, "view": view,
                      "where": draw(st.sampled_from(["arch", "conc"]))}}


@st.composite
def cases(draw):
    if draw(st.integers(0, 9)) == 9:
        return draw(inout_cases())
    spec = draw(hier_specs())
    stim = draw(st.lists(st.integers(0, (1 << 40) - 1), min_size=8, max_size=8))
    return {"spec": spec, "stim": stim}
