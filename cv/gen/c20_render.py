"""C20 - render a RegMapSpec (see cv.ref.axi) to a Python module with an AXI4-Lite register map entity `Top`.

entry "base": `class Top(axi.base_entity(...))` with hardware ports, `self.interface_connection().
connect_addr_map(Root(self))`; entry "map": `class Top(axi.addr_map_entity(addr_map=Root, ...))` (no
hardware side).  Only documented entry points of cohdl.std.axi.axi4_light / cohdl.std.reg are used.
"""
from __future__ import annotations

from cv.ref.axi import flatten

HEADER = """from __future__ import annotations
import cohdl
from cohdl import Port, Bit, BitVector, Signal, Unsigned, Null, Full
from cohdl import std
from cohdl.std.axi import axi4_light as axi
from cohdl.std.reg import reg32

"""

WORD_CLS = {"word": "reg32.Word", "uword": "reg32.UWord", "memword": "reg32.MemWord", "memuword": "reg32.MemUWord",
            "input": "reg32.Input", "output": "reg32.Output"}
FIELD_CLS = {"field": "reg32.Field", "ufield": "reg32.UField", "memfield": "reg32.MemField",
             "memufield": "reg32.MemUField", "flag": "reg32.FlagField"}


def _bv(v, w):
    return f'"{v:0{w}b}"'


def _field_decl(f):
    w = f["hi"] - f["lo"] + 1
    if f["kind"] == "flag":
        return f"    {f['name']}: reg32.FlagField[{f['lo']}]"
    d = f.get("default")
    if f.get("bit"):
        dv = "Null" if not d else "Full"
        return f"    {f['name']}: {FIELD_CLS[f['kind']]}[{f['lo']}, {dv}]"
    if d is None or d == 0:
        dv = "Null"
    elif d == (1 << w) - 1:
        dv = "Full"
    elif f["kind"] in ("ufield", "memufield"):
        dv = str(d)
    else:
        dv = _bv(d, w)
    return f"    {f['name']}: {FIELD_CLS[f['kind']]}[{f['hi']}:{f['lo']}, {dv}]"


def _type_of(spec, item):
    if item["what"] == "reg":
        return spec["classes"][item["cls"]]["name"]
    return WORD_CLS[item["what"]]


def _port_ty(ty):
    k, w = ty
    return "Bit" if k == "bit" else f"{'Unsigned' if k == 'u' else 'BitVector'}[{w}]"


def render(spec):
    out = [HEADER]
    for c in spec["classes"]:
        out.append(f"class {c['name']}(reg32.Register):")
        for f in c["fields"]:
            out.append(_field_decl(f))
        for n in c["notify"]:
            out.append(f"    {n['name']}: reg32.{'PushOnNotify' if n['kind'] == 'push' else 'FlagOnNotify'}."
                       f"{'Read' if n['on'] == 'r' else 'Write'}")
        out.append("")
    def file_class(f, cname):
        # inner files first (a class must exist before it is used in an annotation of the outer one)
        for m in f["items"]:
            if m["what"] == "file":
                file_class(m, f"{cname}_{m['name']}")
        out.append(f"class {cname}(reg32.RegFile, word_count={f['word_count']}):")
        for m in f["items"]:
            ty = f"{cname}_{m['name']}" if m["what"] == "file" else _type_of(spec, m)
            out.append(f"    {m['name']}: {ty}[0x{m['off']:x}]")
        out.append("")

    for it in spec["items"]:
        if it["what"] == "file":
            file_class(it, f"F_{it['name']}")
    wc = f", word_count={spec['word_count']}" if spec.get("word_count") else ""
    out.append(f"class Root(reg32.AddrMap{wc}):")
    for it in spec["items"]:
        if it["what"] == "array":
            end = it["off"] + it["n"] * it["step"]
            out.append(f"    {it['name']}: reg32.Array[{_type_of(spec, it['elem'])}, 0x{it['off']:x}:0x{end:x}:{it['step']}]")
        elif it["what"] == "file":
            out.append(f"    {it['name']}: F_{it['name']}[0x{it['off']:x}]")
        elif it["what"] == "mem":
            out.append(f"    {it['name']}: reg32.Memory[0x{it['off']:x}:0x{it['off'] + 4 * it['words']:x}]")
        else:
            out.append(f"    {it['name']}: {_type_of(spec, it)}[0x{it['off']:x}]")
    out.append("")
    insts = flatten(spec)
    hw = spec["entry"] == "base"
    cfg, conc, seq = [], [], []
    for it in spec["items"]:
        if it["what"] == "mem":
            args = []
            if it.get("initial") is not None:
                args.append(f"initial={'Full' if it['initial'] else 'Null'}")
            mode = it.get("mode", "immediate")
            if mode != "immediate" or it.get("mode_explicit"):
                args.append("mask_mode=reg32.Memory.MaskMode." +
                            {"immediate": "IMMEDIATE", "ignore": "IGNORE", "readback": "READBACK", "split": "SPLIT_WORDS"}[mode])
            if it.get("unaligned"):
                args.append("allow_unaligned=True")
            if it.get("inline"):
                args.append("inline=True")
            if args:
                cfg.append(f"self.{it['name']}._config_({', '.join(args)})")
    for inst in insts:
        p, k, what = inst["path"], inst["idx"], inst["what"]
        if what in ("word", "uword", "memword", "memuword"):
            d = inst.get("default") or 0
            if d:
                lit = f"Unsigned[32]({d})" if what in ("uword", "memuword") else f"BitVector[32]({_bv(d, 32)})"
                cfg.append(f"{p}._config_({lit})")
        if what in ("input", "output"):
            pad = 32 - inst["w"] - inst["offset"]
            port = f"hw.{'hi' if what == 'input' else 'ho'}{k}"
            if inst["offset"] == 0 and inst.get("cfg") == "lsbs":
                cfg.append(f"{p}._config_({port}, lsbs=True)")
            elif pad == 0 and inst.get("cfg") == "msbs":
                cfg.append(f"{p}._config_({port}, msbs=True)")
            else:
                cfg.append(f"{p}._config_({port}, offset={inst['offset']}, padding={pad})")
        for name, d, ty, role in inst["ports"]:
            if role[0] == "raw":
                if d == "in":
                    conc.append(f"{p}.raw <<= hw.{name}")
                else:
                    conc.append(f"hw.{name} <<= {p}.raw")
            elif role[0] == "field":
                if d == "in":
                    conc.append(f"{p}.{role[1]} <<= hw.{name}")
                else:
                    conc.append(f"hw.{name} <<= {p}.{role[1]}.val()")
            elif role[0] == "flag":
                conc.append(f"hw.{name} <<= {p}.{role[1]}.is_set()")
            elif role[0] == "notify":
                conc.append(f"hw.{name} <<= bool({p}.{role[1]})")
            elif role[0] in ("flagclr", "notifyclr"):
                seq.append((f"hw.{name}", f"{p}.{role[1]}.clear()"))
    if hw:
        out.append("    def _config_(self, hw):")
        out.append("        self._hw = hw")
        for l in cfg:
            out.append("        " + l)
        out.append("")
        if conc:
            out.append("    def _impl_concurrent_(self):")
            out.append("        hw = self._hw")
            for l in conc:
                out.append("        " + l)
            out.append("")
        if seq:
            out.append("    def _impl_sequential_(self):")
            out.append("        hw = self._hw")
            for cond, act in seq:
                out.append(f"        if {cond}:")
                out.append(f"            {act}")
            out.append("")
    elif cfg:
        out.append("    def _config_(self):")
        for l in cfg:
            out.append("        " + l)
        out.append("")
    opts = [f"addr_width={spec['addr_width']}"]
    if spec["active_high_reset"]:
        opts.append("active_high_reset=True")
    if hw:
        out.append(f"class Top(axi.base_entity({', '.join(opts)})):")
        for inst in insts:
            for name, d, ty, role in inst["ports"]:
                out.append(f"    {name} = Port.{'input' if d == 'in' else 'output'}({_port_ty(ty)})")
        out.append("")
        out.append("    def architecture(self):")
        out.append("        self.interface_connection().connect_addr_map(Root(self))")
    else:
        out.append(f"class Top(axi.addr_map_entity({', '.join(opts)}, addr_map=Root)):")
        out.append("    pass")
    out.append("")
    return "\n".join(out)
