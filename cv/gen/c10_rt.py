"""Run-time support imported by every generated C10 module.

The two pyeval functions are defined once per process: cohdl registers every pyeval
function in a process-wide list that is searched linearly, so defining them in each
generated module would make a shard quadratic in its number of cases.
"""
import cohdl

OBS = []
LOG = []


@cohdl.pyeval
def probe(v):
    OBS.append(v)


@cohdl.pyeval
def rec(*v):
    LOG.append(v)
    return None


def reset():
    del OBS[:]
    del LOG[:]
