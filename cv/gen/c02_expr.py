"""C02: expression cases - port/tree helpers, rendering to cohdl source, valuations, cell enumeration, strategies.

case = {"ports": [port, ...], "exprs": [tree, ...], "vals": [[pattern, ...], ...] | None, "exh": max bits enumerated}
port = [name, kind, width]            kind in bit bool bv u s Int   (Int: run-time Integer, domain = signed `width` bits)
     | [name, "enum", n]              Signal[E<n>] decoded from an input BitVector (patterns >= n decode to member 0)
     | [name, "arr", elemkind, w, n]  Signal[Array[T, n]] whose elements are driven from n input ports
tree: see cv.ref.values_ext.  Never imports cohdl.
"""
from __future__ import annotations

import itertools

from cv.ref import values as rv
from cv.ref import values_ext as vx

BINSYM = {"add": "+", "sub": "-", "mul": "*", "floordiv": "//", "mod": "%", "shl": "<<", "shr": ">>", "concat": "@",
          "and": "&", "or": "|", "xor": "^", "eq": "==", "ne": "!=", "lt": "<", "le": "<=", "gt": ">", "ge": ">="}
ARITH = ("add", "sub", "mul", "truncdiv", "mod", "rem")
CMP = ("eq", "ne", "lt", "le", "gt", "ge")
BITW = ("and", "or", "xor")
SHIFT = ("shl", "shr")
VIEWS = ("signed", "unsigned", "bitvector")
NARY = ("land", "lor", "any", "all")


# ----------------------------------------------------------------------------- ports
def port_types(case):
    """{name: type tuple for values_ext}"""
    d = {}
    for p in case["ports"]:
        if p[1] == "arr":
            d[p[0]] = ("arr", p[2], p[3], p[4])
        elif p[1] == "enum":
            d[p[0]] = ("enum", p[2])
        else:
            d[p[0]] = (p[1], p[2])
    return d


def enum_bits(n):
    return max(1, (n - 1).bit_length())


def port_slots(case):
    """flat list of the physical input ports: (sim name, python type text, bits, owner index, element index|None)"""
    out = []
    for i, p in enumerate(case["ports"]):
        n, k = p[0], p[1]
        if k == "arr":
            for e in range(p[4]):
                out.append((f"{n}_{e}", ptype(p[2], p[3]), 1 if p[2] == "bit" else p[3], i, e))
        elif k == "enum":
            out.append((f"{n}_c", f"BitVector[{enum_bits(p[2])}]", enum_bits(p[2]), i, None))
        elif k == "Int":
            out.append((f"{n}_i", f"Signed[{p[2]}]", p[2], i, None))
        elif k in ("bit", "bool"):
            out.append((n, ptype(k, None), 1, i, None))
        else:
            out.append((n, ptype(k, p[2]), p[2], i, None))
    return out


def ptype(kind, width):
    return {"bit": "Bit", "bool": "bool", "bv": f"BitVector[{width}]", "u": f"Unsigned[{width}]",
            "s": f"Signed[{width}]", "int": "int", "Int": "int"}[kind]


def total_bits(case):
    return sum(s[2] for s in port_slots(case))


def _corners(w):
    m = (1 << w) - 1
    alt = int("01" * ((w + 1) // 2), 2) & m
    c = [0, 1 & m, m, 1 << (w - 1), (1 << (w - 1)) - 1, alt, (~alt) & m, 2 & m, m - 1]
    out = []
    for x in c:
        if x not in out:
            out.append(x)
    return out


def valuations(case):
    """-> (list of slot-pattern tuples, exhaustive?)"""
    slots = port_slots(case)
    bits = sum(s[2] for s in slots)
    if bits <= case.get("exh", 10):
        return list(itertools.product(*[range(1 << s[2]) for s in slots])), True
    cs = [_corners(s[2]) for s in slots]
    n = 1
    for c in cs:
        n *= len(c)
    if n <= 400:
        vals = list(itertools.product(*cs))
    else:
        vals = []
        for sh in range(9):
            for i in range(9):
                vals.append(tuple(c[(i + sh * j) % len(c)] for j, c in enumerate(cs)))
    for v in case.get("vals") or []:
        vals.append(tuple(int(x) & ((1 << s[2]) - 1) for x, s in zip(v, slots)))
    seen, uniq = set(), []
    for v in vals:
        if v not in seen:
            seen.add(v)
            uniq.append(v)
    return uniq, False


def env_of(case, slots, val):
    """model environment and simulator pokes of one valuation."""
    env, poke = {}, {}
    ports = case["ports"]
    arrs = {}
    for (sname, _, bits, owner, elem), pat in zip(slots, val):
        p = ports[owner]
        k = p[1]
        if k == "arr":
            arrs.setdefault(p[0], []).append(vx.make_port_value((p[2], p[3]), pat))
            poke[sname] = pat
        elif k == "enum":
            env[p[0]] = rv.V("enum", p[2], pat if pat < p[2] else 0)
            poke[sname] = pat
        elif k == "Int":
            env[p[0]] = rv.integer(rv.wrap("s", p[2], pat))
            poke[sname] = pat
        elif k == "bool":
            env[p[0]] = rv.boolean(pat)
            poke[sname] = bool(pat)
        else:
            env[p[0]] = vx.make_port_value((k, p[2]), pat)
            poke[sname] = pat
    env.update(arrs)
    return env, poke


# ----------------------------------------------------------------------------- tree helpers
def children(t):
    tag = t[0]
    if tag in ("in", "lit", "ek", "aconst", "kb", "kbit", "kv"):
        return []
    if tag == "resize" or tag == "slice":
        return [t[3]]
    if tag == "index":
        return [t[2]]
    if tag == "aidx":
        return [t[2]]
    if tag == "conv":
        return [t[4]]
    if tag == "chain":
        return list(t[2])
    if tag == "sel":
        return [t[1]] + [v for _, v in t[2]] + ([t[3]] if t[3] is not None else [])
    return list(t[1:])


def is_leaf(t):
    return t[0] in ("in", "lit", "ek", "kb", "kbit", "kv")


def n_ops(t):
    return (0 if is_leaf(t) else 1) + sum(n_ops(c) for c in children(t))


def depth(t):
    return 0 if is_leaf(t) else 1 + max([depth(c) for c in children(t)] or [0])


def has_runtime(t):
    if t[0] in ("in", "aconst", "aidx"):
        return True
    return any(has_runtime(c) for c in children(t))


def subtrees_postorder(t):
    for c in children(t):
        yield from subtrees_postorder(c)
    if not is_leaf(t):
        yield t


def used_ports(t, acc=None):
    acc = set() if acc is None else acc
    if t[0] == "in":
        acc.add(t[1])
    elif t[0] in ("aconst", "aidx"):
        acc.add(t[1])
    for c in children(t):
        used_ports(c, acc)
    return acc


def ops_of(t):
    return [s[0] for s in subtrees_postorder(t)]


# ----------------------------------------------------------------------------- rendering
class Renderer:
    def __init__(self, case):
        self.case = case
        self.ptypes = port_types(case)

    def stype(self, t):
        return vx.static_type(t, self.ptypes)

    def key_text(self, argtype, key):
        k, w = argtype
        if k == "bit":
            return f"Bit({key})"
        if k == "bv":
            return '"' + format(key, f"0{w}b") + '"'
        if k == "u":
            return str(key)
        if k == "s":
            return str(rv.wrap("s", w, key))
        if k == "enum":
            return f"E{w}.m{w}k{key}"
        raise ValueError(argtype)

    def rx(self, t):
        tag = t[0]
        r = self.rx
        if tag == "in":
            k = self.ptypes[t[1]][0]
            return f"e_{t[1]}" if k == "enum" else f"i_{t[1]}" if k == "Int" else f"self.{t[1]}"
        if tag == "lit":
            return f"({t[1]})" if t[1] < 0 else str(t[1])
        if tag == "ek":
            return f"E{t[1]}.m{t[1]}k{t[2]}"
        if tag == "kv":
            if t[1] == "bv":
                return f'BitVector[{t[2]}]("' + format(t[3], f"0{t[2]}b") + '")'
            return f"{ptype(t[1], t[2])}({t[3]})"
        if tag == "kb":
            return "True" if t[1] else "False"
        if tag == "kbit":
            return f"Bit({t[1]})"
        if tag in BINSYM:
            return f"({r(t[1])} {BINSYM[tag]} {r(t[2])})"
        if tag in ("truncdiv", "rem"):
            return f"op.{tag}({r(t[1])}, {r(t[2])})"
        if tag == "inv":
            return f"(~{r(t[1])})"
        if tag == "neg":
            return f"(-{r(t[1])})"
        if tag == "abs":
            return f"abs({r(t[1])})"
        if tag in VIEWS:
            return f"{r(t[1])}.{tag}"
        if tag == "resize":
            a = [] if t[1] is None else [str(t[1])]
            if t[2] or t[1] is None:
                a.append(f"zeros={t[2]}")
            return f"{r(t[3])}.resize({', '.join(a)})"
        if tag == "index":
            return f"{r(t[2])}[{t[1]}]"
        if tag == "slice":
            return f"{r(t[3])}[{t[1]}:{t[2]}]"
        if tag == "conv":
            how = {"Signal": "Signal", "Temporary": "Temporary", "Value": "std.Value"}[t[1]]
            return f"{how}[{ptype(t[2], t[3])}]({r(t[4])})"
        if tag == "dyn":
            return f"{r(t[1])}[{r(t[2])}]"
        if tag == "aconst":
            return f"arr_{t[1]}[{t[2]}]"
        if tag == "aidx":
            return f"arr_{t[1]}[{r(t[2])}]"
        if tag == "bool":
            return f"bool({r(t[1])})"
        if tag == "lnot":
            return f"(not {r(t[1])})"
        if tag in ("land", "lor"):
            return "(" + (" and " if tag == "land" else " or ").join(r(x) for x in t[1:]) + ")"
        if tag in ("any", "all"):
            return f"{tag}([" + ", ".join(r(x) for x in t[1:]) + "])"
        if tag in ("anyv", "allv"):
            return f"{tag[:3]}({r(t[1])})"
        if tag == "chain":
            s = r(t[2][0])
            for o, x in zip(t[1], t[2][1:]):
                s += f" {BINSYM[o]} {r(x)}"
            return f"({s})"
        if tag == "ifx":
            return f"({r(t[2])} if {r(t[1])} else {r(t[3])})"
        if tag == "sel":
            at = self.stype(t[1])
            items = ", ".join(f"{self.key_text(at, k)}: {r(v)}" for k, v in t[2])
            d = "" if t[3] is None else f", default={r(t[3])}"
            return f"select_with({r(t[1])}, {{{items}}}{d})"
        raise ValueError(tag)

    def out_type(self, ty):
        k, w = ty
        if k == "enum":
            return f"BitVector[{enum_bits(w)}]"
        return ptype(k, w)

    def design(self, idxs, types, top="Top", contexts=("c", "s")):
        """source of an Entity evaluating exprs[i] for i in idxs (types[i] = static type) in both contexts.
        probe tags: (ctx, i) with ctx 'c' / 's'."""
        case = self.case
        L = ["from __future__ import annotations", "import cohdl",
             "from cohdl import Entity, Port, Bit, BitVector, Unsigned, Signed, Signal, Temporary, Array, Null, Full, op, "
             "std, select_with, enum", "", "SINK = []", "", "", "@cohdl.pyeval", "def probe(ctx, i, v):",
             "    SINK.append((ctx, i, v))", ""]
        enums = sorted({p[2] for p in case["ports"] if p[1] == "enum"} | {types[i][1] for i in idxs if types[i][0] == "enum"}
                       | set(self._enum_consts(idxs)))
        for n in enums:
            L += ["", f"class E{n}(enum.Enum):"] + [f"    m{n}k{i} = enum.auto()" for i in range(n)]
        L += ["", "", f"class {top}(Entity):", "    clk = Port.input(Bit)"]
        for sname, pt, _, _, _ in port_slots(case):
            L.append(f"    {sname} = Port.input({pt})")
        for i in idxs:
            L.append(f"    o{i} = Port.output({self.out_type(types[i])})")
            L.append(f"    q{i} = Port.output({self.out_type(types[i])})")
        L += ["", "    def architecture(self):"]
        drive = []
        for p in case["ports"]:
            if p[1] == "arr":
                L.append(f"        arr_{p[0]} = Signal[Array[{ptype(p[2], p[3])}, {p[4]}]]()")
                for e in range(p[4]):
                    drive.append(f"            arr_{p[0]}[{e}] <<= self.{p[0]}_{e}")
            elif p[1] == "enum":
                n, w = p[2], enum_bits(p[2])
                L.append(f"        e_{p[0]} = Signal[E{n}]()")
                items = ", ".join('"' + format(i, f"0{w}b") + f'": E{n}.m{n}k{i}' for i in range(n))
                drive.append(f"            e_{p[0]}.next = select_with(self.{p[0]}_c, {{{items}}}, default=E{n}.m{n}k0)")
            elif p[1] == "Int":
                L.append(f"        i_{p[0]} = Signal[int](1)")
                drive.append(f"            i_{p[0]}.next = self.{p[0]}_i")
        if drive:
            L += ["", "        @std.concurrent", "        def drive():"] + drive
        for ctx, head, var, port in (("c", ["        @std.concurrent", "        def logic():"], "t", "o"),
                                     ("s", ["        @std.sequential(std.Clock(self.clk))", "        def proc():"], "r", "q")):
            if ctx not in contexts:
                continue
            L += [""] + head
            for i in idxs:
                L.append(f"            cohdl.comment('X{i}')")
                L.append(f"            {var}{i} = {self.rx(case['exprs'][i])}")
                L.append(f"            probe('{ctx}', {i}, {var}{i})")
                ty = types[i]
                if ty[0] == "enum":
                    n, w = ty[1], enum_bits(ty[1])
                    items = ", ".join(f"E{n}.m{n}k{j}: " + '"' + format(j, f"0{w}b") + '"' for j in range(n))
                    L.append(f"            self.{port}{i} <<= select_with({var}{i}, {{{items}}}, default=Null)")
                else:
                    L.append(f"            self.{port}{i} <<= {var}{i}")
        return "\n".join(L) + "\n"

    def _enum_consts(self, idxs):
        out = []

        def walk(t):
            if t[0] == "ek":
                out.append(t[1])
            for c in children(t):
                walk(c)

        for i in idxs:
            walk(self.case["exprs"][i])
        return out


# ----------------------------------------------------------------------------- enumeration of cells
def leaf_types(W):
    ts = [("bit", None)]
    for k in ("bv", "u", "s"):
        for w in W:
            ts.append((k, w))
    return ts


def _lits_for(w):
    """int literals tried next to an operand of width w: representable and not"""
    c = [0, 1, -1, (1 << w) - 1, 1 << w, -(1 << (w - 1)), (1 << (w - 1)) - 1 if w > 1 else 2, -(1 << w)]
    out = []
    for x in c:
        if x not in out:
            out.append(x)
    return out


CONV_HOWS = ("Signal", "Temporary", "Value")


def conv_targets(ty):
    """target types of the local conversions T(x) the C05 statement classifies as value preserving"""
    k, w = ty
    if k == "u":
        return [("u", w), ("u", w + 1), ("u", w + 3), ("s", w + 1), ("s", w + 2), ("bv", w)]
    if k == "s":
        return [("s", w), ("s", w + 1), ("s", w + 3), ("bv", w)]
    return [("u", w), ("s", w)]


def unary_forms(x, ty):
    """all 1-operator trees over the operand tree x of static type ty (legal per model typing is checked by caller)."""
    k, w = ty
    out = [["inv", x], ["lnot", x], ["bool", x]]
    if k in ("u", "s"):
        out += [["neg", x]]
        for to in (w, w + 1, w + 2):
            for z in (0, 1):
                if w + z <= to:
                    out.append(["resize", to, z, x])
        out.append(["resize", None, 1, x])
    if k == "s":
        out.append(["abs", x])
    if k in rv.VEC:
        hows = CONV_HOWS if is_leaf(x) else CONV_HOWS[:2]
        for ck, cw in conv_targets(ty):
            for how in hows:
                out.append(["conv", how, ck, cw, x])
        out += [[v, x] for v in VIEWS]
        out += [["anyv", x], ["allv", x]]
        for i in range(w):
            out.append(["index", i, x])
        for h in range(w):
            for l in range(h + 1):
                out.append(["slice", h, l, x])
    return out


def binary_ops():
    return list(ARITH) + ["floordiv"] + list(SHIFT) + ["concat"] + list(BITW) + list(CMP)


def cells_1op(W):
    """[(ports, tree)]: every tree with exactly one operator over ports a, b of types from W and int literals."""
    LT = leaf_types(W)
    out = []
    a, b = ["in", "a"], ["in", "b"]
    for ta in LT:
        pa = [["a", ta[0], ta[1]]]
        pt = {"a": ta}
        for t in unary_forms(a, ta):
            if vx.static_type(t, pt) is not None:
                out.append((pa, t))
        if ta[0] in ("u", "s"):
            for o in list(ARITH) + list(CMP):
                for n in _lits_for(ta[1]):
                    for t in ([o, a, ["lit", n]], [o, ["lit", n], a]):
                        if vx.static_type(t, pt) is not None:
                            out.append((pa, t))
            for o in SHIFT:
                for n in range(0, ta[1] + 2):
                    out.append((pa, [o, a, ["lit", n]]))
        for tb in LT:
            pab = pa + [["b", tb[0], tb[1]]]
            ptab = {"a": ta, "b": tb}
            for o in binary_ops():
                t = [o, a, b]
                if vx.static_type(t, ptab) is not None:
                    out.append((pab, t))
            if ta[0] in rv.VEC and tb[0] == "u":
                out.append((pab, ["dyn", a, b]))
    return out


def _other_leaves(rt, W, name):
    """(port decl | None, leaf tree) candidates for the second operand next to a sub-expression of type rt."""
    out = []
    for t in leaf_types(W):
        out.append(([name, t[0], t[1]], ["in", name]))
    if rt[0] in ("u", "s"):
        for n in (0, 1, -1, (1 << rt[1]) - 1):
            out.append((None, ["lit", n]))
    return out


def _tree_lits(t):
    out = [t[1]] if t[0] == "lit" else []
    for c in children(t):
        out += _tree_lits(c)
    return out


def inner_cells(mode, W):
    """producers used as the inner operator of the 2-operator cells.
    'all': every 1-operator cell over W;  'rep': one representative width (2) per operator / kind combination and
    the literals 1, -1, 2 only;  'repn': as 'rep' without literal operands."""
    if mode == "all":
        return cells_1op(W)
    lits = (1, -1, 2) if mode == "rep" else ()  # 'repn': no literal inside the inner operator (except shift counts)
    out, nconv = [], 0
    for p, t in cells_1op([2]):
        if t[0] == "conv":  # one construction per (source, target) pair, rotating
            nconv += 1
            if mode != "rep" and t[1] != CONV_HOWS[((nconv - 1) // 3) % 3]:
                continue
        if t[0] in SHIFT or all(n in lits for n in _tree_lits(t)):
            out.append((p, t))
    return out


def cells_2op(W, inner="rep"):
    """[(ports, tree)]: trees with exactly two operators: outer operator over (inner cell, leaf of any type over W or
    literal) in both positions, and every unary form of the inner cell."""
    out = []
    for ports, t1 in inner_cells(inner, W):
        pt = {p[0]: (p[1], p[2]) for p in ports}
        rt = vx.static_type(t1, pt)
        if rt is None or rt[0] == "int":
            continue
        for t in unary_forms(t1, rt):
            if t[0] == "conv" and inner == "repn" and (t[1] != "Temporary" or t[3] != rt[1] + 1):
                continue  # quick: one widening conversion per kind of an operator result
            if vx.static_type(t, pt) is not None:
                out.append((ports, t))
        for decl, leaf in _other_leaves(rt, W, "c"):
            p2 = ports + ([decl] if decl else [])
            pt2 = dict(pt)
            if decl:
                pt2["c"] = (decl[1], decl[2])
            for o in binary_ops():
                for t in ([o, t1, leaf], [o, leaf, t1]):
                    if vx.static_type(t, pt2) is not None:
                        out.append((p2, t))
            if rt[0] in rv.VEC and decl and decl[1] == "u":
                out.append((p2, ["dyn", t1, leaf]))
            if rt[0] == "u" and decl and decl[1] in rv.VEC and (t1[0] == "unsigned" or decl[2] == 2):
                # a computed index is rejected by cohdl ("temporary read before it was written") unless it is a
                # view of a signal: keep the views and one vector width for the others
                out.append((p2, ["dyn", leaf, t1]))
    return out


def cells_special(W):
    """cells of the n-ary / selecting operators, enum and array operands (1 operator, small fixed shapes)."""
    out = []
    LT = leaf_types(W)
    a, b, c, d = ["in", "a"], ["in", "b"], ["in", "c"], ["in", "d"]
    conds = [("bit", None), ("bool", None), ("bv", 2), ("u", 2), ("s", 2)]
    # if-expression: condition kind x branch type
    for ct in conds:
        for t in LT + [("bool", None), ("Int", 3), ("enum", 3)]:
            ports = [["c", ct[0], ct[1]], ["a", t[0], t[1]], ["b", t[0], t[1]]]
            out.append((ports, ["ifx", c, a, b]))
            if t[0] == "enum":
                out.append((ports, ["ifx", c, a, ["ek", 3, 2]]))
    # select_with: argument type x value type, with and without default, full / partial key sets
    for at in [("bit", None), ("bv", 1), ("bv", 2), ("u", 2), ("s", 2), ("enum", 3)]:
        nkeys = 2 if at[0] == "bit" else (at[1] if at[0] == "enum" else 1 << at[1])
        for t in [("bit", None), ("bv", 2), ("u", 2), ("s", 3), ("enum", 3)]:
            ports = [["c", at[0], at[1]], ["a", t[0], t[1]], ["b", t[0], t[1]], ["d", t[0], t[1]]]
            vals = [a, b, ["inv", a] if t[0] not in ("enum",) else ["ek", 3, 1], ["inv", b] if t[0] != "enum" else ["ek", 3, 2]]
            full = [[k, vals[k % 4]] for k in range(nkeys)]
            out.append((ports, ["sel", c, full, d]))
            out.append((ports, ["sel", c, full, None]))
            out.append((ports, ["sel", c, full[:-1], d]))
            out.append((ports, ["sel", c, [full[-1]], d]))
    # and / or / any / all over mixed truthy operands, chained comparisons
    tr = [("bit", None), ("bool", None), ("bv", 2), ("u", 2), ("s", 2)]
    for ta in tr:
        for tb in tr:
            ports = [["a", ta[0], ta[1]], ["b", tb[0], tb[1]]]
            for o in NARY:
                out.append((ports, [o, a, b]))
        ports = [["a", ta[0], ta[1]], ["b", "bit", None], ["c", "bool", None]]
        for o in NARY:
            out.append((ports, [o, a, b, c]))
    for k in ("u", "s"):
        for wa, wb, wc in itertools.product(W, repeat=3):
            if wa > 2 and wb > 2 and wc > 2:
                continue
            ports = [["a", k, wa], ["b", k, wb], ["c", k, wc]]
            for o1, o2 in (("lt", "le"), ("le", "lt"), ("eq", "ne"), ("gt", "ge"), ("ge", "eq"), ("ne", "gt")):
                out.append((ports, ["chain", [o1, o2], [a, b, c]]))
        for w in W:
            ports = [["a", k, w], ["b", k, w]]
            for n in (0, 1, (1 << w) - 1 if k == "u" else -1):
                out.append((ports, ["chain", ["le", "lt"], [["lit", n], a, b]]))
                out.append((ports, ["chain", ["lt", "le"], [a, ["lit", n], b]]))
                out.append((ports, ["chain", ["gt", "ne"], [a, b, ["lit", n]]]))
    # enum comparisons
    for n in (2, 3):
        ports = [["a", "enum", n], ["b", "enum", n]]
        for o in ("eq", "ne"):
            out.append((ports, [o, a, b]))
            for i in range(n):
                out.append((ports, [o, a, ["ek", n, i]]))
                out.append((ports, [o, ["ek", n, i], a]))
    # arrays: constant and run-time index
    for ek, ew in [("bit", None), ("bv", 2), ("u", 2), ("s", 2), ("u", 1)]:
        for n in (1, 2, 3, 4):
            for iw in (1, 2):
                ports = [["m", "arr", ek, ew, n], ["i", "u", iw]]
                out.append((ports, ["aidx", "m", ["in", "i"]]))
                for e in range(n):
                    out.append((ports, ["aconst", "m", e]))
    # run-time Integer operands
    for o in list(ARITH) + list(CMP):
        out.append(([["a", "Int", 3], ["b", "Int", 3]], [o, a, b]))
        for k in ("u", "s"):
            for w in (2, 3):
                out.append(([["a", k, w], ["b", "Int", 3]], [o, a, b]))
                out.append(([["a", k, w], ["b", "Int", 3]], [o, b, a]))
    for o in SHIFT:
        for k in ("u", "s"):
            out.append(([["a", k, 3], ["b", "Int", 3]], [o, a, b]))
    return out


def _const(kind, truthy):
    if kind == 0:
        return ["kb", int(truthy)]
    if kind == 1:
        return ["lit", 3 if truthy else 0]
    return ["kbit", int(truthy)]


def cells_const_mix(full=False):
    """and / or / any / all over lists of 2..4 elements mixing run-time operands with 0..3 compile-time constants of
    both truth values at every position (Python bool, int, constant Bit).  full: every constant kind at every
    position; else the kinds rotate (all truth-value patterns are still enumerated)."""
    ports = [["a", "bit", None], ["b", "bool", None], ["c", "u", 2], ["d", "bit", None]]
    rts = [["in", "a"], ["in", "b"], ["in", "c"], ["in", "d"]]
    out, rot = [], 0
    for L in (2, 3, 4):
        for k in range(0, min(3, L - 1) + 1):
            for pos in itertools.combinations(range(L), k):
                for truths in itertools.product((0, 1), repeat=k):
                    kind_sets = list(itertools.product((0, 1, 2), repeat=k)) if full else [None]
                    for kinds in kind_sets:
                        if kinds is None:
                            rot += 1
                            kinds = [(rot + j) % 3 for j in range(k)]
                        xs, ci, ri = [], 0, rot
                        for i in range(L):
                            if i in pos:
                                xs.append(_const(kinds[ci], truths[ci]))
                                ci += 1
                            else:
                                xs.append(rts[(ri + i) % 4])
                        for o in NARY:
                            out.append((ports, [o] + xs))
    return out


def const_corners(kind, w):
    lo, hi = rv.value_range(kind, w)
    c = [lo, -1, 0, 1, hi, hi // 2 + 1] if kind == "s" else [0, 1, hi, hi // 2 + 1, hi - 1]
    out = []
    for x in c:
        if lo <= x <= hi and x not in out:
            out.append(x)
    return out


def cells_const_fold(full=False):
    """binary operators on two CONSTANT Signed / Unsigned objects of different (and equal) widths in both orders with
    all sign combinations, folded by the tracer inside the design (the result reaches the VHDL as a literal); also
    constant (op) run-time.  quick: + and - on corner values, the other operators on a sign-combination sample."""
    out = []
    wps = [(2, 4), (4, 2), (1, 3), (3, 3)] if not full else \
        [(a, b) for a in range(1, 6) for b in range(1, 6)]
    for kind in ("s", "u"):
        for wa, wb in wps:
            ca, cb = const_corners(kind, wa), const_corners(kind, wb)
            for o in ("add", "sub"):
                for x in ca:
                    for y in cb:
                        out.append(([], [o, ["kv", kind, wa, x], ["kv", kind, wb, y]]))
            if not full and wa == wb:
                continue
            for o in ("mul", "truncdiv", "mod", "rem", "lt", "le", "gt", "ge", "eq", "ne", "concat"):
                for x in (ca if full else (ca[0], ca[-2])):
                    for y in (cb if full else (cb[0], cb[-2])):
                        out.append(([], [o, ["kv", kind, wa, x], ["kv", kind, wb, y]]))
        # constant (op) run-time operand of another width, both orders
        for wa, wb in ((2, 4), (4, 2)):
            ports = [["a", kind, wb]]
            for o in ("add", "sub", "mul", "lt", "ge"):
                for x in const_corners(kind, wa)[:4]:
                    out.append((ports, [o, ["kv", kind, wa, x], ["in", "a"]]))
                    out.append((ports, [o, ["in", "a"], ["kv", kind, wa, x]]))
    return out


def fold_cells(W=(1, 2, 3, 4)):
    """cells of the Python-level exhaustive fold check: [op, kind, wa, wb]"""
    out = []
    for kind in ("s", "u"):
        for wa in W:
            for wb in W:
                for o in ("add", "sub", "mul", "truncdiv", "mod", "rem", "eq", "ne", "lt", "le", "gt", "ge", "concat"):
                    out.append([o, kind, wa, wb])
                if wa == wb:
                    out += [[o, kind, wa, wb] for o in BITW]
    return out


def pack(cells, per=8):
    """group cells by their port declaration, chunk into cases of `per` expressions."""
    groups = {}
    for ports, t in cells:
        key = rv_key(ports)
        groups.setdefault(key, (ports, []))[1].append(t)
    cases = []
    for key in groups:
        ports, ts = groups[key]
        n = per if ports else 24  # constant-only expressions: one valuation, amortise the compilation
        for i in range(0, len(ts), n):
            cases.append({"ports": ports, "exprs": ts[i:i + n], "vals": None, "exh": 12})
    return cases


def rv_key(ports):
    return "|".join(",".join(str(x) for x in p) for p in ports)


# ----------------------------------------------------------------------------- Hypothesis strategy (random trees)
WIDE = (16, 31, 32, 33, 64)


class _Gen:
    """type-directed construction of an expression of an exact result type; every choice is a Hypothesis draw."""

    def __init__(self, draw, st, wide, max_ports=6):
        self.draw, self.st, self.wide, self.max_ports = draw, st, wide, max_ports
        self.ports = []  # [name, kind, width] / enum / arr
        self.pal = None

    # -- draws
    def pick(self, seq):
        return self.draw(self.st.sampled_from(list(seq)))

    def chance(self, p):
        return self.draw(self.st.integers(0, 99)) < int(p * 100)

    def width(self, lo=1, hi=None):
        hi = hi or (64 if self.wide else 8)
        if lo > hi:
            return lo
        if self.pal is None:
            self.pal = [self.draw(self.st.integers(1, 8)) for _ in range(3)]
            if self.wide:
                self.pal[0] = self.pick(WIDE)
        c = [w for w in self.pal if lo <= w <= hi]
        if c and self.chance(0.8):
            return self.pick(c)
        if self.wide and self.chance(0.3):
            c = [w for w in WIDE if lo <= w <= hi]
            if c:
                return self.pick(c)
        return self.draw(self.st.integers(lo, min(hi, 8) if min(hi, 8) >= lo else hi))

    # -- ports
    def port(self, kind, width):
        same = [p for p in self.ports if p[1] == kind and p[2] == width and p[1] not in ("arr",)]
        if same and (len(self.ports) >= self.max_ports or self.chance(0.5)):
            return ["in", self.pick(same)[0]]
        name = "p%d" % len(self.ports)
        self.ports.append([name, kind, width])
        return ["in", name]

    def array(self, ek, ew):
        same = [p for p in self.ports if p[1] == "arr" and p[2] == ek and p[3] == ew]
        if same and self.chance(0.6):
            return self.pick(same)
        name = "m%d" % len(self.ports)
        p = [name, "arr", ek, ew, self.draw(self.st.integers(1, 4))]
        self.ports.append(p)
        return p

    def lit_for(self, w):
        w = min(w, 70)
        c = [0, 1, -1, 2, (1 << w) - 1, 1 << (w - 1), (1 << (w - 1)) - 1, -(1 << (w - 1)), 1 << w]
        if self.chance(0.6):
            return ["lit", self.pick(c)]
        return ["lit", self.draw(self.st.integers(-(1 << w), 1 << w))]

    # -- construction
    def any_type(self, vec_only=False, num_only=False, truthy=False):
        if num_only:
            return (self.pick("us"), self.width())
        if vec_only:
            return (self.pick(["bv", "u", "s"]), self.width())
        if truthy:
            k = self.pick(["bit", "bool", "bool", "bv", "u", "s"])
        else:
            k = self.pick(["bit", "bool", "bool", "bool", "bv", "bv", "u", "u", "u", "s", "s", "s", "Int", "enum"])
        if k in ("bit", "bool"):
            return (k, None)
        if k == "Int":
            return (k, self.draw(self.st.integers(2, 6)))
        if k == "enum":
            return (k, self.draw(self.st.integers(2, 5)))
        return (k, self.width())

    def gen(self, ty, d, top=False):
        k, w = ty
        if d <= 0:
            return self.leaf(ty)
        prods = getattr(self, "p_" + k)(w)
        if top and len(prods) > 1:
            prods = [p for p in prods if p != "leaf"]
        name = self.pick(prods)
        t = getattr(self, "mk_" + name)(ty, d - 1)
        return t if t is not None else self.leaf(ty)

    def sub(self, ty, d):
        """operand sub-expression: full remaining depth or shallower"""
        return self.gen(ty, d if self.chance(0.6) else self.draw(self.st.integers(0, max(0, d))))

    def leaf(self, ty):
        k, w = ty
        if k == "enum" and self.chance(0.3):
            return ["ek", w, self.draw(self.st.integers(0, w - 1))]
        if k in ("u", "s") and self.chance(0.07):  # constant Unsigned / Signed object (folded by the tracer)
            lo, hi = rv.value_range(k, w)
            cand = [x for x in (lo, hi, 0, 1, -1) if lo <= x <= hi]
            return ["kv", k, w, self.pick(cand) if self.chance(0.6) else self.draw(self.st.integers(lo, hi))]
        return self.port(k, w)

    # productions per result kind
    def p_u(self, w):
        p = ["leaf", "addsub", "addsub", "bitw", "inv", "shift", "shift", "view", "modrem", "div", "ifx", "sel",
             "resize", "aelem", "lit_arith", "conv"]
        if w >= 2:
            p += ["mul", "mul"]
        if self.chance(0.01):
            p = ["neg"]  # unary minus on Unsigned is emitted as illegal VHDL (C06): keep it rare
        return p

    def p_s(self, w):
        p = ["leaf", "addsub", "addsub", "bitw", "inv", "shift", "shift", "view", "modrem", "div", "ifx", "sel",
             "resize", "aelem", "lit_arith", "neg", "abs", "conv", "conv"]
        if w >= 2:
            p += ["mul", "mul"]
        return p

    def p_bv(self, w):
        p = ["leaf", "bitw", "inv", "view", "slice", "ifx", "sel", "aelem", "conv"]
        if w >= 2:
            p += ["concat", "concat"]
        return p

    def p_bit(self, w):
        return ["leaf", "bitw", "inv", "index", "index", "dyn", "dyn", "ifx", "sel", "aelem"]

    def p_bool(self, w):
        return ["leaf", "cmp", "cmp", "cmp", "cmp_lit", "cmp_eqv", "lnot", "nary", "nary", "chain", "chain", "tobool",
                "anyallv", "ifx", "booleq"]

    def p_Int(self, w):
        return ["leaf"]

    def p_enum(self, w):
        return ["leaf", "ifx", "sel"]

    # makers: (ty, d) -> tree
    def mk_leaf(self, ty, d):
        return self.leaf(ty)

    def narrower(self, ty):
        k, w = ty
        return (k, self.draw(self.st.integers(1, w)))

    def mk_addsub(self, ty, d):
        a, b = self.sub(ty, d), self.sub(self.narrower(ty), d)
        if self.chance(0.5):
            a, b = b, a
        return [self.pick(["add", "sub"]), a, b]

    def mk_lit_arith(self, ty, d):
        k, w = ty
        o = self.pick(["add", "sub", "truncdiv", "mod", "rem"])
        a, n = self.sub(ty, d), self.lit_for(w)
        return [o, a, n] if self.chance(0.6) else [o, n, a]

    def mk_mul(self, ty, d):
        k, w = ty
        if w % 2 == 0 and self.chance(0.25):
            a, n = self.sub((k, w // 2), d), self.lit_for(w // 2)
            return ["mul", a, n] if self.chance(0.5) else ["mul", n, a]
        w1 = self.draw(self.st.integers(1, w - 1))
        return ["mul", self.sub((k, w1), d), self.sub((k, w - w1), d)]

    def mk_div(self, ty, d):
        return ["truncdiv", self.sub(ty, d), self.sub((ty[0], self.width(1, 8)), d)]

    def mk_modrem(self, ty, d):
        return [self.pick(["mod", "rem"]), self.sub((ty[0], self.width(1, 8)), d), self.sub(ty, d)]

    def mk_bitw(self, ty, d):
        return [self.pick(BITW), self.sub(ty, d), self.sub(ty, d)]

    def mk_inv(self, ty, d):
        return ["inv", self.sub(ty, d)]

    def mk_neg(self, ty, d):
        return ["neg", self.sub(ty, d)]

    def mk_abs(self, ty, d):
        return ["abs", self.sub(ty, d)]

    def mk_shift(self, ty, d):
        k, w = ty
        o = self.pick(SHIFT)
        if self.chance(0.5):
            return [o, self.sub(ty, d), ["lit", self.draw(self.st.integers(0, min(w + 2, 70)))]]
        return [o, self.sub(ty, d), self.sub(("u", self.draw(self.st.integers(1, 4))), d)]

    def mk_conv(self, ty, d):
        k, w = ty
        if k == "bv":
            src = (self.pick(["u", "s"]), w)
        elif k == "u":
            src = self.pick([("u", self.draw(self.st.integers(1, w))), ("bv", w)])
        else:
            c = [("s", self.draw(self.st.integers(1, w))), ("bv", w)]
            if w >= 2:
                c += [("u", self.draw(self.st.integers(1, w - 1)))] * 2
            src = self.pick(c)
        hows = CONV_HOWS[:2] if k == "bv" else CONV_HOWS  # std.Value[BitVector] passes u/s temporaries through
        return ["conv", self.pick(hows), k, w, self.sub(src, d)]

    def mk_view(self, ty, d):
        k, w = ty
        src = self.pick([x for x in ("bv", "u", "s") if x != k])
        return [{"u": "unsigned", "s": "signed", "bv": "bitvector"}[k], self.sub((src, w), d)]

    def mk_resize(self, ty, d):
        k, w = ty
        w0 = self.draw(self.st.integers(1, w))
        z = self.draw(self.st.integers(0, w - w0)) if self.chance(0.4) else 0
        return ["resize", w if self.chance(0.8) or w0 + z != w else None, z, self.sub((k, w0), d)]

    def mk_ifx(self, ty, d):
        a, b = self.sub(ty, d), self.sub(ty, d)
        if not has_runtime(a) and not has_runtime(b):
            a = self.port(*ty)
        return ["ifx", self.sub(self.any_type(truthy=True), d), a, b]

    def mk_sel(self, ty, d):
        at = self.pick([("bit", None), ("bv", 1), ("bv", 2), ("u", 2), ("s", 2), ("bv", 3), ("enum", 3)])
        nk = 2 if at[0] == "bit" else (at[1] if at[0] == "enum" else 1 << at[1])
        keys = [k for k in range(nk) if self.chance(0.6)] or [0]
        vals = [[k, self.sub(ty, min(d, 1))] for k in keys]
        dflt = self.sub(ty, min(d, 1)) if (len(keys) < nk or self.chance(0.5)) else None
        return ["sel", self.sub(at, d), vals, dflt]

    def mk_aelem(self, ty, d):
        k, w = ty
        if k in ("bv", "u", "s") and w > 8:
            return None
        arr = self.array(k, w)
        n = arr[4]
        if self.chance(0.4):
            return ["aconst", arr[0], self.draw(self.st.integers(0, n - 1))]
        iw = max(1, (n - 1).bit_length()) if self.chance(0.7) else self.draw(self.st.integers(1, 3))
        return ["aidx", arr[0], self.index_operand(iw, d)]

    def index_operand(self, iw, d):
        """run-time index: cohdl only accepts a signal (or a view of one) here; computed indices stay rare"""
        if self.chance(0.1):
            return self.sub(("u", iw), d)
        if self.chance(0.3):
            return ["unsigned", self.port(self.pick(["bv", "s"]), iw)]
        return self.port("u", iw)

    def mk_concat(self, ty, d):
        k, w = ty
        w1 = self.draw(self.st.integers(1, w - 1))

        def piece(n):
            if n == 1 and self.chance(0.5):
                return self.sub(("bit", None), d)
            return self.sub((self.pick(["bv", "u", "s"]), n), d)

        return ["concat", piece(w1), piece(w - w1)]

    def mk_slice(self, ty, d):
        k, w = ty
        ws = self.width(w, w + 8)
        l = self.draw(self.st.integers(0, ws - w))
        return ["slice", l + w - 1, l, self.sub((self.pick(["bv", "u", "s"]), ws), d)]

    def mk_index(self, ty, d):
        t = self.any_type(vec_only=True)
        return ["index", self.draw(self.st.integers(0, t[1] - 1)), self.sub(t, d)]

    def mk_dyn(self, ty, d):
        t = self.any_type(vec_only=True)
        iw = max(1, (t[1] - 1).bit_length()) if t[1] > 1 else 1
        if self.chance(0.3):
            iw = self.draw(self.st.integers(1, 4))
        return ["dyn", self.sub(t, d), self.index_operand(iw, d)]

    def mk_cmp(self, ty, d):
        k = self.pick("us")
        return [self.pick(CMP), self.sub((k, self.width()), d), self.sub((k, self.width()), d)]

    def mk_cmp_lit(self, ty, d):
        t = self.any_type(num_only=True)
        a, n = self.sub(t, d), self.lit_for(t[1])
        o = self.pick(CMP)
        return [o, a, n] if self.chance(0.5) else [o, n, a]

    def mk_cmp_eqv(self, ty, d):
        t = self.pick([("bit", None), ("bv", self.width()), ("enum", 3), ("Int", 4)])
        return [self.pick(["eq", "ne"]), self.sub(t, d), self.sub(t, d)]

    def mk_booleq(self, ty, d):
        return [self.pick(["eq", "ne"]), self.sub(("bool", None), d), self.sub(("bool", None), d)]

    def mk_lnot(self, ty, d):
        return ["lnot", self.sub(self.any_type(truthy=True), d)]

    def mk_tobool(self, ty, d):
        return ["bool", self.sub(self.any_type(truthy=True), d)]

    def mk_nary(self, ty, d):
        n = self.draw(self.st.integers(2, 4))
        xs = [self.sub(self.any_type(truthy=True), d) for _ in range(n)]
        if self.chance(0.5):  # compile-time constants of both truth values among the run-time operands
            for i in range(1 if n == 2 else self.draw(self.st.integers(1, n - 1))):
                j = self.draw(self.st.integers(0, n - 1))
                if sum(1 for x in xs if has_runtime(x)) > 1 or not has_runtime(xs[j]):
                    xs[j] = _const(self.draw(self.st.integers(0, 2)), self.draw(self.st.integers(0, 1)))
        if not any(has_runtime(x) for x in xs):
            xs[0] = self.leaf(("bit", None))
        return [self.pick(NARY)] + xs

    def mk_anyallv(self, ty, d):
        return [self.pick(["anyv", "allv"]), self.sub(self.any_type(vec_only=True), d)]

    def mk_chain(self, ty, d):
        k = self.pick("us")
        n = self.draw(self.st.integers(3, 4))
        xs = [self.sub((k, self.width()), d) for _ in range(n)]
        if self.chance(0.3):
            i = self.draw(self.st.integers(0, n - 1))
            xs[i] = self.lit_for(4)
            if all(x[0] == "lit" for x in xs):
                xs[0] = self.leaf((k, 3))
        return ["chain", [self.pick(CMP) for _ in range(n - 1)], xs]


def case_strategy(wide=False, n_exprs=8, n_vals=24):
    from hypothesis import strategies as st

    @st.composite
    def build(draw):
        g = _Gen(draw, st, wide)
        exprs = []
        for _ in range(n_exprs):
            ty = g.any_type()
            while ty[0] in ("Int",):
                ty = g.any_type()
            d = draw(st.sampled_from([1, 2, 2, 3, 3, 3]))
            t = g.gen(ty, d, top=True)
            if is_leaf(t):
                t = ["bool", t] if ty[0] in vx.TRUTHY else ["eq", t, t]
            exprs.append(t)
        case = {"ports": g.ports, "exprs": exprs, "vals": None, "exh": 10}
        slots = port_slots(case)
        if sum(s[2] for s in slots) > 10:
            case["vals"] = [[draw(st.integers(0, (1 << s[2]) - 1)) for s in slots] for _ in range(n_vals)]
        return case

    return build()
