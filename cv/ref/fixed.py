"""Exact reference model for binary fixed point (property C19).  Never imports cohdl.

A format is (signed, left, right) with left >= right: `width = left - right + 1` raw
bits, the raw integer `raw` represents the rational  raw * 2**right.  Signed raws are
two's complement (-2**(w-1) .. 2**(w-1)-1), unsigned raws 0 .. 2**w-1.

Everything is computed with `fractions.Fraction`, so there is no rounding anywhere in
the model except the two quantisation rules the property names:

    TRUNCATE  toward minus infinity               (floor)
    ROUND     to nearest, ties to the even raw    (round-half-even)

followed by the two overflow rules it names:

    WRAP      modulo the target range             (2**width raws)
    SATURATE  clamp to the target bounds
"""
from __future__ import annotations

from fractions import Fraction
from typing import NamedTuple

TRUNCATE = "TRUNCATE"
ROUND = "ROUND"
WRAP = "WRAP"
SATURATE = "SATURATE"
ROUND_STYLES = (TRUNCATE, ROUND)
OVERFLOW_STYLES = (WRAP, SATURATE)


class Fmt(NamedTuple):
    signed: bool
    left: int
    right: int

    @property
    def width(self) -> int:
        return self.left - self.right + 1

    @property
    def raw_min(self) -> int:
        return -(1 << (self.width - 1)) if self.signed else 0

    @property
    def raw_max(self) -> int:
        return (1 << (self.width - 1)) - 1 if self.signed else (1 << self.width) - 1

    @property
    def lsb(self) -> Fraction:
        return pow2(self.right)

    @property
    def vmin(self) -> Fraction:
        return self.raw_min * self.lsb

    @property
    def vmax(self) -> Fraction:
        return self.raw_max * self.lsb

    def raws(self):
        return range(self.raw_min, self.raw_max + 1)

    def __str__(self):
        return f"{'s' if self.signed else 'u'}[{self.left}:{self.right}]"


def pow2(e: int) -> Fraction:
    return Fraction(1 << e) if e >= 0 else Fraction(1, 1 << -e)


def value(fmt: Fmt, raw: int) -> Fraction:
    if not fmt.raw_min <= raw <= fmt.raw_max:
        raise ValueError(f"raw {raw} outside {fmt}")
    return raw * fmt.lsb


def to_raw(fmt: Fmt, v) -> int | None:
    """raw of the exactly representable number v, else None."""
    q = Fraction(v) / fmt.lsb
    if q.denominator != 1:
        return None
    q = q.numerator
    if not fmt.raw_min <= q <= fmt.raw_max:
        return None
    return q


def representable(fmt: Fmt, v) -> bool:
    return to_raw(fmt, v) is not None


def quantize(v, right: int, round_style: str) -> int:
    """number of 2**right steps after rounding v as selected (unbounded integer)."""
    q = Fraction(v) / pow2(right)
    fl = q.numerator // q.denominator  # floor, also for negatives
    if round_style == TRUNCATE:
        return fl
    if round_style != ROUND:
        raise ValueError(round_style)
    frac = q - fl
    half = Fraction(1, 2)
    if frac < half:
        return fl
    if frac > half:
        return fl + 1
    return fl if fl % 2 == 0 else fl + 1  # tie: even neighbour


def wrap(fmt: Fmt, q: int) -> int:
    m = 1 << fmt.width
    q %= m
    if fmt.signed and q >= m >> 1:
        q -= m
    return q


def saturate(fmt: Fmt, q: int) -> int:
    return max(fmt.raw_min, min(fmt.raw_max, q))


def overflow(fmt: Fmt, q: int, overflow_style: str) -> int:
    if overflow_style == WRAP:
        return wrap(fmt, q)
    if overflow_style == SATURATE:
        return saturate(fmt, q)
    raise ValueError(overflow_style)


def resize(src: Fmt, raw: int, dst: Fmt, round_style: str, overflow_style: str) -> int:
    """raw of the resized value in dst: quantise first, then handle the range."""
    q = quantize(value(src, raw), dst.right, round_style)
    return overflow(dst, q, overflow_style)


def resize_traits(src: Fmt, raw: int, dst: Fmt, round_style: str) -> dict:
    """what happened on the way (used for labels / signatures, not for the oracle)."""
    v = value(src, raw)
    qt = quantize(v, dst.right, TRUNCATE)
    q = quantize(v, dst.right, round_style)
    in_t = dst.raw_min <= qt <= dst.raw_max
    in_q = dst.raw_min <= q <= dst.raw_max
    return {
        "inexact": q * dst.lsb != v,
        "rounded_up": q != qt,
        "tie": (Fraction(v) / dst.lsb - qt) == Fraction(1, 2),
        "out_of_range": not in_q,
        "round_carry": in_t and not in_q,  # rounding itself left the target range
        "negative": v < 0,
    }


# ---------------------------------------------------------------- arithmetic
def exact_binop(op: str, a: Fmt, ra: int, b: Fmt, rb: int) -> Fraction:
    va, vb = value(a, ra), value(b, rb)
    if op == "add":
        return va + vb
    if op == "sub":
        return va - vb
    if op == "mul":
        return va * vb
    raise ValueError(op)


def expected_in_result(op: str, res: Fmt, exact: Fraction):
    """The number the result object must represent, given the format cohdl chose.

    The property fixes the value, not the format: the exact result, except that an
    unsigned difference that is negative wraps modulo the result range 2**(left+1).
    Returns (number, wrapped?)."""
    if op == "sub" and not res.signed and exact < 0:
        span = pow2(res.left + 1)
        k = (-exact) / span
        k = -(-k.numerator // k.denominator)  # ceil
        return exact + k * span, True
    return exact, False


# ---------------------------------------------------------------- self test
def selfcheck():
    s = Fmt(True, 2, -1)
    assert s.width == 4 and s.raw_min == -8 and s.raw_max == 7
    assert value(s, 5) == Fraction(5, 2)
    assert [quantize(Fraction(n, 2), 0, ROUND) for n in (-5, -3, -1, 1, 3, 5)] == [-2, -2, 0, 0, 2, 2]
    assert [quantize(Fraction(n, 2), 0, TRUNCATE) for n in (-5, -3, -1, 1, 3, 5)] == [-3, -2, -1, 0, 1, 2]
    assert quantize(Fraction(3, 4), 0, ROUND) == 1 and quantize(Fraction(-3, 4), 0, ROUND) == -1
    d = Fmt(True, 1, 0)
    assert resize(s, 5, d, TRUNCATE, WRAP) == -2 and resize(s, 5, d, TRUNCATE, SATURATE) == 1
    assert resize(s, -2, d, ROUND, SATURATE) == -1 and resize(s, -1, d, ROUND, SATURATE) == 0
    # 1.5 -> round -> 2 -> carries out of [1:0] signed (max 1)
    assert resize(s, 3, d, ROUND, SATURATE) == 1 and resize(s, 3, d, ROUND, WRAP) == -2
    assert resize_traits(s, 3, d, ROUND)["round_carry"]
    u = Fmt(False, 1, -1)
    assert expected_in_result("sub", Fmt(False, 2, -1), Fraction(-1, 2)) == (Fraction(15, 2), True)
    assert to_raw(u, Fraction(3, 2)) == 3 and to_raw(u, Fraction(1, 4)) is None and to_raw(u, 4) is None
    assert wrap(Fmt(True, 2, 0), 4) == -4 and wrap(Fmt(False, 2, 0), -1) == 7
