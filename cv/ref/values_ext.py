"""Expression-tree evaluator on top of cv.ref.values (reference model for C02).  Never imports cohdl.

Tree (JSON lists)
    ["in", name]                 input port (value from env)
    ["lit", n]                   Python int literal
    ["ek", n_members, i]         enum constant (member i of the design's enum with n members)
    ["kv", kind, width, value]   compile-time constant BitVector / Unsigned / Signed object (value as in cv.ref.values.V)
    ["kb", 0|1]  ["kbit", 0|1]   compile-time constants False/True and Bit(0)/Bit(1) (operands of and / or / any / all)
    [binop, x, y]                binop in cv.ref.values.BINARY  (add sub mul truncdiv floordiv mod rem shl shr concat
                                 and or xor eq ne lt le gt ge)
    [unop, x]                    inv neg abs signed unsigned bitvector bool lnot anyv allv
    ["resize", to|None, zeros, x]   ["index", i, x]   ["slice", h, l, x]   ["dyn", x, idx]
    ["land", x, y, ...]  ["lor", x, y, ...]  ["any", x, ...]  ["all", x, ...]
    ["chain", [cmp, ...], [x0, x1, ...]]        x0 cmp0 x1 cmp1 x2 ...
    ["ifx", cond, a, b]                         a if cond else b
    ["sel", arg, [[key, val], ...], default|None]    select_with(arg, {key: val}, default)   key = int (bit pattern /
                                                enum position)
    ["aconst", arrname, i]  ["aidx", arrname, idx]   element of an array (env[arrname] = list of V)
    ["conv", how, kind, W, x]                   how[T](x) with how in Signal / Temporary / Value (local conversion)

Values: cv.ref.values.V plus kinds  'int' (Python int; run-time Integer when any operand is run-time) and
'enum' (width = number of members, value = position).

What is added to cv.ref.values (all from the C02 statement / cohdl's documented Python-level behaviour):
  * shift counts >= width:  `<<` gives 0 (wraps modulo the result width), `>>` gives 0 for Unsigned (logical) and
    the sign fill for Signed (arithmetic)
  * bool == bool, enum == enum (eq / ne)
  * truth value (and / or / not / any / all / if-expression condition): bool as is, Bit '1', vectors any bit set
  * if-expression and select_with between operands of one and the same type: the selected operand (all operands
    are evaluated: an undetermined operand makes the result undetermined, also in a branch that is not selected)
  * chained comparison: conjunction of the pairwise comparisons
  * run-time index: the addressed bit / element; an index outside the object: value None
  * run-time Integer results outside the 32 bit range: value None (VHDL integer)
UNSPEC = the kind combination is not covered; V(kind, width, None) = type known, value not determined.
"""
from __future__ import annotations

from cv.ref import values as rv
from cv.ref.values import UNSPEC, V

INT_MIN, INT_MAX = -(1 << 31), (1 << 31) - 1
TRUTHY = ("bool", "bit", "bv", "u", "s")
CMP = ("eq", "ne", "lt", "le", "gt", "ge")


def truth(v: V):
    """-> 0/1, None (value unknown) or UNSPEC."""
    if v is UNSPEC or v.kind not in TRUTHY:
        return UNSPEC
    if v.value is None:
        return None
    return int(rv.pattern(v) != 0)


def _zero(v: V):
    return v if v.value is not None else V(v.kind, v.width, 0)


def _binary(op, a: V, b: V):
    if op in ("eq", "ne") and a.kind == b.kind and a.kind in ("bool", "enum") and a.width == b.width:
        return rv.boolean((a.value == b.value) == (op == "eq"))
    if op in ("shl", "shr") and a.kind in rv.NUM and b.kind in ("int", "u") and b.value >= a.width:
        if op == "shl" or a.kind == "u":
            return V(a.kind, a.width, 0)
        return V(a.kind, a.width, -1 if a.value < 0 else 0)
    if "enum" in (a.kind, b.kind) or "bool" in (a.kind, b.kind):
        return UNSPEC
    return rv.apply(op, [a, b])


def _unary(op, a: V, params=None):
    if op == "bool":
        t = truth(a)
        return UNSPEC if t is UNSPEC else rv.boolean(t)
    if op == "lnot":
        t = truth(a)
        return UNSPEC if t is UNSPEC else rv.boolean(not t)
    if op in ("anyv", "allv"):
        if a.kind not in rv.VEC:
            return UNSPEC
        p = rv.pattern(a)
        return rv.boolean(p != 0 if op == "anyv" else p == (1 << a.width) - 1)
    if a.kind in ("enum", "bool"):
        return UNSPEC
    return rv.apply(op, [a], params)


def _same_type(vs):
    k = {(v.kind, v.width) for v in vs}
    return len(k) == 1


class Ev:
    """evaluator bound to one valuation: env maps port names to V (arrays: list of V)."""

    def __init__(self, env):
        self.env = env

    # returns (V | UNSPEC, runtime: bool)
    def ev(self, t):
        tag = t[0]
        if tag == "in":
            return self.env[t[1]], True
        if tag == "lit":
            return rv.integer(t[1]), False
        if tag == "ek":
            return V("enum", t[1], t[2]), False
        if tag == "kv":
            return rv.make(t[1], t[2], t[3]), False
        if tag == "kb":
            return rv.boolean(t[1]), False
        if tag == "kbit":
            return rv.bit(t[1]), False
        m = getattr(self, "_" + tag, None)
        if m is not None:
            r, rt = m(t)
        elif tag in rv.BINARY:
            (a, ra), (b, rb) = self.ev(t[1]), self.ev(t[2])
            r, rt = self._strict(lambda x, y: _binary(tag, x, y), [a, b]), ra or rb
        else:
            a, rt = self.ev(t[1])
            r = self._strict(lambda x: _unary(tag, x), [a])
        if r is not UNSPEC and r.kind == "int" and rt and r.value is not None and not INT_MIN <= r.value <= INT_MAX:
            r = V("int", None, None)
        return r, rt

    @staticmethod
    def _strict(fn, args):
        """apply fn; an operand without value gives the result type (computed on zeros) without value."""
        if any(a is UNSPEC for a in args):
            return UNSPEC
        if all(a.value is not None for a in args):
            return fn(*args)
        r = fn(*[_zero(a) for a in args])
        if r is UNSPEC:
            return UNSPEC
        return V(r.kind, r.width, None)

    def _resize(self, t):
        a, rt = self.ev(t[3])
        return self._strict(lambda x: _unary("resize", x, {"to": t[1], "zeros": t[2]}), [a]), rt

    def _index(self, t):
        a, rt = self.ev(t[2])
        return self._strict(lambda x: _unary("index", x, {"i": t[1]}), [a]), rt

    def _slice(self, t):
        a, rt = self.ev(t[3])
        return self._strict(lambda x: _unary("slice", x, {"h": t[1], "l": t[2]}), [a]), rt

    def _conv(self, t):
        """["conv", how, kind, W, x]: local conversion `Signal[T](x)` / `Temporary[T](x)` / `std.Value[T](x)`; value per the
        C05 statement: Unsigned -> wider-or-equal Unsigned, Signed -> wider-or-equal Signed, Unsigned -> strictly
        wider Signed keep the number, equal-width BitVector <-> Unsigned/Signed keep the bits; anything else UNSPEC."""
        a, rt = self.ev(t[4])
        k, w = t[2], t[3]

        def f(x):
            if x.kind not in rv.VEC:
                return UNSPEC
            if t[1] == "Value" and k == "bv" and x.kind != "bv":
                # std.Value[BitVector[n]](x) hands an Unsigned/Signed *Temporary* through unchanged (it already is a
                # Temporary[BitVector[n]] in the subtype lattice) but converts a Signal/Port: kind not determined here
                return UNSPEC
            if "bv" in (x.kind, k):
                return rv.from_pattern(k, w, rv.pattern(x)) if x.width == w else UNSPEC
            if x.kind == k:
                return V(k, w, x.value) if x.width <= w else UNSPEC
            if x.kind == "u" and k == "s":
                return V(k, w, x.value) if x.width < w else UNSPEC
            return UNSPEC

        return self._strict(f, [a]), True

    def _dyn(self, t):
        (a, ra), (i, ri) = self.ev(t[1]), self.ev(t[2])

        def f(x, idx):
            if x.kind not in rv.VEC or idx.kind != "u":
                return UNSPEC
            if idx.value >= x.width:
                return V("bit", None, None)
            return rv.bit((rv.pattern(x) >> idx.value) & 1)

        return self._strict(f, [a, i]), True

    def _aconst(self, t):
        arr = self.env[t[1]]
        if not 0 <= t[2] < len(arr):
            return UNSPEC, True
        return arr[t[2]], True

    def _aidx(self, t):
        arr = self.env[t[1]]
        i, _ = self.ev(t[2])
        if i is UNSPEC or i.kind != "u":
            return UNSPEC, True
        e0 = arr[0]
        if i.value is None or i.value >= len(arr):
            return V(e0.kind, e0.width, None), True
        return arr[i.value], True

    def _nary_truth(self, t, is_all):
        rs = [self.ev(x) for x in t[1:]]
        # compile-time constants (Python bool / int, constant Bit) fold the Python way: bool(x)
        ts = [int(v.value != 0) if (v is not UNSPEC and v.kind == "int" and not r and v.value is not None) else truth(v)
              for v, r in rs]
        rt = any(r for _, r in rs)
        if any(x is UNSPEC for x in ts) or not ts:
            return UNSPEC, rt
        if any(x is None for x in ts):
            return V("bool", None, None), rt
        return rv.boolean(all(ts) if is_all else any(ts)), rt

    def _land(self, t):
        return self._nary_truth(t, True)

    def _all(self, t):
        return self._nary_truth(t, True)

    def _lor(self, t):
        return self._nary_truth(t, False)

    def _any(self, t):
        return self._nary_truth(t, False)

    def _chain(self, t):
        ops, xs = t[1], t[2]
        rs = [self.ev(x) for x in xs]
        rt = any(r for _, r in rs)
        parts = [self._strict(lambda x, y, o=o: _binary(o, x, y), [rs[i][0], rs[i + 1][0]]) for i, o in enumerate(ops)]
        if any(p is UNSPEC or p.kind != "bool" for p in parts):
            return UNSPEC, rt
        if any(p.value is None for p in parts):
            return V("bool", None, None), rt
        return rv.boolean(all(p.value for p in parts)), rt

    def _ifx(self, t):
        (c, rc), (a, ra), (b, rb) = self.ev(t[1]), self.ev(t[2]), self.ev(t[3])
        if c is UNSPEC or a is UNSPEC or b is UNSPEC or not _same_type([a, b]):
            return UNSPEC, True
        if a.kind == "int" and not (ra and rb):
            return UNSPEC, True  # merge of Python ints: owned by C05
        tc = truth(c)
        if tc is UNSPEC:
            return UNSPEC, True
        if tc is None or a.value is None or b.value is None:
            # cohdl evaluates both branches (a fault of the emitted VHDL in the branch not taken is not judged)
            return V(a.kind, a.width, None), True
        return (a if tc else b), True

    def _sel(self, t):
        arg, _ = self.ev(t[1])
        vals = [self.ev(v)[0] for _, v in t[2]]
        dflt = self.ev(t[3])[0] if t[3] is not None else None
        allv = vals + ([dflt] if dflt is not None else [])
        if arg is UNSPEC or arg.kind not in ("bit", "bv", "u", "s", "enum") or any(v is UNSPEC for v in allv):
            return UNSPEC, True
        if not _same_type(allv) or allv[0].kind == "int":
            return UNSPEC, True
        r0 = allv[0]
        if arg.value is None or any(v.value is None for v in allv):
            return V(r0.kind, r0.width, None), True
        key = arg.value if arg.kind == "enum" else rv.pattern(arg)
        for (k, _), v in zip(t[2], vals):
            if k == key:
                return v, True
        if dflt is None:
            return V(r0.kind, r0.width, None), True
        return dflt, True


def evaluate(tree, env):
    """-> V | UNSPEC"""
    return Ev(env).ev(tree)[0]


def zero_env(ports):
    """ports: {name: (kind, width)} / arrays {name: ("arr", elemkind, width, n)} -> env of zeros"""
    env = {}
    for n, p in ports.items():
        env[n] = make_port_value(p, 0)
    return env


def make_port_value(p, pat):
    """value of a port of type p from the raw bit pattern / element patterns."""
    k = p[0]
    if k == "arr":
        return [make_port_value((p[1], p[2]), x) for x in (pat if isinstance(pat, (list, tuple)) else [pat] * p[3])]
    if k in ("bit", "bool"):
        return V(k, None, pat & 1)
    if k == "enum":
        return V("enum", p[1], pat)
    if k == "Int":  # run-time Integer port whose domain is the signed p[1]-bit range
        return rv.integer(rv.wrap("s", p[1], pat))
    return rv.from_pattern(k, p[1], pat)


def static_type(tree, ports):
    """(kind, width) of the result, or None where the model does not cover the kind combination."""
    r = evaluate(tree, zero_env(ports))
    if r is UNSPEC:
        return None
    return (r.kind, r.width)


def selfcheck():
    u = lambda w, v: rv.vec("u", w, v)  # noqa: E731
    s = lambda w, v: rv.vec("s", w, v)  # noqa: E731
    env = {"a": u(3, 5), "b": s(3, -3), "c": rv.vec("bv", 3, 0b101), "d": rv.bit(1), "arr": [u(2, 1), u(2, 2), u(2, 3)]}
    ev = lambda t: evaluate(t, env)  # noqa: E731
    assert ev(["add", ["in", "a"], ["lit", 1]]) == V("u", 3, 6)
    assert ev(["shl", ["in", "a"], ["lit", 3]]) == V("u", 3, 0)
    assert ev(["shr", ["in", "b"], ["lit", 7]]) == V("s", 3, -1)
    assert ev(["shr", ["in", "a"], ["lit", 7]]) == V("u", 3, 0)
    assert ev(["chain", ["lt", "le"], [["in", "a"], ["lit", 6], ["lit", 6]]]) == rv.boolean(True)
    assert ev(["ifx", ["in", "d"], ["in", "a"], ["add", ["in", "a"], ["lit", 1]]]) == V("u", 3, 5)
    assert ev(["ifx", ["in", "d"], ["in", "a"], ["in", "b"]]) is UNSPEC
    assert ev(["sel", ["in", "c"], [[5, ["in", "a"]]], ["inv", ["in", "a"]]]) == V("u", 3, 5)
    assert ev(["sel", ["in", "c"], [[4, ["in", "a"]]], ["inv", ["in", "a"]]]) == V("u", 3, 2)
    assert ev(["sel", ["in", "c"], [[4, ["in", "a"]]], None]) == V("u", 3, None)
    assert ev(["dyn", ["in", "c"], ["lit", 1]]) is UNSPEC
    assert ev(["dyn", ["in", "c"], ["unsigned", ["slice", 1, 0, ["in", "c"]]]]) == rv.bit(0)
    assert ev(["dyn", ["in", "c"], ["in", "a"]]) == V("bit", None, None)
    assert ev(["aidx", "arr", ["resize", 2, 0, ["unsigned", ["slice", 0, 0, ["in", "c"]]]]]) == V("u", 2, 2)
    assert ev(["land", ["in", "d"], ["lnot", ["in", "c"]]]) == rv.boolean(False)
    assert ev(["allv", ["in", "c"]]) == rv.boolean(False) and ev(["anyv", ["in", "c"]]) == rv.boolean(True)
    assert ev(["all", ["in", "d"], ["kb", 0], ["kb", 1], ["in", "a"]]) == rv.boolean(False)
    assert ev(["all", ["in", "d"], ["lit", 3], ["kbit", 1], ["in", "a"]]) == rv.boolean(True)
    assert ev(["lor", ["lnot", ["in", "d"]], ["lit", 0], ["kbit", 0]]) == rv.boolean(False)
    assert ev(["any", ["lnot", ["in", "d"]], ["kb", 0], ["lit", -1]]) == rv.boolean(True)
    assert ev(["add", ["kv", "s", 3, -3], ["kv", "s", 5, 9]]) == V("s", 5, 6)
    assert ev(["sub", ["kv", "s", 2, -2], ["kv", "s", 4, 7]]) == V("s", 4, 7)
    assert ev(["mul", ["truncdiv", ["in", "a"], ["lit", 0]], ["in", "a"]]) == V("u", 6, None)
    assert ev(["eq", ["lt", ["in", "a"], ["lit", 6]], ["lnot", ["in", "d"]]]) == rv.boolean(False)
    assert static_type(["mul", ["in", "a"], ["in", "a"]], {"a": ("u", 3)}) == ("u", 6)
    assert ev(["conv", "Signal", "s", 5, ["in", "a"]]) == V("s", 5, 5) and ev(["conv", "Value", "s", 4, ["in", "b"]]) == V("s", 4, -3)
    assert ev(["conv", "Signal", "s", 3, ["in", "a"]]) is UNSPEC and ev(["conv", "Signal", "u", 4, ["in", "b"]]) is UNSPEC
    assert ev(["conv", "Temporary", "s", 3, ["in", "c"]]) == V("s", 3, -3)
    assert static_type(["add", ["in", "a"], ["in", "b"]], {"a": ("u", 3), "b": ("s", 3)}) is None
