"""Mathematical definitions of the cohdl.std combinational helpers (property C18).

Plain ints and lists only; must not import cohdl.  A vector is an unsigned int together
with a width that the caller knows; bit i of a vector is `(v >> i) & 1`, index 0 is the
least significant bit and "left" is the most significant side (the VHDL/`@`
convention used throughout cohdl: in `a @ b`, `a` supplies the upper bits).

Every function documents the sentence of cohdl/std/_core_utility.pyi it implements.
"""
from __future__ import annotations


def mask(w):
    return (1 << w) - 1


def bits_lsb_first(v, w):
    return [(v >> i) & 1 for i in range(w)]


def from_bits_lsb_first(bits):
    return sum(b << i for i, b in enumerate(bits))


def to_signed(v, w):
    return v - (1 << w) if (v >> (w - 1)) & 1 else v


# "Returns the number of '1' bits in `vector`." / "... '0' bits ..."
def count_set_bits(v, w):
    return sum(bits_lsb_first(v, w))


def count_clear_bits(v, w):
    return w - count_set_bits(v, w)


# "number of '0' Bits before the first '1' starting from the least significant Bit" etc.
def _run(bits, sym):
    n = 0
    for b in bits:
        if b != sym:
            break
        n += 1
    return n


def count_trailing_zeros(v, w):
    return _run(bits_lsb_first(v, w), 0)


def count_trailing_ones(v, w):
    return _run(bits_lsb_first(v, w), 1)


def count_leading_zeros(v, w):
    return _run(bits_lsb_first(v, w)[::-1], 0)


def count_leading_ones(v, w):
    return _run(bits_lsb_first(v, w)[::-1], 1)


# "BitVector of `width` bits where the single bit at index `bit_pos` is set to `1`"
def one_hot(width, pos):
    assert 0 <= pos < width
    return 1 << pos


# "Returns '1' if a single bit in `inp` is `1` otherwise `0`."
def is_one_hot(v, w):
    return int(count_set_bits(v, w) == 1)


# "new BitVector from the Bits in `inp` in reverse order", 10100 -> 00101
def reverse_bits(v, w):
    return from_bits_lsb_first(bits_lsb_first(v, w)[::-1])


# rol("1001") == "0011", rol("1001", 2) == "0110"; ror("1001") == "1100"
def rol(v, w, n):
    n %= w
    return ((v << n) | (v >> (w - n))) & mask(w) if n else v


def ror(v, w, n):
    n %= w
    return ((v >> n) | (v << (w - n))) & mask(w) if n else v


# lshift_fill(abcdef, XYZ) == defXYZ : concatenate val and fill, drop msbs
def lshift_fill(v, w, f, fw):
    return ((v << fw) | f) & mask(w)


# rshift_fill(abcdef, XYZ) == XYZabc : concatenate fill and val, drop lsbs
def rshift_fill(v, w, f, fw):
    return ((f << w) | v) >> fw


# repeat(BitVector[3]('110'), 2) -> "110110"
def repeat(v, w, times):
    r = 0
    for _ in range(times):
        r = (r << w) | v
    return r  # width w*times


# stretch(BitVector[2]('10'), 3) -> "111000": each bit repeated `factor` times
def stretch(v, w, factor):
    out = []
    for b in bits_lsb_first(v, w):
        out += [b] * factor
    return from_bits_lsb_first(out)  # width w*factor


# pad(vec, left=1, right=2) == "0XXXX00"; fill bit defaults to 0
def pad(v, w, left, right, fill=0):
    r = v << right
    if fill:
        r |= mask(right)
        r |= mask(left) << (w + right)
    return r  # width left + w + right


def leftpad(v, w, result_width, fill=0):
    return pad(v, w, result_width - w, 0, fill)


def rightpad(v, w, result_width, fill=0):
    return pad(v, w, 0, result_width - w, fill)


# "equivalent to first @ arg1 @ arg2 @ ...": the first argument ends up most significant
def concat(parts):
    """parts: [(value, width)] -> (value, width)"""
    r = 0
    tw = 0
    for v, w in parts:
        r = (r << w) | v
        tw += w
    return r, tw


# "result_bit = new_bit if mask_bit else old_bit"
def apply_mask(old, new, m, w):
    return ((old & ~m) | (new & m)) & mask(w)


# "list of BitVectors starting with the least significant slice", last one partial
def batched(v, w, n):
    """-> [(value, width)]"""
    out = []
    for off in range(0, w, n):
        bw = min(n, w - off)
        out.append(((v >> off) & mask(bw), bw))
    return out


# stretch selector by batch_size, AND with input, OR all batches together
def select_batch(v, sel, nsel, batch):
    r = 0
    for i in range(nsel):
        if (sel >> i) & 1:
            r |= (v >> (i * batch)) & mask(batch)
    return r


# Python min/max semantics: the first extremal element (by key) wins
def min_index(keys):
    best = 0
    for i, k in enumerate(keys):
        if k < keys[best]:
            best = i
    return best


def max_index(keys):
    best = 0
    for i, k in enumerate(keys):
        if k > keys[best]:
            best = i
    return best


def first_extreme(keys, smaller):
    """index of the first element e such that no other element is `smaller` than it (left to right scan,
    replace only on a strict `smaller`): Python's min(key=...) tie rule for an arbitrary strict order"""
    best = 0
    for i, k in enumerate(keys):
        if smaller(k, keys[best]):
            best = i
    return best


def count(pred_values):
    return sum(1 for p in pred_values if p)


# val if in [low, high]; low if val < low; high if val > high   (requires low <= high)
def clamp(val, low, high):
    assert low <= high
    return low if val < low else (high if val > high else val)


# index of the first element for which the predicate is False / True, else len
def count_elements_while(preds):
    for i, p in enumerate(preds):
        if not p:
            return i
    return len(preds)


def count_elements_until(preds):
    for i, p in enumerate(preds):
        if p:
            return i
    return len(preds)


# "the first VALUE with a truthy CONDITION or default"
def choose_first(pairs, default):
    for c, v in pairs:
        if c:
            return v
    return default


def left_fold(fn, items):
    acc = items[0]
    for x in items[1:]:
        acc = fn(acc, x)
    return acc


# ------------------------------------------------------------------------------ CRC
def poly_mod(msg_bits_msb_first, poly, n, init=0):
    """Remainder of the bitwise polynomial division that defines an n bit CRC.

    generator G(x) = x^n + poly(x); the message M (most significant / first transmitted
    bit first) is multiplied by x^n, the initial register value is added (xor) to the
    first n message bits (the standard CRC definition), and the result is reduced
    modulo G.  Plain long division over GF(2), no shift register."""
    L = len(msg_bits_msb_first)
    # dividend as an integer polynomial: M(x) * x^n  xor  init(x) * x^L
    m = 0
    for b in msg_bits_msb_first:
        m = (m << 1) | b
    dividend = (m << n) ^ (init << L)
    g = (1 << n) | poly
    for i in range(dividend.bit_length() - 1, n - 1, -1):
        if (dividend >> i) & 1:
            dividend ^= g << (i - n)
    return dividend & mask(n)


def selfcheck():
    assert rol(0b1001, 4, 1) == 0b0011 and rol(0b1001, 4, 2) == 0b0110
    assert ror(0b1001, 4, 1) == 0b1100 and ror(0b1001, 4, 2) == 0b0110
    assert reverse_bits(0b10100, 5) == 0b00101
    assert stretch(0b10, 2, 3) == 0b111000 and repeat(0b110, 3, 2) == 0b110110
    assert pad(0b1010, 4, 1, 2) == 0b0101000 and pad(0b0000, 4, 2, 0, 1) == 0b110000
    # lshift_fill(abcdef, XYZ) == defXYZ
    assert lshift_fill(0b101100, 6, 0b011, 3) == 0b100011
    assert rshift_fill(0b101100, 6, 0b011, 3) == 0b011101
    assert [count_trailing_zeros(v, 4) for v in (1, 2, 12, 8, 0)] == [0, 1, 2, 3, 4]
    assert [count_leading_zeros(v, 4) for v in (14, 13, 3, 7, 0)] == [0, 0, 2, 1, 4]
    assert [count_leading_ones(v, 4) for v in (14, 13, 3, 7, 15)] == [3, 2, 0, 0, 4]
    assert [count_trailing_ones(v, 4) for v in (14, 13, 3, 7, 15)] == [0, 1, 2, 3, 4]
    assert batched(0xABCD, 16, 4) == [(0xD, 4), (0xC, 4), (0xB, 4), (0xA, 4)]
    assert batched(0b1011011, 7, 3) == [(0b011, 3), (0b011, 3), (0b1, 1)]
    assert select_batch(0xABC, 0b010, 3, 4) == 0xB
    assert min_index([4, 2, 1, 9, 1, 11]) == 2 and max_index([1, 5, 5]) == 1
    assert first_extreme([4, 2, 1, 9, 1], lambda a, b: a < b) == 2 and first_extreme([1, 5, 5], lambda a, b: a > b) == 1
    assert concat([(0b1, 1), (0b01, 2)]) == (0b101, 3)
    # CRC-8 poly 0x07 of ASCII "123456789" is 0xF4 (standard check value)
    bits = [(byte >> (7 - i)) & 1 for byte in b"123456789" for i in range(8)]
    assert poly_mod(bits, 0x07, 8) == 0xF4
    # CRC-16/CCITT-FALSE (poly 0x1021, init 0xFFFF) check value 0x29B1
    assert poly_mod(bits, 0x1021, 16, 0xFFFF) == 0x29B1
