"""CoHDL's documented value semantics on plain ints (reference model for C02 / C09).

Never imports cohdl.  A value is  V(kind, width, value):

    kind   'bit' | 'bool' | 'bv' | 'u' | 's' | 'int'
    width  number of bits for bv/u/s, None otherwise
    value  bit: 0/1   bool: 0/1   bv, u: 0 .. 2**w-1 (bit pattern)   s: -2**(w-1) .. 2**(w-1)-1   int: any
           None = the statement fixes kind and width of the result but not its value

Result kind / width of every operator are the ones the property statements (C02, C09) give:

    +  -            max width                       *           sum of widths
    truncdiv (//)   dividend width                  mod, rem    divisor width
    <<  >>          left operand's kind and width; >> logical for 'u', arithmetic for 's'
    @               left operand most significant, result BitVector[sum of widths]
    comparisons     bool
    Python ints     adopt the other operand's kind and width
    mixed widths    unsigned operands zero-extended, signed operands sign-extended first
    everything      wraps modulo 2**width of the result

`UNSPEC` is returned where the statements and cohdl's docstrings are silent: operand kind
combinations outside the ones the upstream tests use (mixed Signed/Unsigned, BitVector
arithmetic, ...), negative shift counts.  A *value* of None is returned (kind and width still
given) for x/0, x mod 0, x rem 0, a Python int that is not representable in the width it adopts,
and a shift count >= width.
"""
from __future__ import annotations

from typing import NamedTuple


class _Unspec:
    def __repr__(self):
        return "UNSPEC"

    def __bool__(self):
        return False


UNSPEC = _Unspec()


class V(NamedTuple):
    kind: str
    width: int | None
    value: int | None

    def __str__(self):
        w = "" if self.width is None else f"[{self.width}]"
        return f"{self.kind}{w}({self.value})"


VEC = ("bv", "u", "s")
NUM = ("u", "s")


# ----------------------------------------------------------------------------- basics
def bit(v):
    return V("bit", None, int(bool(v)))


def boolean(v):
    return V("bool", None, int(bool(v)))


def integer(v):
    return V("int", None, int(v))


def vec(kind, width, value):
    assert kind in VEC and width >= 1
    lo, hi = value_range(kind, width)
    assert lo <= value <= hi, (kind, width, value)
    return V(kind, width, value)


def value_range(kind, width):
    if kind == "s":
        return -(1 << (width - 1)), (1 << (width - 1)) - 1
    if kind in ("bv", "u"):
        return 0, (1 << width) - 1
    if kind in ("bit", "bool"):
        return 0, 1
    raise ValueError(kind)


def representable(kind, width, i):
    lo, hi = value_range(kind, width)
    return lo <= i <= hi


def wrap(kind, width, i):
    """i modulo 2**width, interpreted in `kind`."""
    m = 1 << width
    i %= m
    if kind == "s" and i >= m >> 1:
        i -= m
    return i


def pattern(v: V) -> int:
    """bit pattern of a bit/bv/u/s value as a non-negative int."""
    if v.kind in ("bit", "bool"):
        return v.value
    return v.value % (1 << v.width)


def nbits(v: V) -> int:
    return 1 if v.kind in ("bit", "bool") else v.width


def from_pattern(kind, width, p):
    return V(kind, width, wrap(kind, width, p))


def domain(kind, width=None, other_width=None):
    """all values of an operand kind; Python ints: every int in [-2**ow - 1, 2**ow + 1] (covers all
    representable and some non-representable ints for the width `ow` they adopt)."""
    if kind in ("bit", "bool"):
        return [0, 1]
    if kind == "int":
        ow = other_width or 2
        return list(range(-(1 << ow) - 1, (1 << ow) + 2))
    lo, hi = value_range(kind, width)
    return list(range(lo, hi + 1))


def _trunc_div(a, b):
    q = abs(a) // abs(b)
    return q if (a < 0) == (b < 0) else -q


# ----------------------------------------------------------------------------- arithmetic
def _num_pair(a: V, b: V):
    """-> (kind, wa, wb, va, vb, ok) for the documented numeric operand combinations, else None.
    An int adopts kind and width of the other operand; ok=False if it is not representable there."""
    if a.kind in NUM and b.kind == a.kind:
        return a.kind, a.width, b.width, a.value, b.value, True
    if a.kind in NUM and b.kind == "int":
        return a.kind, a.width, a.width, a.value, b.value, representable(a.kind, a.width, b.value)
    if a.kind == "int" and b.kind in NUM:
        return b.kind, b.width, b.width, a.value, b.value, representable(b.kind, b.width, a.value)
    return None


def _arith(op, a: V, b: V):
    if a.kind == "int" and b.kind == "int":
        return _int_arith(op, a.value, b.value)
    p = _num_pair(a, b)
    if p is None:
        return UNSPEC
    kind, wa, wb, va, vb, ok = p
    if op in ("add", "sub"):
        w = max(wa, wb)
        r = va + vb if op == "add" else va - vb
    elif op == "mul":
        w = wa + wb
        r = va * vb
    elif op in ("truncdiv", "floordiv"):
        if op == "floordiv" and (kind != "u" or "int" in (a.kind, b.kind)):
            return UNSPEC  # `//` is documented for Unsigned operands only
        w = wa
        r = None if vb == 0 else _trunc_div(va, vb)
    elif op == "mod":
        w = wb
        r = None if vb == 0 else va % vb  # sign of the divisor (VHDL mod == Python %)
    elif op == "rem":
        w = wb
        r = None if vb == 0 else va - vb * _trunc_div(va, vb)  # sign of the dividend
    else:
        raise ValueError(op)
    if not ok or r is None:
        return V(kind, w, None)
    return V(kind, w, wrap(kind, w, r))


def _int_arith(op, x, y):
    if op == "add":
        return integer(x + y)
    if op == "sub":
        return integer(x - y)
    if op == "mul":
        return integer(x * y)
    if op in ("truncdiv", "mod", "rem"):
        if y == 0:
            return V("int", None, None)
        if op == "truncdiv":
            return integer(_trunc_div(x, y))
        if op == "mod":
            return integer(x % y)
        return integer(x - y * _trunc_div(x, y))
    return UNSPEC


def _shift(op, a: V, b: V):
    if a.kind not in NUM or b.kind not in ("int", "u"):
        return UNSPEC
    n = b.value
    if n < 0:
        return UNSPEC
    if n >= a.width:
        return V(a.kind, a.width, None)
    if op == "shl":
        return V(a.kind, a.width, wrap(a.kind, a.width, a.value << n))
    return V(a.kind, a.width, a.value >> n)  # Python >> on the signed value is arithmetic, on 'u' logical


def _concat(a: V, b: V):
    if a.kind not in ("bit",) + VEC or b.kind not in ("bit",) + VEC:
        return UNSPEC
    wb = nbits(b)
    return V("bv", nbits(a) + wb, (pattern(a) << wb) | pattern(b))


def _bitwise(op, a: V, b: V):
    if a.kind == "int" and b.kind == "int":
        return integer({"and": a.value & b.value, "or": a.value | b.value, "xor": a.value ^ b.value}[op])
    if a.kind != b.kind or a.kind not in ("bit",) + VEC or a.width != b.width:
        return UNSPEC  # cohdl documents these for operands of one and the same type only
    pa, pb = pattern(a), pattern(b)
    r = {"and": pa & pb, "or": pa | pb, "xor": pa ^ pb}[op]
    if a.kind == "bit":
        return bit(r)
    return from_pattern(a.kind, a.width, r)


def _compare(op, a: V, b: V):
    if a.kind == "int" and b.kind == "int":
        x, y, ok = a.value, b.value, True
    elif a.kind == "bit" and b.kind == "bit" or (a.kind == "bv" and b.kind == "bv" and a.width == b.width):
        if op not in ("eq", "ne"):
            return UNSPEC
        x, y, ok = pattern(a), pattern(b), True
    else:
        p = _num_pair(a, b)
        if p is None:
            return UNSPEC
        _, _, _, x, y, ok = p
    if not ok:
        return V("bool", None, None)
    r = {"eq": x == y, "ne": x != y, "lt": x < y, "le": x <= y, "gt": x > y, "ge": x >= y}[op]
    return boolean(r)


# ----------------------------------------------------------------------------- unary / methods
def _unary(op, a: V, params):
    k = a.kind
    if op == "inv":
        if k == "bit":
            return bit(1 - a.value)
        if k in VEC:
            return from_pattern(k, a.width, ~pattern(a))
        if k == "int":
            return UNSPEC
    if op == "neg":
        if k in NUM:
            return V(k, a.width, wrap(k, a.width, -a.value))
        if k == "int":
            return integer(-a.value)
        return UNSPEC
    if op == "abs":
        if k == "s":
            return V("s", a.width, wrap("s", a.width, abs(a.value)))
        return UNSPEC
    if op in ("signed", "unsigned", "bitvector"):
        if k not in VEC:
            return UNSPEC
        return from_pattern({"signed": "s", "unsigned": "u", "bitvector": "bv"}[op], a.width, pattern(a))
    if op == "resize":
        if k not in NUM:
            return UNSPEC
        to, zeros = params["to"], params.get("zeros", 0)
        if to is None:
            to = a.width + zeros
        if zeros < 0 or a.width + zeros > to:
            return UNSPEC  # narrowing is not documented (cohdl asserts)
        return V(k, to, a.value << zeros)
    if op in ("msb", "lsb", "left", "right"):
        if k not in VEC:
            return UNSPEC
        top = op in ("msb", "left")  # DOWNTO vectors only: left == msb
        n, rest = params.get("n"), params.get("rest")
        if n is None and rest is None:
            return bit(pattern(a) >> (a.width - 1) if top else pattern(a) & 1)
        if rest is not None:
            n = a.width - rest
        if not 1 <= n <= a.width:
            return UNSPEC
        p = pattern(a) >> (a.width - n) if top else pattern(a) & ((1 << n) - 1)
        return V("bv", n, p)
    if op == "index":
        i = params["i"]
        if k not in VEC or not 0 <= i < a.width:
            return UNSPEC
        return bit((pattern(a) >> i) & 1)
    if op == "slice":
        h, l = params["h"], params["l"]
        if k not in VEC or not 0 <= l <= h < a.width:
            return UNSPEC
        return V("bv", h - l + 1, (pattern(a) >> l) & ((1 << (h - l + 1)) - 1))
    if op == "to_int":
        if k in NUM or k == "int":
            return integer(a.value)
        return UNSPEC
    if op == "bool":
        if k in ("bit",) + VEC:
            return boolean(pattern(a) != 0)
        if k == "int":
            return boolean(a.value != 0)
        return UNSPEC
    raise ValueError(op)


BINARY = ("add", "sub", "mul", "truncdiv", "floordiv", "mod", "rem", "shl", "shr", "concat", "and", "or", "xor",
          "eq", "ne", "lt", "le", "gt", "ge")
UNARY = ("inv", "neg", "abs", "signed", "unsigned", "bitvector", "resize", "msb", "lsb", "left", "right", "index",
         "slice", "to_int", "bool")


def apply(op: str, args, params=None):
    """result of `op` on the operand values `args` (list of V) -> V | UNSPEC."""
    params = params or {}
    if op in ("add", "sub", "mul", "truncdiv", "floordiv", "mod", "rem"):
        return _arith(op, *args)
    if op in ("shl", "shr"):
        return _shift(op, *args)
    if op == "concat":
        return _concat(*args)
    if op in ("and", "or", "xor"):
        return _bitwise(op, *args)
    if op in ("eq", "ne", "lt", "le", "gt", "ge"):
        return _compare(op, *args)
    if op in UNARY:
        return _unary(op, args[0], params)
    raise ValueError(op)


def make(kind, width, value):
    if kind == "bit":
        return bit(value)
    if kind == "bool":
        return boolean(value)
    if kind == "int":
        return integer(value)
    return vec(kind, width, value)


# ----------------------------------------------------------------------------- self test
def selfcheck():
    u, s, i = (lambda w, v: vec("u", w, v)), (lambda w, v: vec("s", w, v)), integer
    assert apply("add", [u(4, 3), u(3, 5)]) == V("u", 4, 8)
    assert apply("add", [u(4, 15), u(3, 5)]) == V("u", 4, 4)
    assert apply("sub", [u(4, 5), u(2, 1)]) == V("u", 4, 4)
    assert apply("sub", [u(2, 1), u(4, 5)]) == V("u", 4, 12)
    assert apply("sub", [i(3), u(4, 5)]) == V("u", 4, 14)
    assert apply("mul", [i(3), u(4, 2)]) == V("u", 8, 6)
    assert apply("mul", [s(2, -2), s(3, -4)]) == V("s", 5, 8)
    assert apply("add", [s(2, -2), s(4, 7)]) == V("s", 4, 5)
    assert apply("add", [s(4, 7), i(1)]) == V("s", 4, -8)
    assert apply("add", [s(4, 7), i(8)]) == V("s", 4, None)
    assert apply("truncdiv", [s(4, -7), s(3, 2)]) == V("s", 4, -3)
    assert apply("truncdiv", [s(4, -8), s(3, -1)]) == V("s", 4, -8)
    assert apply("mod", [s(4, -7), s(3, 2)]) == V("s", 3, 1)
    assert apply("rem", [s(4, -7), s(3, 2)]) == V("s", 3, -1)
    assert apply("mod", [u(4, 7), u(2, 0)]) == V("u", 2, None)
    assert apply("shr", [s(4, -8), i(1)]) == V("s", 4, -4)
    assert apply("shr", [u(4, 8), i(1)]) == V("u", 4, 4)
    assert apply("shl", [s(4, 5), i(1)]) == V("s", 4, -6)
    assert apply("shl", [u(4, 5), i(4)]) == V("u", 4, None)
    assert apply("concat", [u(2, 2), s(2, -1)]) == V("bv", 4, 0b1011)
    assert apply("concat", [bit(1), vec("bv", 2, 1)]) == V("bv", 3, 0b101)
    assert apply("lt", [s(2, -1), s(4, 3)]) == boolean(True)
    assert apply("eq", [u(2, 3), i(3)]) == boolean(True)
    assert apply("eq", [u(2, 3), i(7)]) == V("bool", None, None)
    assert apply("add", [u(2, 3), s(2, 1)]) is UNSPEC
    assert apply("neg", [u(3, 1)]) == V("u", 3, 7) and apply("neg", [s(3, -4)]) == V("s", 3, -4)
    assert apply("abs", [s(3, -4)]) == V("s", 3, -4) and apply("abs", [s(3, -3)]) == V("s", 3, 3)
    assert apply("signed", [u(3, 7)]) == V("s", 3, -1) and apply("unsigned", [s(3, -1)]) == V("u", 3, 7)
    assert apply("resize", [s(2, -1)], {"to": 4, "zeros": 1}) == V("s", 4, -2)
    assert apply("msb", [u(4, 0b1010)], {"n": 2}) == V("bv", 2, 0b10)
    assert apply("lsb", [u(4, 0b1010)], {"rest": 1}) == V("bv", 3, 0b010)
    assert apply("slice", [vec("bv", 4, 0b0110)], {"h": 2, "l": 1}) == V("bv", 2, 0b11)
    assert apply("inv", [s(3, 0)]) == V("s", 3, -1)
