"""C12 - plain-Python reference evaluation of a HierSpec (never imports cohdl).

Values are raw bit patterns (int in [0, 2**w)) or None (= not determined: a register that
has not been loaded yet, or anything computed from one).  None is propagated pessimistically;
the check only compares where the reference value is not None.

Semantics used (cohdl's documented value semantics, C02/C09 statements):
  + -            result width = max of the operand widths, operands zero (Unsigned) / sign (Signed)
                 extended first, result wraps; an int operand adopts the other operand's type
  & | ^ ~        bitwise, same type on both sides
  @              left operand most significant, BitVector[sum]
  x[h:l] x[i]    bit range / single bit;  .unsigned .signed .bitvector reinterpret the bits
  < <= > >= == !=   numeric for Unsigned/Signed (any widths), bit pattern equality for BitVector
  target <<= v   Unsigned/Signed targets zero/sign extend a narrower value
A connection behaves like the assignment in data-flow direction (in: formal <<= actual,
out: actual <<= formal).  A computed actual (x ^ y, x & y, x | y, x + const, x < y, x == y) of an input
formal is the value of that expression at every instant.
"""
from __future__ import annotations


class Narrowing(Exception):
    """a connection / assignment would have to drop bits: no reference value exists."""


def width(ty):
    return 1 if ty[0] == "bit" else ty[1]


def _mask(w):
    return (1 << w) - 1


def _num(kind, w, v):
    if kind == "s" and v >> (w - 1):
        return v - (1 << w)
    return v


def extend(src_ty, v, dst_ty):
    """value of `dst <<= src`"""
    if v is None:
        return None
    sw, dw = width(src_ty), width(dst_ty)
    if sw == dw:
        return v
    if sw > dw:
        raise Narrowing(f"{src_ty} -> {dst_ty}")
    if src_ty[0] == "s":
        return _num("s", sw, v) & _mask(dw)
    return v


def eval_expr(e, env, types):
    """-> (ty, value); ty ["bool"] for comparisons."""
    op = e[0]
    if op == "p":
        return types[e[1]], env[e[1]]
    if op == "lit":
        return e[1], e[2]
    if op == "sl":
        ty, v = eval_expr(e[1], env, types)
        hi, lo = e[2], e[3]
        return ["bv", hi - lo + 1], None if v is None else (v >> lo) & _mask(hi - lo + 1)
    if op == "ix":
        ty, v = eval_expr(e[1], env, types)
        return ["bit"], None if v is None else (v >> e[2]) & 1
    if op == "view":
        ty, v = eval_expr(e[2], env, types)
        return [e[1], width(ty)], v
    if op == "cat":
        t1, v1 = eval_expr(e[1], env, types)
        t2, v2 = eval_expr(e[2], env, types)
        w = width(t1) + width(t2)
        return ["bv", w], None if v1 is None or v2 is None else (v1 << width(t2)) | v2
    if op == "not":
        ty, v = eval_expr(e[1], env, types)
        return ty, None if v is None else (~v) & _mask(width(ty))
    if op in ("and", "or", "xor"):
        t1, v1 = eval_expr(e[1], env, types)
        t2, v2 = eval_expr(e[2], env, types)
        assert t1 == t2, (t1, t2)
        if v1 is None or v2 is None:
            return t1, None
        return t1, {"and": v1 & v2, "or": v1 | v2, "xor": v1 ^ v2}[op]
    if op in ("add", "sub"):
        t1, v1 = eval_expr(e[1], env, types)
        t2, v2 = eval_expr(e[2], env, types)
        assert t1[0] == t2[0] and t1[0] in ("u", "s")
        w = max(t1[1], t2[1])
        if v1 is None or v2 is None:
            return [t1[0], w], None
        a, b = _num(t1[0], t1[1], v1), _num(t2[0], t2[1], v2)
        return [t1[0], w], (a + b if op == "add" else a - b) & _mask(w)
    if op in ("addc", "subc"):
        t1, v1 = eval_expr(e[1], env, types)
        if v1 is None:
            return t1, None
        a = _num(t1[0], t1[1], v1)
        return t1, (a + e[2] if op == "addc" else a - e[2]) & _mask(t1[1])
    if op in ("lt", "le", "gt", "ge", "eq", "ne"):
        t1, v1 = eval_expr(e[1], env, types)
        t2, v2 = eval_expr(e[2], env, types)
        if v1 is None or v2 is None:
            return ["bool"], None
        if t1[0] in ("u", "s"):
            assert t1[0] == t2[0]
            a, b = _num(t1[0], t1[1], v1), _num(t2[0], t2[1], v2)
        else:
            assert t1 == t2
            a, b = v1, v2
        r = {"lt": a < b, "le": a <= b, "gt": a > b, "ge": a >= b, "eq": a == b, "ne": a != b}[op]
        return ["bool"], int(r)
    raise AssertionError(op)


def read_actual(act, vals, types, partial=None):
    """-> (ty, value) of an actual expression over the node's objects."""
    ty = types[act["root"]]
    v = vals.get(act["root"])
    sl = act.get("sl")
    if v is None and sl is not None and partial and act["root"] in partial:
        # the object is driven slice by slice: the requested bits may be known already
        p = partial[act["root"]]
        hi, lo = (sl[0], sl[0]) if len(sl) == 1 else sl
        m = _mask(hi - lo + 1) << lo
        if p.known & m == m and not p.undef & m:
            v = p.bits
    if sl is not None:
        if len(sl) == 1:
            ty, v = ["bit"], None if v is None else (v >> sl[0]) & 1
        else:
            w = sl[0] - sl[1] + 1
            ty, v = ["bv", w], None if v is None else (v >> sl[1]) & _mask(w)
    if act.get("view"):
        ty = [act["view"], width(ty)]
    op = act.get("op")
    if op:
        ty, v = _apply_op(op, ty, v, vals, types, partial)
        psl = act.get("psl")
        if psl is not None:
            if len(psl) == 1:
                ty, v = ["bit"], None if v is None else (v >> psl[0]) & 1
            else:
                w = psl[0] - psl[1] + 1
                ty, v = ["bv", w], None if v is None else (v >> psl[1]) & _mask(w)
        if act.get("pview"):
            ty = [act["pview"], width(ty)]
    return ty, v


def _apply_op(op, ty, v, vals, types, partial):
    if op[0] == "addc":
        if v is not None:
            v = (_num(ty[0], ty[1], v) + op[1]) & _mask(ty[1])
        return ty, v
    ty2, v2 = read_actual(op[1], vals, types, partial)
    if op[0] in ("lt", "eq"):
        if v is None or v2 is None:
            return ["bit"], None
        a, b = _num(ty[0], width(ty), v), _num(ty2[0], width(ty2), v2)
        return ["bit"], int(a < b if op[0] == "lt" else a == b)
    assert ty == ty2, (ty, ty2)
    if v is None or v2 is None:
        return ty, None
    return ty, {"xor": v ^ v2, "and": v & v2, "or": v | v2}[op[0]]


class _Partial:
    """value of an object that is driven slice by slice."""
    __slots__ = ("w", "bits", "known", "undef")

    def __init__(self, w):
        self.w, self.bits, self.known, self.undef = w, 0, 0, 0   # masks


def write_actual(act, src_ty, v, vals, types, partial):
    """`actual <<= value of type src_ty`"""
    root = act["root"]
    rty = types[root]
    sl = act.get("sl")
    if sl is None:
        dty = [act["view"], width(rty)] if act.get("view") else rty
        vals[root] = extend(src_ty, v, dty)
        return
    if len(sl) == 1:
        hi = lo = sl[0]
        dty = ["bit"]
    else:
        hi, lo = sl
        dty = [act["view"] or "bv", hi - lo + 1]
    v = extend(src_ty, v, dty)
    p = partial.setdefault(root, _Partial(width(rty)))
    m = _mask(hi - lo + 1) << lo
    p.known |= m
    if v is None:
        p.undef |= m
    else:
        p.bits = (p.bits & ~m) | (v << lo)
    if p.known == _mask(p.w):
        vals[root] = None if p.undef else p.bits


class Ref:
    def __init__(self, spec):
        self.spec = spec
        self.T = spec["templates"]
        self.state = {}     # instance path -> {out port: value}
        self._next = {}
        self.partial_out = {}
        top = self.T[spec["top"]]
        self.inputs = [p for p in top["ports"] if p["dir"] == "in" and p["name"] != "clk"]
        self.outputs = [p for p in top["ports"] if p["dir"] == "out"]
        self.clocked = any(p["name"] == "clk" for p in top["ports"])

    # -- one template instance
    def _eval(self, tidx, path, ins):
        t = self.T[tidx]
        types = {p["name"]: p["ty"] for p in t["ports"]}
        if t["kind"] == "leaf":
            env = dict(ins)
            res = {}
            for oname, e in t["assigns"]:
                ty, v = eval_expr(e, env, types)
                oty = types[oname]
                if ty == ["bool"]:
                    ty = ["bit"]
                res[oname] = extend(ty, v, oty)
            if t["seq"]:
                self._next[path] = res
                cur = self.state.get(path)
                # before the first clock edge a registered output shows the default of its port (if it has one)
                dflt = {p["name"]: p.get("default") for p in t["ports"]}
                return dict(cur) if cur else {o: dflt[o] for o in res}
            return res
        for s in t["signals"]:
            types[s["name"]] = s["ty"]
        vals = dict(ins)
        partial = {}
        # parent-owned registers: power-up value = default; `if en: r <<= src` on the clock, default on reset
        for r in t.get("regs") or []:
            dflt = next(s["default"] for s in t["signals"] if s["name"] == r["name"])
            key = path + ("reg", r["name"])
            cur = self.state.get(key, {"v": dflt})["v"]
            vals[r["name"]] = cur
            _, src = read_actual(r["src"], vals, types)
            en = 1 if r["en"] is None else read_actual(r["en"], vals, types)[1]
            rst = vals.get("rst") if r["rst"] else 0
            if rst is None or (rst == 0 and en is None):
                nxt = None
            elif rst:
                nxt = dflt
            else:
                nxt = src if en else cur
            self._next[key] = {"v": nxt}
        for k, inst in enumerate(t["insts"]):
            child = self.T[inst["t"]]
            cin = {}
            for p in child["ports"]:
                if p["dir"] != "in" or p["name"] == "clk":
                    continue
                act = inst["conn"].get(p["name"]) or inst["pre"][p["name"]]
                aty, v = read_actual(act, vals, types, partial)
                cin[p["name"]] = extend(aty, v, p["ty"])
            cout = self._eval(inst["t"], path + (k,), cin)
            for p in child["ports"]:
                if p["dir"] != "out":
                    continue
                act = inst["conn"].get(p["name"]) or inst["post"][p["name"]]
                write_actual(act, p["ty"], cout[p["name"]], vals, types, partial)
        for dst, src in t["glue"]:
            sty, v = read_actual(src, vals, types, partial)
            write_actual(dst, sty, v, vals, types, partial)
        if path == ():
            # partially driven outputs of the top entity: (bits, mask of the bits with a reference value)
            self.partial_out = {n: (p.bits, p.known & ~p.undef) for n, p in partial.items()
                                if p.known != _mask(p.w)}
        return {p["name"]: vals.get(p["name"]) for p in t["ports"] if p["dir"] == "out"}

    def outputs_for(self, ins):
        self._next = {}
        return self._eval(self.spec["top"], (), ins)

    def clock(self, ins):
        """inputs applied, rising edge, outputs after the edge."""
        self.outputs_for(ins)
        self.state.update(self._next)
        return self.outputs_for(ins)


def narrowing_connections(spec):
    """list of (template name, formal, dir) whose data-flow assignment would drop bits."""
    res = []
    T = spec["templates"]
    reach, todo = set(), [spec["top"]]
    while todo:
        i = todo.pop()
        if i not in reach:
            reach.add(i)
            todo += [inst["t"] for inst in T[i].get("insts", [])]
    for ti, t in enumerate(T):
        if t["kind"] != "node" or ti not in reach:
            continue
        types = {p["name"]: p["ty"] for p in t["ports"]}
        types.update({s["name"]: s["ty"] for s in t["signals"]})
        for inst in t["insts"]:
            child = T[inst["t"]]
            for p in child["ports"]:
                act = inst["conn"].get(p["name"]) or inst["pre"].get(p["name"]) or inst["post"].get(p["name"])
                aty, _ = read_actual(act, {}, types)
                if p["dir"] == "in" and width(aty) > width(p["ty"]):
                    res.append((t["name"], p["name"], "in"))
                if p["dir"] == "out" and width(aty) < width(p["ty"]):
                    res.append((t["name"], p["name"], "out"))
    return res


def unpack_stimulus(inputs, word):
    """split one stimulus integer into the input ports (declaration order, LSB first)."""
    res = {}
    for p in inputs:
        w = width(p["ty"])
        res[p["name"]] = word & _mask(w)
        word >>= w
    return res
