"""Reference bit layout of cohdl's serialisable types (property C17).

Pure Python on ints / lists; must not import cohdl.

TypeSpec (JSON-able dict, key "k"):

    {"k":"bit"} {"k":"bool"}
    {"k":"bv"|"u"|"s", "w":n}                       BitVector / Unsigned / Signed[n]
    {"k":"carr"|"sarr", "e":spec, "n":n}             cohdl.Array / std.Array
    {"k":"rec", "base":[[name,spec]..], "fields":[[name,spec]..], "tmpl":...}
                                                     std.Record, inherited fields first
    {"k":"enum"|"flag", "u":spec, "members":[ints]}  std.Enum / std.FlagEnum over `u`
    {"k":"sfix"|"ufix", "l":l, "r":r}                std.SFixed/UFixed[l:r], width l-r+1
    {"k":"ser", "e":spec}                            std.Serialized[e] (bits of e)
    {"k":"bf", "w":W, "fields":[...]}                std.BitField[W] (a W bit vector)

Documented layout (property C17 statement): the first record field and array element 0
occupy the least significant bits; every following field / element is placed directly
above its predecessor.  Vectors serialise as themselves, Bit/bool as one bit, an
enumeration as its underlying value, a fixed point number as its raw two's-complement /
unsigned bits.

Value trees: leaves are *raw unsigned ints* (bit/bool: 0/1; bv/u/s/sfix/ufix/bf: the
bits read as an unsigned number); arrays are lists; records are lists in field order
(base fields first); enum/flag/ser carry the value tree of their inner type.
"""
from __future__ import annotations

LEAF_KINDS = ("bit", "bool", "bv", "u", "s", "sfix", "ufix", "bf")


def rec_fields(spec):
    """[(name, spec)] of a record, inherited fields first."""
    return [tuple(f) for f in (spec.get("base") or [])] + [tuple(f) for f in spec["fields"]]


def width(spec) -> int:
    k = spec["k"]
    if k in ("bit", "bool"):
        return 1
    if k in ("bv", "u", "s"):
        return spec["w"]
    if k in ("sfix", "ufix"):
        return spec["l"] - spec["r"] + 1
    if k == "bf":
        return spec["w"]
    if k in ("carr", "sarr"):
        return spec["n"] * width(spec["e"])
    if k == "rec":
        return sum(width(s) for _, s in rec_fields(spec))
    if k in ("enum", "flag"):
        return width(spec["u"])
    if k == "ser":
        return width(spec["e"])
    raise ValueError(f"unknown kind {k}")


def unpack(spec, bits: int):
    """bit pattern (unsigned int of width(spec) bits) -> value tree"""
    k = spec["k"]
    w = width(spec)
    bits &= (1 << w) - 1
    if k in LEAF_KINDS:
        return bits
    if k in ("carr", "sarr"):
        ew = width(spec["e"])
        return [unpack(spec["e"], (bits >> (ew * i)) & ((1 << ew) - 1)) for i in range(spec["n"])]
    if k == "rec":
        out = []
        off = 0
        for _, s in rec_fields(spec):
            fw = width(s)
            out.append(unpack(s, (bits >> off) & ((1 << fw) - 1)))
            off += fw
        return out
    if k in ("enum", "flag"):
        return unpack(spec["u"], bits)
    if k == "ser":
        return unpack(spec["e"], bits)
    raise ValueError(k)


def pack(spec, value) -> int:
    """value tree -> bit pattern"""
    k = spec["k"]
    if k in LEAF_KINDS:
        assert 0 <= value < (1 << width(spec)), (spec, value)
        return value
    if k in ("carr", "sarr"):
        ew = width(spec["e"])
        assert len(value) == spec["n"]
        r = 0
        for i, v in enumerate(value):
            r |= pack(spec["e"], v) << (ew * i)
        return r
    if k == "rec":
        r = 0
        off = 0
        fs = rec_fields(spec)
        assert len(value) == len(fs)
        for (_, s), v in zip(fs, value):
            r |= pack(s, v) << off
            off += width(s)
        return r
    if k in ("enum", "flag"):
        return pack(spec["u"], value)
    if k == "ser":
        return pack(spec["e"], value)
    raise ValueError(k)


def leaf_table(spec, path=(), off=0):
    """flat list of (path, leaf spec, offset of its lsb, width); path = tuple of
    (kind, index-or-name) steps from the root."""
    k = spec["k"]
    if k in LEAF_KINDS:
        return [(path, spec, off, width(spec))]
    out = []
    if k in ("carr", "sarr"):
        ew = width(spec["e"])
        for i in range(spec["n"]):
            out += leaf_table(spec["e"], path + ((k, i),), off + ew * i)
        return out
    if k == "rec":
        o = off
        for name, s in rec_fields(spec):
            out += leaf_table(s, path + (("rec", name),), o)
            o += width(s)
        return out
    if k in ("enum", "flag"):
        return leaf_table(spec["u"], path + ((k, "raw"),), off)
    if k == "ser":
        return leaf_table(spec["e"], path + (("ser", "value"),), off)
    raise ValueError(k)


def flat_leaves(spec, value):
    """value tree -> list of leaf ints in leaf_table order"""
    k = spec["k"]
    if k in LEAF_KINDS:
        return [value]
    if k in ("carr", "sarr"):
        return [x for v in value for x in flat_leaves(spec["e"], v)]
    if k == "rec":
        return [x for (_, s), v in zip(rec_fields(spec), value) for x in flat_leaves(s, v)]
    if k in ("enum", "flag"):
        return flat_leaves(spec["u"], value)
    if k == "ser":
        return flat_leaves(spec["e"], value)
    raise ValueError(k)


def unflatten(spec, flat):
    """inverse of flat_leaves: list of leaf ints (leaf_table order) -> value tree"""
    it = iter(flat)

    def build(s):
        k = s["k"]
        if k in LEAF_KINDS:
            return next(it)
        if k in ("carr", "sarr"):
            return [build(s["e"]) for _ in range(s["n"])]
        if k == "rec":
            return [build(f) for _, f in rec_fields(s)]
        if k in ("enum", "flag"):
            return build(s["u"])
        if k == "ser":
            return build(s["e"])
        raise ValueError(k)

    return build(spec)


def blame(spec, expected: int, got: int):
    """composite kinds on the path to the lowest differing bit ('' if equal / outside)"""
    diff = expected ^ got
    if diff == 0:
        return ""
    pos = (diff & -diff).bit_length() - 1
    for path, leaf, off, w in leaf_table(spec):
        if off <= pos < off + w:
            kinds = []
            for kind, _ in path:
                if not kinds or kinds[-1] != kind:
                    kinds.append(kind)
            return "/".join(kinds + [leaf["k"]])
    return "outside"


def depth(spec) -> int:
    k = spec["k"]
    if k in LEAF_KINDS:
        return 0
    if k in ("carr", "sarr", "ser"):
        return 1 + depth(spec["e"])
    if k == "rec":
        return 1 + max(depth(s) for _, s in rec_fields(spec))
    if k in ("enum", "flag"):
        return 1 + depth(spec["u"])
    raise ValueError(k)


def kinds(spec, acc=None):
    acc = set() if acc is None else acc
    k = spec["k"]
    acc.add(k)
    if k in ("carr", "sarr", "ser"):
        kinds(spec["e"], acc)
    elif k == "rec":
        if spec.get("base"):
            acc.add("rec_inherited")
        if spec.get("tmpl"):
            acc.add("rec_tmpl_" + spec["tmpl"]["kind"])
        for _, s in rec_fields(spec):
            kinds(s, acc)
    elif k in ("enum", "flag"):
        kinds(spec["u"], acc)
    return acc


def uneven(spec) -> bool:
    """some record / array in the tree has members of differing widths, or an array of a
    record whose fields differ in width (the compositions C17 is about)."""
    k = spec["k"]
    if k in LEAF_KINDS:
        return False
    if k == "rec":
        ws = {width(s) for _, s in rec_fields(spec)}
        return len(ws) > 1 or any(uneven(s) for _, s in rec_fields(spec))
    if k in ("carr", "sarr", "ser"):
        return uneven(spec["e"])
    if k in ("enum", "flag"):
        return uneven(spec["u"])
    return False


# --------------------------------------------------------------------------- BitField
def bf_leaves(spec, base=0, prefix=()):
    """flat list of (path names, kind 'bit'|'bv'|'u'|'s', absolute hi, absolute lo) of a
    BitField spec; sub-bitfields are placed at their declared offset."""
    out = []
    for f in spec["fields"]:
        t = f["t"]
        if t == "bit":
            out.append((prefix + (f["n"],), "bit", base + f["o"], base + f["o"]))
        elif t in ("bv", "u", "s"):
            out.append((prefix + (f["n"],), t, base + f["hi"], base + f["lo"]))
        elif t == "sub":
            out += bf_leaves(f["bf"], base + f["o"], prefix + (f["n"],))
        else:
            raise ValueError(t)
    return out


def bf_subs(spec, base=0, prefix=()):
    """(path, absolute hi, absolute lo) of every sub-bitfield"""
    out = []
    for f in spec["fields"]:
        if f["t"] == "sub":
            lo = base + f["o"]
            out.append((prefix + (f["n"],), lo + f["bf"]["w"] - 1, lo))
            out += bf_subs(f["bf"], lo, prefix + (f["n"],))
    return out


def field_read(bits: int, hi: int, lo: int) -> int:
    return (bits >> lo) & ((1 << (hi - lo + 1)) - 1)


def field_write(bits: int, hi: int, lo: int, val: int) -> int:
    m = ((1 << (hi - lo + 1)) - 1) << lo
    return (bits & ~m) | ((val << lo) & m)


def selfcheck():
    s = {"k": "rec", "base": [["a", {"k": "bit"}]], "fields": [
        ["b", {"k": "u", "w": 3}],
        ["c", {"k": "sarr", "n": 2, "e": {"k": "rec", "base": [], "fields": [["x", {"k": "bv", "w": 2}], ["y", {"k": "bool"}]]}}]]}
    assert width(s) == 10
    # a = bit 0, b = bits 3:1, c[0].x = 5:4, c[0].y = 6, c[1].x = 8:7, c[1].y = 9
    v = unpack(s, 0b1_01_0_11_101_1)
    assert v == [1, 5, [[3, 0], [1, 1]]], v
    for b in range(1 << 10):
        assert pack(s, unpack(s, b)) == b
    offs = [(o, w) for _, _, o, w in leaf_table(s)]
    assert offs == [(0, 1), (1, 3), (4, 2), (6, 1), (7, 2), (9, 1)]
    assert blame(s, 0, 1 << 6) == "rec/sarr/rec/bool"
    assert unflatten(s, flat_leaves(s, v)) == v
    assert field_write(0b1111, 2, 1, 0) == 0b1001 and field_read(0b0110, 2, 1) == 3
