"""C20 - AXI4-Lite reference machinery (never imports cohdl):

  flatten(spec)      RegMapSpec -> leaf register instances (absolute byte offset, Python access path,
                     hardware ports)
  RegModel           byte-addressed register-map model (write = strobed bytes of the addressed register,
                     fields per access kind; read = current value)
  Runner             AXI4-Lite master driver + per-clock channel protocol monitor + comparison with the
                     model, driving a cv.vhdl Sim clock by clock

RegMapSpec (JSON)
  {"addr_width": n, "active_high_reset": bool, "entry": "base"|"map", "word_count": n|None,
   "classes": [{"name", "fields": [{"name","kind","hi","lo","bit","default"}], "notify": [{"name","kind","on"}]}],
   "items": [Item]}
  Item = {"name","off", "what": "word"|"uword"|"memword"|"memuword"|"reg"|"input"|"output"|"array"|"file", ...}
     word/uword      "default": int, "hw": bool            (hw: raw driven from an input port)
     memword/memuword "default": int
     reg             "cls": index
     input/output    "w": signal width, "offset": bit offset inside the word
     array           "elem": leaf Item template (word kinds or reg), "n", "step"
     file            "word_count", "items": [leaf Items or files (nesting), offsets relative to the file]
     mem             "words": n, "initial": 0 | 0xFFFFFFFF | None, "mode": "immediate"|"ignore"|"readback"|"split",
                     "unaligned": bool (split only), "inline": bool   (reg32.Memory[off : off+4n]; one multi-word
                     object, flattened into n "memcell" instances; None = no initial value: unknown until written)
  field kinds: "field" "ufield" (no storage: hardware driven or constant default), "memfield" "memufield"
  (written values are stored), "flag" (FlagField: set by writing '1', cleared by hardware);
  notify kinds: "push" (PushOnNotify) | "flag" (FlagOnNotify), on "r" | "w".

Semantics asserted (property statement + docstrings of cohdl/std/reg/reg.pyi):
  * a write updates exactly the strobed bytes of exactly the addressed register; Word/UWord and plain
    Fields ignore bus writes ("bus write accesses to a Word have no effect"), MemWord/MemField store,
    FlagField is set by a written '1' and never cleared by the bus, Input is read-only, Output write-only;
  * a read returns the current value (fields at their bit positions, unused bits 0);
  * the low address bits inside a word are ignored ("all reads and writes are word aligned");
  * unmapped accesses change nothing; their read data and every RESP value are not asserted;
  * reading a write-only / writing a read-only register is treated like an unmapped access.
"""
from __future__ import annotations

M32 = 0xFFFFFFFF


# ============================================================================== flatten
def _leaf_ports(inst, classes):
    """hardware ports of one leaf instance: [(port name, 'in'|'out', type tuple, role)]"""
    k = inst["idx"]
    what = inst["what"]
    ports = []
    if what in ("word", "uword"):
        if inst.get("hw"):
            ports.append((f"hi{k}", "in", ("u" if what == "uword" else "bv", 32), ("raw",)))
    elif what in ("memword", "memuword"):
        ports.append((f"ho{k}", "out", ("u" if what == "memuword" else "bv", 32), ("raw",)))
    elif what == "input":
        ports.append((f"hi{k}", "in", ("bv", inst["w"]), ("sig",)))
    elif what == "output":
        ports.append((f"ho{k}", "out", ("bv", inst["w"]), ("sig",)))
    elif what == "reg":
        cls = classes[inst["cls"]]
        for f in cls["fields"]:
            w = f["hi"] - f["lo"] + 1
            ty = ("bit", 1) if f.get("bit") else (("u" if f["kind"] in ("ufield", "memufield") else "bv"), w)
            if f["kind"] in ("field", "ufield"):
                if f.get("hw"):
                    ports.append((f"hi{k}_{f['name']}", "in", ty, ("field", f["name"])))
            elif f["kind"] in ("memfield", "memufield"):
                ports.append((f"ho{k}_{f['name']}", "out", ty, ("field", f["name"])))
            elif f["kind"] == "flag":
                ports.append((f"ho{k}_{f['name']}", "out", ("bit", 1), ("flag", f["name"])))
                ports.append((f"hc{k}_{f['name']}", "in", ("bit", 1), ("flagclr", f["name"])))
        for n in cls["notify"]:
            ports.append((f"ho{k}_{n['name']}", "out", ("bit", 1), ("notify", n["name"])))
            if n["kind"] == "flag":
                ports.append((f"hc{k}_{n['name']}", "in", ("bit", 1), ("notifyclr", n["name"])))
    return ports


def flatten(spec):
    """-> list of leaf instances {idx, what, off (absolute), path (from the AddrMap `self`), ...item keys, ports}"""
    out = []

    def leaf(item, off, path):
        inst = dict(item)
        inst["off"] = off
        inst["path"] = path
        inst["idx"] = len(out)
        out.append(inst)

    def walk_file(f, base, path):
        # nested RegFiles (any depth): member offsets are relative to the enclosing file
        for m in f["items"]:
            if m["what"] == "file":
                walk_file(m, base + m["off"], f"{path}.{m['name']}")
            else:
                leaf(m, base + m["off"], f"{path}.{m['name']}")

    for it in spec["items"]:
        if it["what"] == "array":
            for i in range(it["n"]):
                leaf(it["elem"], it["off"] + i * it["step"], f"self.{it['name']}[{i}]")
        elif it["what"] == "file":
            walk_file(it, it["off"], f"self.{it['name']}")
        elif it["what"] == "mem":
            for i in range(it["words"]):
                leaf({"name": it["name"], "what": "memcell", "initial": it.get("initial"), "mem_off": it["off"],
                      "mem_words": it["words"], "mode": it.get("mode", "immediate"),
                      "unaligned": bool(it.get("unaligned"))}, it["off"] + 4 * i, None)
        else:
            leaf(it, it["off"], f"self.{it['name']}")
    hw = spec["entry"] == "base"
    for inst in out:
        inst["ports"] = _leaf_ports(inst, spec["classes"]) if hw else []
    return out


def strobe_mask(strb):
    m = 0
    for b in range(4):
        if (strb >> b) & 1:
            m |= 0xFF << (8 * b)
    return m


# ============================================================================== register model
class RegModel:
    """state: per leaf instance a dict; hardware inputs: {port: value}"""

    def __init__(self, spec):
        self.spec = spec
        self.classes = spec["classes"]
        self.insts = flatten(spec)
        self.hw_in = {}
        self.state = [self._reset_state(i) for i in self.insts]
        for inst in self.insts:
            for name, d, ty, role in inst["ports"]:
                if d == "in":
                    self.hw_in[name] = 0

    # -- state of one instance: {"stored": int, "known": mask (output only), "notif": {name: 0|1}}
    def _reset_state(self, inst):
        what = inst["what"]
        st = {"stored": 0, "known": M32, "notif": {}}
        if what in ("memword", "memuword", "word", "uword"):
            st["stored"] = inst.get("default") or 0
        elif what == "output":
            st["known"] = 0
        elif what == "memcell":
            if inst.get("initial") is None:
                st["known"] = 0
            else:
                st["stored"] = inst["initial"]
        elif what == "reg":
            v = 0
            for f in self.classes[inst["cls"]]["fields"]:
                if f["kind"] in ("memfield", "memufield"):
                    v |= (f.get("default") or 0) << f["lo"]
            st["stored"] = v
            st["notif"] = {n["name"]: 0 for n in self.classes[inst["cls"]]["notify"] if n["kind"] == "flag"}
        return st

    def lookup(self, addr):
        for inst in self.insts:
            if inst["off"] <= addr < inst["off"] + 4:
                return inst
        return None

    def readable(self, inst):
        return inst is not None and inst["what"] != "output"

    def writable(self, inst):
        return inst is not None and inst["what"] != "input"

    def field_mask(self, inst, kinds):
        m = 0
        for f in self.classes[inst["cls"]]["fields"]:
            if f["kind"] in kinds:
                m |= ((1 << (f["hi"] - f["lo"] + 1)) - 1) << f["lo"]
        return m

    def read_value(self, inst, st=None):
        """current value seen by a bus read (None: not determined)"""
        st = st if st is not None else self.state[inst["idx"]]
        what = inst["what"]
        k = inst["idx"]
        if what in ("memword", "memuword"):
            return st["stored"]
        if what == "memcell":
            return st["stored"] if st["known"] == M32 else None
        if what in ("word", "uword"):
            return self.hw_in[f"hi{k}"] if inst.get("hw") else st["stored"]
        if what == "input":
            return (self.hw_in[f"hi{k}"] << inst["offset"]) & M32
        if what == "reg":
            v = 0
            for f in self.classes[inst["cls"]]["fields"]:
                w = f["hi"] - f["lo"] + 1
                if f["kind"] in ("memfield", "memufield", "flag"):
                    v |= st["stored"] & (((1 << w) - 1) << f["lo"])
                elif f.get("hw"):
                    v |= (self.hw_in[f"hi{k}_{f['name']}"] & ((1 << w) - 1)) << f["lo"]
                else:
                    v |= ((f.get("default") or 0) & ((1 << w) - 1)) << f["lo"]
            return v
        return None

    def written_state(self, inst, st, data, strb, ignore_strobe=False):
        """state after a bus write (pure)"""
        m = M32 if ignore_strobe else strobe_mask(strb)
        what = inst["what"]
        new = dict(st)
        if what in ("memword", "memuword"):
            new["stored"] = (st["stored"] & ~m | data & m) & M32
        elif what == "memcell":
            if inst.get("mode") == "ignore":
                m = M32      # MaskMode.IGNORE: "the mask parameter is ignored", the word is assigned as a whole
            new["stored"] = (st["stored"] & ~m | data & m) & M32
            new["known"] = st["known"] | m
        elif what == "output":
            sm = ((1 << inst["w"]) - 1) << inst["offset"]
            new["stored"] = (st["stored"] & ~(m & sm) | data & m & sm) & M32
            new["known"] = st["known"] | (m & sm)
        elif what == "reg":
            mem = self.field_mask(inst, ("memfield", "memufield"))
            flg = self.field_mask(inst, ("flag",))
            v = st["stored"]
            v = v & ~(m & mem) | data & m & mem
            v |= data & m & flg
            new["stored"] = v & M32
        return new

    def outputs(self, inst, st=None):
        """expected value of the hardware output ports of one instance: {port: int | None (not compared)}"""
        st = st if st is not None else self.state[inst["idx"]]
        res = {}
        for name, d, ty, role in inst["ports"]:
            if d != "out":
                continue
            if role[0] == "raw":
                res[name] = st["stored"]
            elif role[0] == "sig":
                sm = ((1 << inst["w"]) - 1) << inst["offset"]
                res[name] = (st["stored"] >> inst["offset"]) & ((1 << inst["w"]) - 1) if st["known"] & sm == sm else None
            elif role[0] in ("field", "flag"):
                f = next(f for f in self.classes[inst["cls"]]["fields"] if f["name"] == role[1])
                res[name] = (st["stored"] >> f["lo"]) & ((1 << (f["hi"] - f["lo"] + 1)) - 1)
            elif role[0] == "notify":
                res[name] = st["notif"].get(role[1])      # push: None (pulses are checked separately)
        return res


# ============================================================================== driver + monitor
SLAVE_OUT = ["axi_awready", "axi_wready", "axi_bvalid", "axi_bresp", "axi_arready", "axi_rvalid", "axi_rdata",
             "axi_rresp"]


class Finding(Exception):
    pass


class Runner:
    """Drives one schedule against a Sim; findings are collected in self.findings as (signature, text).

    Schedule = {"hw_init": {input port: value}, "steps": [Step]}
      {"op": "w", "addr", "data", "strb", "aw": d, "w": d, "b": d|-1, "gap": g, "start": "seq"|"par"|"early"}
      {"op": "r", "addr", "ar": d, "r": d|-1, "gap": g, "start": ...}
      {"op": "hw", "set": {input port: value}}      applied when the bus has been idle for QUIET clocks
      {"op": "pulse", "port": clear input}          one-clock pulse, same condition
    aw/w/ar: clocks between the start of the transaction and the assertion of the VALID; b/r: clocks between
    the first BVALID/RVALID and BREADY/RREADY (-1: READY is high from the start of the transaction).
    start: seq = after everything before has completed (+gap); par = together with a transaction of the
    other direction that is still in flight; early = as soon as all earlier requests have been accepted;
    pipe = at once (<= 2 writes, <= 2 reads in flight): each channel presents the next beat right after it has
    accepted the previous one, e.g. AW of write k+1 while W of write k is still outstanding.

    Besides the strict model a *shadow* state is kept in which every write ignores its byte strobes.  An
    observation that contradicts the strict model but equals the shadow is reported with cause
    "strobe_ignored" and the strict state is re-synchronised, so that the schedule can go on.
    """

    BOUND = 32        # clocks without any handshake while the master has everything asserted
    QUIET = 4         # idle clocks before the hardware side is compared exactly / changed

    def __init__(self, sim, spec, sched, max_clocks=240):
        self.sim, self.spec, self.sched = sim, spec, sched
        self.model = RegModel(spec)
        self.shadow = [dict(st) for st in self.model.state]
        self.max_clocks = max_clocks
        self.findings = []
        self.labels = set()
        self.counters = {"clocks": 0, "writes_done": 0, "reads_done": 0, "reads_compared": 0,
                         "hw_values_compared": 0, "partial_multi_field_writes": 0}
        self.inconclusive = False
        self.push_ports = {}    # port -> {"on", "highs": [cycles], "windows": [[start, end, txn]]}
        for inst in self.model.insts:
            if inst["what"] != "reg":
                continue
            for n in spec["classes"][inst["cls"]]["notify"]:
                if n["kind"] == "push" and inst["ports"]:
                    self.push_ports[f"ho{inst['idx']}_{n['name']}"] = {"on": n["on"], "highs": [], "windows": []}

    def add(self, sig, text):
        self.findings.append((sig, text))

    # ------------------------------------------------------------------ helpers
    def _bits(self, port):
        s = self.sim.get_str(port)
        if isinstance(s, str) and all(c in "01" for c in s):
            return int(s, 2)
        return None

    def reset(self):
        sim = self.sim
        act = 1 if self.spec["active_high_reset"] else 0
        ins = dict(axi_clk=0, axi_reset=act, axi_awaddr=0, axi_awprot=0, axi_awvalid=0, axi_wdata=0, axi_wstrb=0,
                   axi_wvalid=0, axi_bready=0, axi_araddr=0, axi_arprot=0, axi_arvalid=0, axi_rready=0)
        for name, v in self.sched.get("hw_init", {}).items():
            if name in self.model.hw_in:
                self.model.hw_in[name] = v
        ins.update(self.model.hw_in)
        sim.poke(**ins)
        sim.clock("axi_clk")
        sim.clock("axi_clk")
        sim.poke(axi_reset=1 - act)
        self.poked = dict(ins, axi_reset=1 - act)

    def run(self):
        try:
            self.reset()
            self._run()
        except Finding:
            pass
        return self

    # ------------------------------------------------------------------ main loop
    def _run(self):
        sim, model = self.sim, self.model
        pending = [dict(s) for s in self.sched["steps"]]
        if self.sched.get("sweep", True):
            # read every readable register back at the end (state that is not exposed on ports)
            for inst in model.insts:
                if model.readable(inst):
                    pending.append({"op": "r", "addr": inst["off"], "ar": 0, "r": -1, "gap": 0, "start": "seq",
                                    "sweep": True})
        writes, reads = [], []     # started, not completed (in order)
        last_event = 0             # last clock with bus or hardware activity
        hw_now = dict(model.hw_in)
        pulse_off = []
        prev = None                # (S, I) of the previous clock
        stall = 0
        done_at = None
        k = 0
        while k < self.max_clocks:
            delaying = False
            # ---- sequencer
            while pending:
                s = pending[0]
                idle = not writes and not reads
                if s["op"] in ("hw", "pulse"):
                    if not idle or k - last_event < self.QUIET:
                        break
                    pending.pop(0)
                    self._compare_hw_exact(k, "quiet")
                    if s["op"] == "hw":
                        for p, v in s["set"].items():
                            if p in model.hw_in:
                                model.hw_in[p] = v
                                hw_now[p] = v
                    elif s["port"] in model.hw_in:
                        hw_now[s["port"]] = 1
                        pulse_off.append(s["port"])
                        self._apply_clear(s["port"])
                    last_event = k + 1
                    break   # one hardware event per clock
                start = s.get("start", "seq")
                if start == "seq":
                    ok = idle
                elif start == "par":
                    ok = len(writes) + len(reads) <= 1 and not [t for t in writes + reads if t["op"] == s["op"]]
                elif start == "pipe":
                    # channel-wise pipelining: the next request is presented on a channel as soon as that channel
                    # has accepted the previous one, even if the previous request's other channel is outstanding
                    ok = len(writes) <= 1 and len(reads) <= 1
                else:
                    ok = len(writes) + len(reads) <= 2 and all(t.get("req_done") is not None for t in writes + reads)
                if not ok:
                    break
                left = s.get("gap_left", s.get("gap", 0))
                if left > 0:
                    s["gap_left"] = left - 1
                    delaying = True
                    break
                pending.pop(0)
                s["t0"] = k
                (writes if s["op"] == "w" else reads).append(s)
            # ---- master outputs for this clock
            I = dict(axi_awvalid=0, axi_wvalid=0, axi_bready=0, axi_arvalid=0, axi_rready=0)
            aw = next((t for t in writes if t.get("aw_done") is None), None)
            if aw is not None:
                if k >= aw["t0"] + aw["aw"]:
                    I.update(axi_awvalid=1, axi_awaddr=aw["addr"])
                else:
                    delaying = True
            w = next((t for t in writes if t.get("w_done") is None), None)
            if w is not None:
                if k >= w["t0"] + w["w"]:
                    I.update(axi_wvalid=1, axi_wdata=w["data"], axi_wstrb=w["strb"])
                else:
                    delaying = True
            bt = writes[0] if writes else None
            if bt is not None:
                if bt["b"] < 0 or (bt.get("bvalid_at") is not None and k >= bt["bvalid_at"] + bt["b"]):
                    I["axi_bready"] = 1
                elif bt.get("bvalid_at") is not None:
                    delaying = True
            ar = next((t for t in reads if t.get("ar_done") is None), None)
            if ar is not None:
                if k >= ar["t0"] + ar["ar"]:
                    I.update(axi_arvalid=1, axi_araddr=ar["addr"])
                else:
                    delaying = True
            rt = reads[0] if reads else None
            if rt is not None:
                if rt["r"] < 0 or (rt.get("rvalid_at") is not None and k >= rt["rvalid_at"] + rt["r"]):
                    I["axi_rready"] = 1
                elif rt.get("rvalid_at") is not None:
                    delaying = True
            want = dict(I)
            want.update(hw_now)
            changed = {p: v for p, v in want.items() if self.poked.get(p) != v}
            if changed:
                sim.poke(**changed)
                self.poked.update(changed)
            S = {p: self._bits(p) for p in SLAVE_OUT}
            self.counters["clocks"] += 1

            # ---- protocol monitor (slave-driven channels)
            for ch, valid, ready, payload in (("B", "axi_bvalid", "axi_bready", ["axi_bresp"]),
                                              ("R", "axi_rvalid", "axi_rready", ["axi_rdata", "axi_rresp"])):
                if S[valid] is None:
                    self.add({"kind": "protocol", "what": "valid_undefined", "ch": ch}, f"clock {k}: {valid} is not 0/1")
                    raise Finding()
                if prev is not None and prev[0][valid] == 1 and prev[1][ready] == 0:
                    if S[valid] != 1:
                        self.add({"kind": "protocol", "what": "valid_withdrawn", "ch": ch},
                                 f"clock {k}: {valid} de-asserted before {ready}")
                        raise Finding()
                    for p in payload:
                        if S[p] != prev[0][p]:
                            self.add({"kind": "protocol", "what": "payload_changed", "ch": ch, "sig": p},
                                     f"clock {k}: {p} changed from {prev[0][p]} to {S[p]} while {valid} waits for {ready}")
                            raise Finding()
            if S["axi_bvalid"] == 1:
                if not (writes and writes[0].get("req_done") is not None and writes[0]["req_done"] < k):
                    self.add({"kind": "protocol", "what": "response_without_request", "ch": "B"},
                             f"clock {k}: BVALID without a completely received write request")
                    raise Finding()
                writes[0].setdefault("bvalid_at", k)
            if S["axi_rvalid"] == 1:
                if not (reads and reads[0].get("ar_done") is not None and reads[0]["ar_done"] < k):
                    self.add({"kind": "protocol", "what": "response_without_request", "ch": "R"},
                             f"clock {k}: RVALID without an accepted read request")
                    raise Finding()
                reads[0].setdefault("rvalid_at", k)
            for p in ("axi_awready", "axi_wready", "axi_arready"):
                if S[p] is None:
                    self.add({"kind": "protocol", "what": "ready_undefined", "sig": p}, f"clock {k}: {p} is not 0/1")
                    raise Finding()

            # ---- values a pending read may legitimately return (from acceptance to the first RVALID)
            for t in reads:
                if t.get("ar_done") is not None and t.get("rvalid_at") in (None, k):
                    self._note_possible(t, writes)

            # ---- hardware outputs (continuous part) and push notifications
            self._compare_hw_running(k, writes)
            for port, info in self.push_ports.items():
                if self._bits(port) == 1:
                    info["highs"].append(k)

            # ---- handshakes at this edge
            busy = bool(writes or reads)
            shake = False
            if aw is not None and I["axi_awvalid"] and S["axi_awready"] == 1:
                aw["aw_done"] = k
                shake = True
            if w is not None and I["axi_wvalid"] and S["axi_wready"] == 1:
                w["w_done"] = k
                shake = True
            for t in writes:
                if t.get("aw_done") is not None and t.get("w_done") is not None and t.get("req_done") is None:
                    t["req_done"] = k
                    self._write_received(t, k)
            if ar is not None and I["axi_arvalid"] and S["axi_arready"] == 1:
                ar["ar_done"] = ar["req_done"] = k
                ar["allowed"], ar["allowed_alt"] = set(), set()
                self._read_received(ar, k)
                # a write whose response handshake happens at this very edge is still "in flight" for this read
                self._note_possible(ar, writes)
                shake = True
            if bt is not None and I["axi_bready"] and S["axi_bvalid"] == 1:
                self._write_completed(bt, k)
                writes.pop(0)
                shake = True
            if rt is not None and I["axi_rready"] and S["axi_rvalid"] == 1:
                self._read_completed(rt, k, S)
                reads.pop(0)
                shake = True
            if busy:
                last_event = k + 1
            # ---- bounded response: nothing moves although the master has everything asserted
            stall = 0 if (shake or delaying or not busy) else stall + 1
            if stall > self.BOUND:
                self.inconclusive = True
                self.labels.add("inconclusive:no_completion")
                return
            prev = (S, dict(I))
            sim.clock("axi_clk")
            k += 1
            for p in pulse_off:
                hw_now[p] = 0
            pulse_off = []
            if not pending and not writes and not reads:
                if done_at is None:
                    done_at = k
                if k - max(done_at, last_event) >= self.QUIET:
                    self._compare_hw_exact(k, "end")
                    self._check_push(k)
                    self.labels.add("schedule_completed")
                    return
        self.labels.add("clock_budget_exhausted")

    # ------------------------------------------------------------------ model events
    @staticmethod
    def _regname(inst):
        return inst["what"] + (":" + inst["mode"] + ("+unaligned" if inst["unaligned"] else "")
                               if inst["what"] == "memcell" else "")

    def _target(self, t):
        return self.model.lookup(t["addr"] % (1 << self.spec["addr_width"]))

    def _write_received(self, t, k):
        m = self.model
        inst = self._target(t)
        t["inst"] = inst
        if t["strb"] == 0:
            self.labels.add("write:strobe0")
        elif t["strb"] != 15:
            self.labels.add("write:partial_strobe")
        if inst is None or not m.writable(inst):
            self.labels.add("write:unmapped" if inst is None else "write:readonly")
            t["new"] = None
            return
        self.labels.add(f"write:{inst['what']}")
        t["new"] = True     # has an effect; the states are derived from the current state when needed
        t["pieces"] = [(inst, t["data"], t["strb"])]
        if inst["what"] == "memcell":
            self.labels.add(f"write:mem:{inst['mode']}" + (":partial" if t["strb"] not in (0, 15) else ""))
        if t["addr"] % 4:
            self.labels.add("write:unaligned")
            sh = t["addr"] % 4
            if inst["what"] == "memcell" and inst["unaligned"]:
                # Memory(allow_unaligned=True): WDATA byte j (qualified by WSTRB[j]) goes to byte address addr + j
                nxt = m.lookup((t["addr"] % (1 << self.spec["addr_width"])) - sh + 4)
                t["pieces"] = [(inst, (t["data"] << 8 * sh) & M32, (t["strb"] << sh) & 15)]
                if nxt is not None and nxt["what"] == "memcell" and nxt["name"] == inst["name"]:
                    t["pieces"].append((nxt, t["data"] >> 8 * (4 - sh), t["strb"] >> (4 - sh)))
                self.labels.add("write:mem:unaligned_window")
        if inst["what"] == "reg":
            nf = len([f for f in m.classes[inst["cls"]]["fields"] if f["kind"] in ("memfield", "memufield", "flag")])
            if t["strb"] not in (0, 15) and nf >= 2:
                self.counters["partial_multi_field_writes"] += 1
                self.labels.add("write:partial_strobe_multi_field")
            for n in m.classes[inst["cls"]]["notify"]:
                self._notify(inst, n, "w", k, t)

    def _after(self, t, piece=0):
        """(strict state, shadow state) of the target of write t once it has taken effect"""
        m = self.model
        inst, data, strb = t["pieces"][piece]
        i = inst["idx"]
        alt = m.written_state(inst, self.shadow[i], data, strb, ignore_strobe=True)
        if t.get("adopt_alt"):      # a strobe-ignoring effect of this write has been observed and reported
            new = dict(m.state[i], stored=alt["stored"], known=alt["known"])
        else:
            new = m.written_state(inst, m.state[i], data, strb)
        return new, alt

    def _notify(self, inst, n, on, k, t):
        if n["on"] != on:
            return
        port = f"ho{inst['idx']}_{n['name']}"
        if n["kind"] == "push":
            if port in self.push_ports:
                self.push_ports[port]["windows"].append([k, None, t])
        else:
            t.setdefault("sets", []).append((inst["idx"], n["name"]))

    def _write_completed(self, t, k):
        m = self.model
        self.counters["writes_done"] += 1
        if t.get("new") is not None:
            for n, (inst, _, _) in enumerate(t["pieces"]):
                m.state[inst["idx"]], self.shadow[inst["idx"]] = self._after(t, n)
        self._close(t, k)

    def _close(self, t, k):
        for inst_idx, name in t.get("sets", []):
            for states in (self.model.state, self.shadow):
                st = dict(states[inst_idx])
                val = 1
                if t["op"] == "w" and t["strb"] == 0 and st["notif"].get(name) != 1:
                    val = None      # does a write without any strobe notify?  not determined: not compared
                st["notif"] = dict(st["notif"], **{name: val})
                states[inst_idx] = st
        for info in self.push_ports.values():
            for win in info["windows"]:
                if win[2] is t:
                    win[1] = k + 2

    def _read_received(self, t, k):
        m = self.model
        inst = self._target(t)
        t["inst"] = inst
        if inst is None or not m.readable(inst):
            self.labels.add("read:unmapped" if inst is None else "read:writeonly")
            return
        self.labels.add(f"read:{inst['what']}")
        t["rpieces"] = [inst]
        if t["addr"] % 4:
            self.labels.add("read:unaligned")
            if inst["what"] == "memcell" and inst["unaligned"]:
                # Memory(allow_unaligned=True): the four bytes starting at the byte address
                nxt = m.lookup((t["addr"] % (1 << self.spec["addr_width"])) - t["addr"] % 4 + 4)
                if nxt is not None and nxt["what"] == "memcell" and nxt["name"] == inst["name"]:
                    t["rpieces"].append(nxt)
                else:
                    t["rpieces"].append(None)       # beyond the end of the memory: not determined
                self.labels.add("read:mem:unaligned_window")
        if inst["what"] == "reg":
            for n in m.classes[inst["cls"]]["notify"]:
                self._notify(inst, n, "r", k, t)

    def _read_val(self, t, st_of):
        """value of read t when instance i has state st_of(i)"""
        m = self.model
        ps = t["rpieces"]
        v = m.read_value(ps[0], st_of(ps[0]))
        if len(ps) == 1:
            return v
        if ps[1] is None:
            return None
        v1 = m.read_value(ps[1], st_of(ps[1]))
        if v is None or v1 is None:
            return None
        sh = 8 * (t["addr"] % 4)
        return ((v >> sh) | (v1 << (32 - sh))) & M32

    def _note_possible(self, t, writes):
        m = self.model
        inst = t.get("inst")
        if inst is None or not m.readable(inst):
            return
        mine = {p["idx"] for p in t["rpieces"] if p is not None}
        t["allowed"].add(self._read_val(t, lambda i: m.state[i["idx"]]))
        t["allowed_alt"].add(self._read_val(t, lambda i: self.shadow[i["idx"]]))
        # writes in flight that touch the register(s): each alone and all of them (in order) may have taken effect
        hits = [w for w in writes if w.get("req_done") is not None and w.get("new") is not None
                and any(p[0]["idx"] in mine for p in w["pieces"])]
        for group in [[w] for w in hits] + ([hits] if len(hits) > 1 else []):
            over, over_alt = {}, {}
            for w in group:
                for n, (pi, _, _) in enumerate(w["pieces"]):
                    over[pi["idx"]], over_alt[pi["idx"]] = self._after(w, n)
            t["allowed"].add(self._read_val(t, lambda i: over.get(i["idx"], m.state[i["idx"]])))
            t["allowed_alt"].add(self._read_val(t, lambda i: over_alt.get(i["idx"], self.shadow[i["idx"]])))
            t["overlaps_write"] = True

    def _read_completed(self, t, k, S):
        m = self.model
        self.counters["reads_done"] += 1
        inst = t.get("inst")
        self._close(t, k)
        if inst is None or not m.readable(inst):
            return
        got = S["axi_rdata"]
        if None in t["allowed"] or not t["allowed"]:
            return      # the register had no determined value at some point of the window: anything goes
        exp = set(t["allowed"])
        self.counters["reads_compared"] += 1
        if t.get("overlaps_write"):
            self.labels.add("read:overlaps_write_same_register")
        if got in exp:
            return
        if got is not None and got in t["allowed_alt"]:
            self.add({"kind": "write_mask", "reg": self._regname(inst), "cause": "strobe_ignored"},
                     f"clock {k}: read of 0x{t['addr']:x} ({inst['what']} at 0x{inst['off']:x}) returned {got:#010x}: the value "
                     f"an earlier partial-strobe write would leave if its byte strobes were ignored; strobed-bytes model "
                     f"{sorted(hex(v) for v in exp)}")
            sh = self.shadow[inst["idx"]]
            m.state[inst["idx"]] = dict(m.state[inst["idx"]], stored=sh["stored"], known=sh["known"])
            return
        self.add({"kind": "read_data", "reg": self._regname(inst), "cause": "unexplained"},
                 f"clock {k}: read of 0x{t['addr']:x} ({inst['what']} at 0x{inst['off']:x}) returned "
                 f"{'undefined' if got is None else hex(got)}, model allows {sorted(hex(v) for v in exp)}")
        raise Finding()

    def _apply_clear(self, port):
        m = self.model
        for inst in m.insts:
            for name, d, ty, role in inst["ports"]:
                if name != port:
                    continue
                for states in (m.state, self.shadow):
                    st = dict(states[inst["idx"]])
                    if role[0] == "flagclr":
                        f = next(f for f in m.classes[inst["cls"]]["fields"] if f["name"] == role[1])
                        st["stored"] &= ~(1 << f["lo"])
                    elif role[0] == "notifyclr":
                        st["notif"] = dict(st["notif"], **{role[1]: 0})
                    states[inst["idx"]] = st

    # ------------------------------------------------------------------ hardware side
    def _role_kind(self, inst, role):
        if role[0] in ("field", "flag"):
            f = next(f for f in self.model.classes[inst["cls"]]["fields"] if f["name"] == role[1])
            return f["kind"]
        return role[0]

    def _compare_hw_running(self, k, writes):
        """stored values exposed on ports: old value until the request has been received, old or new until
        the response handshake, new afterwards.  Flags / notifications are compared at quiet points only."""
        m = self.model
        for inst in m.insts:
            outs = [p for p in inst["ports"] if p[1] == "out" and p[3][0] in ("raw", "sig", "field")]
            if not outs:
                continue
            i = inst["idx"]
            exp_c = [m.outputs(inst)]
            alt_c = [m.outputs(inst, self.shadow[i])]
            wt = None
            for t in writes:
                if t.get("inst") is inst and t.get("new") is not None and t.get("req_done") is not None:
                    new, alt = self._after(t)
                    exp_c.append(m.outputs(inst, new))
                    alt_c.append(m.outputs(inst, alt))
                    wt = t
            for name, d, ty, role in outs:
                exp = [c[name] for c in exp_c]
                if any(e is None for e in exp):
                    continue
                got = self._bits(name)
                self.counters["hw_values_compared"] += 1
                if got in exp:
                    continue
                if got is not None and got in [c[name] for c in alt_c]:
                    self.add({"kind": "write_mask", "reg": inst["what"], "cause": "strobe_ignored"},
                             f"clock {k}: {self._role_kind(inst, role)} port {name} shows {got:#x} = the value if the byte strobes of the partial write"
                             + (f" 0x{wt['data']:08x} strb {wt['strb']:04b} to 0x{wt['addr']:x}" if wt else "")
                             + f" were ignored; strobed-bytes model {[hex(e) for e in exp]}")
                    if wt is not None:
                        wt["adopt_alt"] = True      # go on with the observed behaviour, the finding is recorded
                    else:
                        m.state[i] = dict(m.state[i], stored=self.shadow[i]["stored"], known=self.shadow[i]["known"])
                    return
                self.add({"kind": "hw_output", "reg": inst["what"], "field": self._role_kind(inst, role),
                          "phase": "write_in_flight" if wt else "idle"},
                         f"clock {k}: port {name} shows {'undefined' if got is None else hex(got)}, "
                         f"model {[hex(e) for e in exp]}")
                raise Finding()

    def _compare_hw_exact(self, k, why):
        m = self.model
        for inst in m.insts:
            exp = m.outputs(inst)
            alt = m.outputs(inst, self.shadow[inst["idx"]])
            for name, d, ty, role in inst["ports"]:
                if d != "out" or exp.get(name) is None:
                    continue
                got = self._bits(name)
                self.counters["hw_values_compared"] += 1
                if got == exp[name]:
                    continue
                if got is not None and got == alt.get(name):
                    self.add({"kind": "write_mask", "reg": inst["what"], "cause": "strobe_ignored"},
                             f"clock {k} ({why}): {self._role_kind(inst, role)} port {name} shows {got:#x} = the value if the byte strobes of an earlier "
                             f"partial write were ignored; strobed-bytes model {exp[name]:#x}")
                    sh = self.shadow[inst["idx"]]
                    m.state[inst["idx"]] = dict(m.state[inst["idx"]], stored=sh["stored"], known=sh["known"])
                    return
                self.add({"kind": "hw_output", "reg": inst["what"], "field": self._role_kind(inst, role),
                          "phase": "quiet"},
                         f"clock {k} ({why}): port {name} shows {'undefined' if got is None else hex(got)}, "
                         f"model {exp[name]:#x}")
                raise Finding()

    def _check_push(self, k):
        for port, info in self.push_ports.items():
            wins = info["windows"]
            for h in info["highs"]:
                if not any(w[0] <= h <= (w[1] if w[1] is not None else k) for w in wins):
                    self.add({"kind": "notify", "what": "pulse_outside_access", "on": info["on"]},
                             f"{port} is high at clock {h}, accesses at {[(w[0], w[1]) for w in wins]}")
                    raise Finding()
            if any(w[2].get("strb") == 0 for w in wins if w[2]["op"] == "w"):
                continue    # does a write without any strobe notify?  not determined
            if len(info["highs"]) != len(wins):
                self.add({"kind": "notify", "what": "pulse_count", "on": info["on"],
                          "more": len(info["highs"]) > len(wins)},
                         f"{port}: {len(info['highs'])} one-clock pulses for {len(wins)} accesses "
                         f"(high at {info['highs']}, accesses {[(w[0], w[1]) for w in wins]})")
                raise Finding()
