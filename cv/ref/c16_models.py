"""C16 reference models (counter level), written from the property statement, the std docstrings
(utility.pyi) and - where those are silent - the upstream mock models of the reference test benches
(tests/reference_builds/std/utility/test_*.py), as listed in ASSUMPTIONS of cv/props/c16.py.
No cohdl import here.
"""
from __future__ import annotations

from fractions import Fraction


# ----------------------------------------------------------------------------- Duration -> ticks
def ticks_of(dur: dict, freq_mhz) -> int | None:
    """Number of clock periods in a duration; None when the clock period does not divide it.
    dur = {"unit": "ns"|"ps"|"us", "val": number given as int or decimal string}"""
    scale = {"ps": Fraction(1, 1000), "ns": Fraction(1), "us": Fraction(1000)}[dur["unit"]]
    d_ns = Fraction(str(dur["val"])) * scale
    period_ns = Fraction(1000) / Fraction(str(freq_mhz))
    q = d_ns / period_ns
    return int(q) if q.denominator == 1 else None


def near_ticks(dur: dict, freq_mhz) -> Fraction:
    scale = {"ps": Fraction(1, 1000), "ns": Fraction(1), "us": Fraction(1000)}[dur["unit"]]
    return Fraction(str(dur["val"])) * scale / (Fraction(1000) / Fraction(str(freq_mhz)))


# ----------------------------------------------------------------------------- wait_for
class WaitMonitor:
    """`before` pulses when the wait sequence is reached; the statement fixes the distance of the
    following markers: wait k resumes exactly n_k clock steps after it was reached (0 only with allow_zero)."""

    def __init__(self, ns):
        self.ns = list(ns)  # tick counts of the 1 or 2 consecutive waits
        self.t = -1
        self.exp_mid = set()
        self.exp_after = set()
        self.rounds = 0

    def step(self, before, mid, after):
        self.t += 1
        t = self.t
        bad = []
        if before:
            self.rounds += 1
            if len(self.ns) == 2:
                self.exp_mid.add(t + self.ns[0])
                self.exp_after.add(t + self.ns[0] + self.ns[1])
            else:
                self.exp_after.add(t + self.ns[0])
        em, ea = t in self.exp_mid, t in self.exp_after
        if bool(mid) != em:
            bad.append(("resume_1", f"clock {t}: marker after the first wait = {mid}, expected {int(em)}"))
        if bool(after) != ea:
            which = "resume_2" if len(self.ns) == 2 else "resume_1"
            bad.append((which, f"clock {t}: marker after the last wait = {after}, expected {int(ea)}"))
        return bad


# ----------------------------------------------------------------------------- delayed / DelayLine
class DelayModel:
    """DelayLine docstring: delay+1 elements, element 0 is the input; every evaluation assigns each element
    to the next one.  `delayed(x, n)` is the last element.  Values read in a clocked context are the ones
    before the clock edge."""

    def __init__(self, n, initial):
        self.n = n
        self.c = [initial] * n  # elements 1..n (None = no initial value given)
        self.o_d = None
        self.taps = {}
        self.o_ref = None

    def step(self, inp, evaluated: bool, shift: bool):
        """evaluated: the reading statement is executed this clock; shift: the chain advances this clock."""
        chain = [inp] + self.c
        self.o_ref = inp
        if evaluated:
            self.o_d = chain[self.n]
            for k in range(self.n + 1):
                self.taps[k] = chain[k]
        if shift and self.n:
            self.c = chain[: self.n]


# ----------------------------------------------------------------------------- continuous_counter
class CounterModel:
    """docstring: incremented on each tick, continues from zero when `limit` is reached (3 -> 0-1-2-3-0-...)."""

    def __init__(self):
        self.v = 0

    def step(self, limit, reset=False):
        if reset:
            self.v = 0
        else:
            self.v = 0 if self.v >= limit else self.v + 1
        return self.v


# ----------------------------------------------------------------------------- enable/reset register
class ResetLine:
    """How the generator's reset is driven.  method: enable()/disable() from a clocked process (takes effect one
    clock later); signal: the reset signal follows an input combinationally; none: never touched."""

    def __init__(self, drive, require_enable):
        self.drive = drive
        self.r = bool(require_enable)
        self.r0 = self.r

    def at_edge(self, en, dis, ctx_reset=False):
        """reset value the generator sees at this clock edge; then update.  ctx_reset: the reset of the context the
        generator (and the process calling enable()/disable()) was made from is active at this edge: the generator is
        in reset and the enable register returns to its initial value."""
        if self.drive == "signal":
            return bool(dis) or bool(ctx_reset)
        seen = self.r
        if self.drive == "method":
            self.r = self.r0 if ctx_reset else (not en)
        return seen or bool(ctx_reset)


# ----------------------------------------------------------------------------- ClockDivider
class ClkDivModel:
    """ClockDivider docstring: high for one clock cycle and low for the rest of a period of `duration` cycles.
    Phase, default_state, tick_at_start, require_enable: upstream MockClkDivider (test_clock_divider_01.py):
    k-th enabled clock (k = 0, 1, ...): active iff k % D == D-1 (tick_at_start: k % D == 0); disabled: default."""

    def __init__(self, default_state, tick_at_start):
        self.default = bool(default_state)
        self.tick = bool(tick_at_start)
        self.k = 0
        self.state = self.default
        self.rising = False
        self.falling = False
        self.reset_transition = False

    def step(self, D, reset):
        prev = self.state
        self.reset_transition = False
        if reset:
            self.k = 0
            self.state = self.default
            self.rising = self.falling = False
            self.reset_transition = prev != self.state
            return
        active = (self.k % D == 0) if self.tick else (self.k % D == D - 1)
        self.k += 1
        self.state = (not self.default) if active else self.default
        self.rising = (not prev) and self.state
        self.falling = prev and (not self.state)


# ----------------------------------------------------------------------------- ToggleSignal (run-length oracle)
def toggle_expected(first, second, first_state, total, short_first=False):
    """ToggleSignal docstring: after the reset is released the signal is `first_state` for `first` ticks, then the
    opposite for `second` ticks, repeating (first + second >= 1).  Returns the state per tick for `total` ticks.
    short_first: variant whose very first phase is one tick shorter (used to name a finding, not as the oracle)."""
    seq = []
    val = bool(first_state)
    lens = [first, second]
    i = 0
    while len(seq) < total:
        ln = lens[i % 2]
        if i == 0 and short_first:
            ln -= 1
        seq.extend([val] * max(ln, 0))
        val = not val
        i += 1
    return seq[:total]


def runs_of(seq):
    runs = []
    for v in seq:
        v = bool(v)
        if runs and runs[-1][0] == v:
            runs[-1] = (v, runs[-1][1] + 1)
        else:
            runs.append((v, 1))
    return runs


# ----------------------------------------------------------------------------- debounce
class DebounceModel:
    """debounce docstring: saturating counter with max-value `period`, incremented when inp is '1', decremented when
    '0'; output '1' when the max-value is reached, '0' when 0 is reached; counter starts at period/2, output at
    `initial`.  Timing of the output register: upstream MockDebounce (test_debounce.py) - the output is updated in
    the tick in which the counter is *found* at the bound."""

    def __init__(self, period, initial):
        self.p = period
        self.cnt = period // 2
        self.out = bool(initial)
        # strict reading of the property text: output changes in the same tick in which the counter arrives
        self.cnt_s = period // 2
        self.out_s = bool(initial)

    def step(self, inp):
        if inp:
            if self.cnt == self.p:
                self.out = True
            self.cnt = min(self.cnt + 1, self.p)
        else:
            if self.cnt == 0:
                self.out = False
            self.cnt = max(self.cnt - 1, 0)
        # strict variant
        if inp:
            self.cnt_s = min(self.cnt_s + 1, self.p)
            if self.cnt_s == self.p:
                self.out_s = True
        else:
            self.cnt_s = max(self.cnt_s - 1, 0)
            if self.cnt_s == 0:
                self.out_s = False
        return self.out


# ----------------------------------------------------------------------------- run-time periods that CHANGE during a run
class ToggleTickModel:
    """ToggleSignal with run-time durations that change while it runs: transcription of the upstream ToggleMock of
    test_toggle_signal_02.py (the only place where this is documented; that bench changes both intervals at random
    times): per tick  cnt' = 0 if cnt + 1 >= first + second else cnt + 1  (i.e. the period counter wraps as soon as
    it is at or above the *current* end value),  state = first_state iff cnt' < first;  reset: cnt = 0, state =
    default, no pulses.  Only used after a reset has been seen (the mock's never-reset start differs, see the known
    finding about the first phase)."""

    def __init__(self, default_state, first_state):
        self.default = bool(default_state)
        self.first_state = bool(first_state)
        self.cnt = 0
        self.state = self.default
        self.rising = False
        self.falling = False

    def tick(self, first, second, reset):
        prev = self.state
        self.rising = self.falling = False
        if reset:
            self.cnt = 0
            self.state = self.default
            return
        self.cnt = 0 if self.cnt + 1 >= first + second else self.cnt + 1
        self.state = self.first_state if self.cnt < first else (not self.first_state)
        if prev != self.state:
            if prev:
                self.falling = True
            else:
                self.rising = True


class PulseWindowMonitor:
    """ClockDivider whose run-time period changes while it runs.  Neither the docstring nor the upstream mock says
    what the phase is right after a change, so only what they do determine is asserted:
      * within every stretch of enabled ticks with an unchanged period D a pulse occurs within the first D ticks
        (the divider resumes with the new period within one new period),
      * once a pulse has occurred in the stretch, pulses are exactly D ticks apart and one tick long."""

    def __init__(self):
        self.D = None
        self.stable = 0
        self.since = None

    def reset(self):
        self.D = None
        self.stable = 0
        self.since = None

    def tick(self, D, active):
        bad = []
        if D != self.D:
            self.D = D
            self.stable = 0
            self.since = None
        self.stable += 1
        if active:
            if self.since is not None and self.since != D:
                bad.append(("period", f"pulses {self.since} ticks apart with period {D}"))
            self.since = 0
        if self.since is None:
            if self.stable >= D and not active:
                bad.append(("resume", f"no pulse within the first {D} ticks after the period became {D}"))
        else:
            if not active and self.since >= D:
                bad.append(("period", f"no pulse {self.since} ticks after the previous one with period {D}"))
        if self.since is not None:
            self.since += 1
        return bad


class CounterWindowMonitor:
    """continuous_counter with a run-time limit that changes: docstring = incremented on each tick, continues from
    zero when the limit is reached.  For a counter that is *above* a lowered limit nothing is documented for the raw
    counter, so: (a) while the previous value is <= limit the successor is exact, (b) after the limit has been
    unchanged for limit+1 ticks the value is <= limit (the counter resumes the new range within one new period)."""

    def __init__(self):
        self.L = None
        self.stable = 0
        self.prev = 0

    def tick(self, L, value, reset):
        bad = []
        if L != self.L:
            self.L = L
            self.stable = 0
        self.stable += 1
        if reset:
            if value != 0:
                bad.append(("count", f"counter = {value} after reset"))
        else:
            if self.prev <= L:
                exp = 0 if self.prev == L else self.prev + 1
                if value != exp:
                    bad.append(("count", f"counter = {value} after {self.prev} with limit {L}, expected {exp}"))
            elif self.stable >= L + 1 and value is not None and value > L:
                bad.append(("resume", f"counter = {value} still above the limit {L} after {self.stable} ticks with that limit"))
        self.prev = value if value is not None else 0
        return bad
