"""C14 reference models, written from the property statement and the std docstrings only.

Fifo[T,N]: first-in-first-out, holds up to N-1 elements (collections.deque).
Stack[T,N]: last-in-first-out, holds up to N elements; DROP_OLD: a push to a full stack
discards exactly the oldest element.

The models take the same *requests* as the wrapper entity and apply the same documented
preconditions (no push when full, no pop when empty); state() is hashable.
No cohdl import here.
"""
from __future__ import annotations

from collections import deque


class FifoModel:
    def __init__(self, n: int):
        self.cap = n - 1
        self.q: deque = deque()
        self.last_pop = 0
        self.total_push = 0

    # observables of the *current* state
    def empty(self):
        return len(self.q) == 0

    def full(self):
        return len(self.q) == self.cap

    def size(self):
        return len(self.q)

    def front(self):
        return self.q[0] if self.q else None

    def step(self, push_req: bool, pop_req: bool, data: int):
        """One clock with preconditions applied to the state *before* the clock.
        Returns (did_push, did_pop, popped)."""
        did_pop = bool(pop_req) and not self.empty()
        did_push = bool(push_req) and not self.full()
        popped = None
        if did_pop:
            popped = self.q.popleft()
            self.last_pop = popped
        if did_push:
            self.q.append(data)
            self.total_push += 1
        return did_push, did_pop, popped

    def state(self):
        return tuple(self.q)

    def set_state(self, st):
        self.q = deque(st)


class FifoLedger:
    """Validity ledger for the delayed / cross-context Fifo: the true content is whatever
    was accepted and not yet delivered; timing of the indications is not modelled."""

    def __init__(self, n: int):
        self.cap = n - 1
        self.q: deque = deque()

    def occupancy(self):
        return len(self.q)

    def state(self):
        return tuple(self.q)

    def set_state(self, st):
        self.q = deque(st)

    def observe(self, pushed: bool, data: int, popped: bool, value):
        """Events of one clock.  Both are judged against the content *before* the clock.
        Returns a list of (observable, text) problems."""
        bad = []
        occ = len(self.q)
        if popped:
            if occ == 0:
                bad.append(("pop_while_empty", "an element was delivered while nothing was stored"))
            else:
                exp = self.q.popleft()
                if value != exp:
                    bad.append(("pop_value", f"delivered {value}, next in push order is {exp}"))
        if pushed:
            if occ >= self.cap:
                bad.append(("push_while_full", f"an element was accepted while {occ} = N-1 were stored"))
            self.q.append(data)
        return bad


class StackModel:
    NONE, PUSH, POP, RESET = 0, 1, 2, 3

    def __init__(self, n: int, drop_old: bool):
        self.n = n
        self.drop_old = drop_old
        self.s: list = []
        self.last_pop = 0

    def empty(self):
        return len(self.s) == 0

    def full(self):
        return len(self.s) == self.n

    def size(self):
        return len(self.s)

    def front(self):
        return self.s[-1] if self.s else None

    def step(self, op: int, data: int):
        """Returns (did_push, did_pop, did_reset, popped)."""
        if op == self.PUSH:
            if self.full():
                if not self.drop_old:
                    return False, False, False, None  # precondition: no push to a full stack
                del self.s[0]
            self.s.append(data)
            return True, False, False, None
        if op == self.POP:
            if self.empty():
                return False, False, False, None
            v = self.s.pop()
            self.last_pop = v
            return False, True, False, v
        if op == self.RESET:
            self.s.clear()
            return False, False, True, None
        return False, False, False, None

    def state(self):
        return tuple(self.s)

    def set_state(self, st):
        self.s = list(st)
