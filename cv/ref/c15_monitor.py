"""C15 trace monitors for SyncFlag / Mailbox hand-over, written from the property statement.

Events per clock (as exported by the wrapper of cv/gen/c15_designs.py):
    pclear  producer observed the flag as clear at this clock edge
    set     producer issued set()/send() at this clock edge
    cset    consumer observed the flag as set at this clock edge
    clr     consumer issued clear() at this clock edge (a *consumption*; implies cset)
    payload_in / payload_out

An *effective* set is one issued while the producer observed clear.  Rules (property C15):
  (i)   every effective set is followed by exactly one consumption      -> alternation E K E K ...
  (ii)  the payload delivered at K is the payload given at the matching E
  (iii) a set while already set changes nothing                         -> no K without a pending E
  (iv)  the producer observes clear again only after the consumer's clear
  (v)   no second observation of a consumed set                         -> cset only while an E is pending
Liveness is not judged here (the caller runs a drain phase and counts undrained events).
No cohdl import here.
"""
from __future__ import annotations


class PlainMonitor:
    """wrapper style 'plain': level observations every clock."""

    def __init__(self, mailbox: bool):
        self.mailbox = mailbox
        self.pending = None  # payload of the effective set not yet consumed (0 for a bare flag)
        # statistics (not part of the hashable state)
        self.handovers = 0
        self.ineffective_sets = 0
        self.tight = 0
        self._cset_run = 0
        self._pclear_run = 0
        self._seen_k = False

    def state(self):
        return self.pending

    def set_state(self, s):
        self.pending = s
        self._cset_run = 0
        self._pclear_run = 0

    def step(self, payload_in, pclear, set_, cset, clr, payload_out, check_payload=True):
        """clr: a clear() was issued in a clock in which the consumer observed the flag as set (consumption).
        A clear() issued while the consumer observes the flag as clear is documented to have no effect and is
        simply not reported here: any event it creates or destroys violates (iii)/(iv)/(v) later."""
        bad = []
        pend = self.pending
        if cset and pend is None:
            bad.append(("consumer_sees_set", "consumer observes the flag as set although no effective set is pending "
                        "(re-observation of a consumed set, or a set that should have had no effect)"))
        if pclear and pend is not None:
            bad.append(("producer_sees_clear", "producer observes the flag as clear although its set has not been "
                        "cleared by the consumer"))
        self._cset_run = self._cset_run + 1 if cset else 0
        self._pclear_run = self._pclear_run + 1 if pclear else 0
        if clr:
            if pend is None:
                if not cset:
                    bad.append(("consumption", "clear issued without an observation"))
            else:
                if self.mailbox and check_payload and payload_out != pend:
                    bad.append(("payload", f"delivered payload {payload_out}, sent {pend}"))
                self.handovers += 1
                self._seen_k = True
                if self._cset_run == 1:
                    self.tight += 1
                self.pending = None
        if set_:
            if pclear:
                if pend is None:
                    self.pending = payload_in if self.mailbox else 0
                    if self._seen_k and self._pclear_run == 1:
                        self.tight += 1
            else:
                self.ineffective_sets += 1
        return bad


class CoroMonitor:
    """wrapper style 'coro': pulses set (E), clr (K), pclear (C) in strict rotation E K C E K C ..."""

    IDLE, PENDING, CLEARED = 0, 1, 2

    def __init__(self, mailbox: bool):
        self.mailbox = mailbox
        self.phase = self.IDLE
        self.payload = 0
        self.handovers = 0
        self.ineffective_sets = 0
        self.tight = 0
        self._recv_waiting = False

    def state(self):
        return (self.phase, self.payload)

    def set_state(self, s):
        self.phase, self.payload = s

    def step(self, payload_in, want_recv, set_, clr, pclear, payload_out):
        bad = []
        ph = self.phase
        if clr:
            if ph != self.PENDING:
                bad.append(("consumer_sees_set", "consumer received although no set is pending"))
            else:
                if self.mailbox and payload_out != self.payload:
                    bad.append(("payload", f"delivered payload {payload_out}, sent {self.payload}"))
                self.handovers += 1
                self.phase = self.CLEARED
                self.payload = 0
        if pclear:
            if ph == self.PENDING:
                bad.append(("producer_sees_clear", "producer observes clear before the consumer cleared its set"))
            elif ph == self.CLEARED and not clr:
                self.phase = self.IDLE
            elif ph == self.IDLE:
                bad.append(("producer_sees_clear", "second clear notification without a set in between"))
        if set_:
            # judged after this clock's clear notification: a coroutine may restart in the clock it finishes
            if self.phase == self.IDLE:
                self.phase = self.PENDING
                self.payload = payload_in if self.mailbox else 0
                if self._recv_waiting:
                    self.tight += 1
            else:
                bad.append(("set_order", "producer issued a set before it had seen the previous one cleared"))
        self._recv_waiting = bool(want_recv)
        return bad
