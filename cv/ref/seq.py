"""Reference interpreter for the generated statement language (C01, C03, C04, C08).

Never imports cohdl.  Executes a design spec (see cv/gen/stmt.py) on plain Python ints:
one `step(inputs)` = one activation (clock) of the context.  Coroutine bodies are run as
Python generators that `yield` at the pause points the property C01 states.

Values: bit/bool -> 0/1, vectors -> unsigned int < 2**w, None = undefined ('U').
"""
from __future__ import annotations


class Unspecified(Exception):
    """the property does not determine the behaviour from here on (undefined value used in a
    condition / index, precondition violated)"""


def _mask(w):
    return (1 << w) - 1


def _is_object_view(e):
    """constant index / slice (chains) applied to a port, signal or variable: a view that aliases the object"""
    if e[0] not in ("idx", "slice"):
        return False
    base = e[1]
    while base[0] in ("idx", "slice"):
        base = base[1]
    return base[0] in ("in", "sig", "var")


class Machine:
    def __init__(self, spec):
        self.spec = spec
        self.W = spec["W"]
        self.objs = {}
        for group in ("inputs", "outputs", "sigs", "vars"):
            for o in spec.get(group, []):
                self.objs[o["name"]] = dict(o, group=group)
        self.ctx = spec["ctx"]
        self.body = spec["body"]
        self.subs = spec.get("subs", [])
        self.efuncs = spec.get("efuncs", [])
        self.helpers = spec.get("helpers", [])
        self.push_targets = sorted(self._push_targets(self.body) | {t for s in self.subs for t in self._push_targets(s["body"])})
        self.power_up()

    # ------------------------------------------------------------------ state
    def power_up(self):
        self.sig = {}
        self.var = {}
        for name, o in self.objs.items():
            if o["group"] in ("outputs", "sigs"):
                self.sig[name] = self._default(o)
            elif o["group"] == "vars":
                self.var[name] = self._default(o)
        self.local_objs = {}   # signals/variables declared inside the body: name -> ("sig"|"var", value)
        self.gen = None
        self.fresh = False
        self.labels = set()
        self.visited_pauses = set()
        self.inputs = {}

    def _default(self, o):
        return o.get("default")

    def width(self, name):
        o = self.objs[name]
        return 1 if o["kind"] in ("bit", "bool") else o.get("w", self.W)

    def _push_targets(self, body):
        out = set()
        for s in body:
            k = s["k"]
            if k == "push":
                out.add(s["t"]["name"])
            for key in ("body", "else"):
                if isinstance(s.get(key), list):
                    out |= self._push_targets(s[key])
            if k == "if":
                for _, b in s["arms"]:
                    out |= self._push_targets(b)
            if k == "match":
                for _, b in s["cases"]:
                    out |= self._push_targets(b)
                if s.get("default") is not None:
                    out |= self._push_targets(s["default"])
            if k == "forbreak":
                for _, b in s["items"]:
                    out |= self._push_targets(b)
        return out

    def state_key(self):
        """hashable summary of the architectural state (for exploration)"""
        return (tuple(sorted(self.sig.items())), tuple(sorted(self.var.items())))

    # ------------------------------------------------------------------ expressions
    def ev(self, e, env):
        """evaluate expression -> int or None (undefined)"""
        op = e[0]
        if op in ("const", "bconst"):
            return e[1]
        if op == "in":
            return self.inputs[e[1]]
        if op == "sig":
            if e[1] in self.alias:
                return self.alias[e[1]]
            if e[1] in self.local_sigs:
                return self.local_sigs[e[1]]
            return self.sig[e[1]]
        if op == "var":
            return self.var[e[1]]
        if op == "loc":
            v = env[e[1]]
            if callable(v):
                return v()
            return v
        if op in ("not", "cnot"):
            a = self.ev(e[1], env)
            return None if a is None else 1 - a
        if op in ("band", "bor", "bxor"):
            a, b = self.ev(e[1], env), self.ev(e[2], env)
            if a is None or b is None:
                # dominance of 0 for and / 1 for or (std_logic tables)
                if op == "band" and (a == 0 or b == 0):
                    return 0
                if op == "bor" and (a == 1 or b == 1):
                    return 1
                return None
            return {"band": a & b, "bor": a | b, "bxor": a ^ b}[op]
        if op in ("cand", "cor"):
            a = self.ev(e[1], env)
            if a is None:
                raise Unspecified("undefined value in condition")
            if op == "cand" and not a:
                return 0
            if op == "cor" and a:
                return 1
            b = self.ev(e[2], env)
            if b is None:
                raise Unspecified("undefined value in condition")
            return 1 if b else 0
        if op in ("add", "sub", "xor", "and", "or"):
            a, b = self.ev(e[1], env), self.ev(e[2], env)
            if a is None or b is None:
                return None
            w = self.ewidth(e)
            r = {"add": a + b, "sub": a - b, "xor": a ^ b, "and": a & b, "or": a | b}[op]
            return r & _mask(w)
        if op == "inv":
            a = self.ev(e[1], env)
            return None if a is None else (~a) & _mask(self.ewidth(e))
        if op == "idx":
            a = self.ev(e[1], env)
            return None if a is None else (a >> e[2]) & 1
        if op == "slice":
            a = self.ev(e[1], env)
            h, l = e[2], e[3]
            return None if a is None else (a >> l) & _mask(h - l + 1)
        if op == "cmp":
            a, b = self.ev(e[2], env), self.ev(e[3], env)
            if a is None or b is None:
                return None
            return int({"==": a == b, "!=": a != b, "<": a < b, "<=": a <= b, ">": a > b, ">=": a >= b}[e[1]])
        if op == "ifexp":
            c = self.cond(e[1], env)
            return self.ev(e[2] if c else e[3], env)
        if op == "tobool":
            a = self.ev(e[1], env)
            return None if a is None else int(bool(a))
        if op == "uview":  # .unsigned view of a vector: same bits
            return self.ev(e[1], env)
        if op == "ridx":
            a, i = self.ev(e[1], env), self.ev(e[2], env)
            if i is None:
                raise Unspecified("undefined run-time index")
            if i >= self.ewidth(e[1]):
                raise Unspecified("run-time index out of range")
            return None if a is None else (a >> i) & 1
        if op == "aidx":  # array signal element with run-time or constant index
            arr = self.sig[e[1]] if e[1] in self.sig else self.var[e[1]]
            i = self.ev(e[2], env)
            if i is None:
                raise Unspecified("undefined array index")
            if arr is None:
                return None
            if i >= len(arr):
                raise Unspecified("array index out of range")
            return arr[i]
        raise AssertionError(f"unknown expression {op}")

    def ewidth(self, e):
        op = e[0]
        if op == "const":
            return e[2] if len(e) > 2 else self.W
        if op in ("in", "sig", "var"):
            return self.width(e[1])
        if op == "loc":
            return e[2] if len(e) > 2 else self.W
        if op in ("add", "sub", "xor", "and", "or"):
            return max(self.ewidth(e[1]), self.ewidth(e[2]))
        if op in ("inv", "uview"):
            return self.ewidth(e[1])
        if op == "slice":
            return e[2] - e[3] + 1
        if op == "ifexp":
            return self.ewidth(e[2])
        if op == "aidx":
            return self.objs[e[1]].get("w", self.W)
        return 1

    def cond(self, e, env):
        v = self.ev(e, env)
        if v is None:
            raise Unspecified("undefined value in condition")
        return bool(v)

    # ------------------------------------------------------------------ assignments
    def _overlay(self, old, t, val):
        """new value of a whole object when target accessor t receives val"""
        acc = t.get("acc")
        if acc is None:
            return val
        if acc[0] == "slice":
            h, l = acc[1], acc[2]
            if old is None or val is None:
                return None if old is None else None
            m = _mask(h - l + 1) << l
            return (old & ~m) | ((val << l) & m)
        if acc[0] == "bit":
            k = acc[1]
            if old is None or val is None:
                return None
            return (old & ~(1 << k)) | ((val & 1) << k)
        if acc[0] == "aidx":
            i = self.ev(acc[1], self._env)
            if i is None:
                raise Unspecified("undefined array index in target")
            if old is None:
                return None
            if i >= len(old):
                raise Unspecified("array index out of range in target")
            lst = list(old)
            lst[i] = val
            return tuple(lst)
        raise AssertionError(acc)

    def assign_sig(self, t, val):
        name = t["name"]
        if name in self.local_sigs:
            base = self.pending_local.get(name, self.local_sigs[name])
            self.pending_local[name] = self._overlay(base, t, val)
            return
        base = self.pending.get(name, self.sig[name])
        new = self._overlay(base, t, val)
        self.pending[name] = new
        self.labels.add("sig_write")
        if name in self.written_this_step:
            self.labels.add("double_write")
        self.written_this_step.add(name)

    def assign_var(self, t, val):
        name = t["name"]
        self.var[name] = self._overlay(self.var[name], t, val)

    # ------------------------------------------------------------------ statements (generator: yields at pause points)
    def exec_block(self, body, env):
        for s in body:
            r = yield from self.exec_stmt(s, env)
            if r is not None:
                return r
        return None

    def exec_stmt(self, s, env):
        """returns None (fall through) or ("break",) / ("continue",) / ("return", value)"""
        k = s["k"]
        self._env = env
        if k in ("assign", "next"):
            v = self.ev(s["e"], env)
            if s["t"]["name"] in self.read_after_write_watch:
                pass
            self.assign_sig(s["t"], v)
            self.fresh = False
        elif k in ("var", "value"):
            self.assign_var(s["t"], self.ev(s["e"], env))
            self.fresh = False
        elif k == "push":
            v = self.ev(s["e"], env)
            self.assign_sig(s["t"], v)
            self.labels.add("push")
            self.fresh = False
        elif k == "if":
            self.fresh_if()
            for c, b in s["arms"]:
                if self.cond(c, env):
                    return (yield from self.exec_block(b, env))
            if s.get("else") is not None:
                return (yield from self.exec_block(s["else"], env))
            self.labels.add("if_no_branch")
        elif k == "match":
            self.fresh_if()
            v = self.ev(s["e"], env)
            if v is None:
                raise Unspecified("undefined match subject")
            for const, b in s["cases"]:
                if v == const:
                    return (yield from self.exec_block(b, env))
            if s.get("default") is not None:
                self.labels.add("match_default")
                return (yield from self.exec_block(s["default"], env))
            self.labels.add("match_none")
        elif k == "forbreak":
            self.fresh_if()
            for c, b in s["items"]:
                if self.cond(c, env):
                    r = yield from self.exec_block(b, env)
                    if r is not None:
                        return r
                    break
            else:
                if s.get("else") is not None:
                    self.labels.add("for_else")
                    return (yield from self.exec_block(s["else"], env))
        elif k == "call":
            h = self.helpers[s["helper"]]
            args = [self.ev(a, env) for a in s["args"]]
            env[s["bind"]] = self.call_helper(h, args)
            self.labels.add("helper_call")
            if self.fresh:
                # whether a helper call emits anything (and so counts as the first action) depends on what
                # the tracer can fold: the property does not determine it
                self.fresh = "ambiguous"
        elif k == "bind":
            if _is_object_view(s["e"]):
                # a constant index/slice (chain) of an object is a view of that object, not a value: the name aliases the
                # storage and reads its current content whenever it is used; nothing is computed
                env[s["bind"]] = (lambda e=s["e"], env=env: self.ev(e, env))
            else:
                env[s["bind"]] = self.ev(s["e"], env)
                if s["e"][0] not in ("in", "sig", "var", "const", "bconst", "loc"):
                    self.fresh = False  # computing an intermediate value is an action of the process
        elif k == "always":
            e = s["e"]
            env[s["bind"]] = (lambda e=e, env=env: self.ev(e, env))
            self.labels.add("always")
        elif k == "localsig":
            # a Signal declared inside the body reads, for the rest of this activation, as the value
            # it was constructed with
            v = self.ev(s["e"], env)
            self.objs.setdefault(s["name"], {"name": s["name"], "kind": s["kind"], "w": s.get("w", self.W), "group": "local"})
            self.local_sigs[s["name"]] = v
            self.alias[s["name"]] = v
            self.labels.add("local_signal")
            self.fresh = False
        elif k == "localarr":
            self.var[s["name"]] = [self.ev(e, env) for e in s["elems"]]
            self.objs.setdefault(s["name"], {"name": s["name"], "kind": "arr", "w": self.W, "n": len(s["elems"]), "group": "vars"})
            self.fresh = False
        elif k == "localvar":
            self.var[s["name"]] = self.ev(s["e"], env)
            self.objs.setdefault(s["name"], {"name": s["name"], "kind": s["kind"], "w": s.get("w", self.W), "group": "vars"})
            self.fresh = False
        elif k == "await":
            if self.fresh == "ambiguous":
                raise Unspecified("first action of the process is not determined (foldable helper call before an await)")
            c = s["c"]
            if c == "true":
                # a condition that always holds: one clock, or none when it is the first action
                if not self.fresh:
                    self.pause(("await_true", id(s)))
                    yield
                else:
                    self.labels.add("await_first_action")
                self.fresh = False
            elif c == "false":
                self.labels.add("await_false")
                while True:
                    self.pause(("halt", id(s)))
                    yield
            else:
                if not self.fresh:
                    self.pause(("await", id(s)))
                    yield
                else:
                    self.labels.add("await_first_action")
                while not self.cond(c, env):
                    self.pause(("await", id(s)))
                    yield
                self.fresh = False
        elif k == "while":
            if self.fresh == "ambiguous":
                raise Unspecified("first action of the process is not determined (foldable helper call before a loop)")
            c = s["c"]
            if not self.fresh:
                self.pause(("while", id(s)))
                yield
            else:
                self.labels.add("while_first_action")
            self.fresh = False
            while True:
                if c == "false":
                    self.labels.add("while_const_false")
                    break
                if c != "true" and not self.cond(c, env):
                    break
                r = yield from self.exec_block(s["body"], env)
                if r is not None:
                    if r[0] == "break":
                        self.labels.add("break")
                        break
                    if r[0] == "continue":
                        self.labels.add("continue")
                        continue
                    return r
                self.pause(("while", id(s)))
                yield
        elif k == "break":
            return ("break",)
        elif k == "continue":
            return ("continue",)
        elif k == "return":
            v = self.ev(s["e"], env) if s.get("e") is not None else None
            return ("return", v)
        elif k == "awaitcall":
            f = self.efuncs[s["f"]]
            for _ in self.exec_block(f["body"], {}):
                raise AssertionError("pause point in a plain function")
            self.fresh = False  # the call's assignments are actions of the process
            self.labels.add("await_call")
            return (yield from self.exec_stmt({"k": "await", "c": f["ret"]}, env))
        elif k == "awaitsub":
            sub = self.subs[s["sub"]]
            # a bare object passed as argument is aliased (Python passes the object, the sub-coroutine reads its
            # current value whenever it uses the parameter); computed arguments are values
            senv = {}
            for p, a in zip(sub["params"], s["args"]):
                if a[0] in ("in", "sig", "var") or _is_object_view(a):
                    senv[p] = (lambda a=a, env=env: self.ev(a, env))
                elif a[0] == "loc" and callable(env.get(a[1])):
                    senv[p] = env[a[1]]
                else:
                    senv[p] = self.ev(a, env)
            if any(a[0] not in ("in", "sig", "var", "const", "loc") and not _is_object_view(a) for a in s["args"]):
                self.fresh = False
            if self.fresh == "ambiguous":
                raise Unspecified("first action of the process is not determined (foldable helper call before a sub-coroutine)")
            self.labels.add("sub_coroutine")
            r = yield from self.exec_block(sub["body"], senv)
            if r is not None and r[0] == "return":
                self.labels.add("sub_return")
                if s.get("bind"):
                    env[s["bind"]] = r[1]
            elif r is not None:
                raise AssertionError("break/continue escaped a sub-coroutine")
        elif k == "pass":
            pass
        else:
            raise AssertionError(f"unknown statement {k}")
        return None

    def fresh_if(self):
        # evaluating a branch condition is an action of the process: an await/while nested in a
        # branch is never "the very first action"
        self.fresh = False

    def pause(self, ident):
        self.visited_pauses.add(ident)

    def call_helper(self, h, args):
        env = dict(zip(h["params"], args))

        def run(body):
            for s in body:
                k = s["k"]
                if k == "if":
                    for c, b in s["arms"]:
                        if self.cond(c, env):
                            r = run(b)
                            if r is not None:
                                return r
                            break
                    else:
                        if s.get("else") is not None:
                            r = run(s["else"])
                            if r is not None:
                                return r
                elif k == "return":
                    self.labels.add("helper_return")
                    return ("ret", self.ev(s["e"], env))
                elif k == "bind":
                    env[s["bind"]] = self.ev(s["e"], env)
                else:
                    raise AssertionError(k)
            return None
        r = run(h["body"])
        if r is None:
            raise AssertionError("helper fell off its end")
        return r[1]

    # ------------------------------------------------------------------ one activation
    read_after_write_watch = ()

    def begin_step(self, inputs):
        self.inputs = inputs
        self.pending = {}
        self.pending_local = {}
        self.written_this_step = set()
        self.alias = getattr(self, "alias", {})
        self.local_sigs = getattr(self, "local_sigs", {})
        for name in self.push_targets:
            self.pending[name] = self.objs[name].get("default")

    def end_step(self):
        for name, v in self.pending.items():
            if name in self.push_targets and name not in self.written_this_step:
                self.labels.add("push_default_step")
            if name not in self.push_targets and v == self.sig[name]:
                pass
            self.sig[name] = v
        for name in self.sig:
            if name not in self.written_this_step and name not in self.push_targets:
                self.labels.add("hold")
        for name, v in self.pending_local.items():
            self.local_sigs[name] = v
        # aliases of locally declared signals end with the activation
        self.alias = {}

    def reset_now(self):
        """effect of an active reset in this activation"""
        for name, o in self.objs.items():
            if o.get("noreset") or o.get("default") is None:
                continue
            if o["group"] in ("outputs", "sigs"):
                self.sig[name] = o["default"]
            elif o["group"] == "vars":
                self.var[name] = o["default"]
        self.gen = None
        self.local_sigs = {}
        self.alias = {}
        # registered on_reset actions run while reset is active
        for st_ in (self.ctx.get("reset") or {}).get("on_reset") or []:
            v = self.ev(st_["e"], {})
            name = st_["t"]["name"]
            if st_["k"] in ("var", "value"):
                self.var[name] = self._overlay(self.var[name], st_["t"], v)
            else:
                self.sig[name] = self._overlay(self.sig[name], st_["t"], v)
        self.labels.add("reset")

    def step(self, inputs, reset=False):
        """one clock.  returns dict of signal values after the clock."""
        if reset:
            self.inputs = inputs
            self.alias, self.local_sigs = {}, {}
            self._env = {}
            self.reset_now()
            return dict(self.sig)
        if self.ctx.get("step_cond") is not None:
            self.inputs = inputs
            self.alias, self.local_sigs = getattr(self, "alias", {}), getattr(self, "local_sigs", {})
            if not self.cond(self.ctx["step_cond"], {}):
                self.labels.add("step_cond_false")
                return dict(self.sig)
        self.begin_step(inputs)
        kind = self.ctx["type"]
        if kind == "coro":
            if self.gen is None:
                self.gen = self._coro()
            next(self.gen)
        else:
            for _pass in range(6):
                before = dict(self.sig)
                g = self.exec_block(self.body, {})
                try:
                    next(g)
                    raise AssertionError("pause point in a non-coroutine body")
                except StopIteration:
                    pass
                if kind != "comb":
                    break
                # a combinational process is re-activated by every signal it reads, its own included: run to the fixed point
                self.end_step()
                if self.sig == before:
                    return dict(self.sig)
                self.begin_step(inputs)
            else:
                raise Unspecified("combinational process does not settle")
        self.end_step()
        return dict(self.sig)

    def _coro(self):
        while True:
            self.fresh = True
            env = {}
            r = yield from self.exec_block(self.body, env)
            if r is not None and r[0] != "return":
                raise AssertionError("break/continue at top level")
            self.labels.add("restart")
            self.pause(("end",))
            yield

    # ------------------------------------------------------------------ concurrent context
    def eval_concurrent(self, inputs):
        """body = list of assignments whose sources only read inputs and earlier targets"""
        self.inputs = inputs
        self.alias = {}
        self.local_sigs = {}
        env = {}
        for s in self.body:
            if s["k"] == "bind":
                env[s["bind"]] = self.ev(s["e"], env)
                continue
            assert s["k"] == "assign", s["k"]
            self._env = env
            v = self.ev(s["e"], env)
            self.sig[s["t"]["name"]] = self._overlay(self.sig[s["t"]["name"]], s["t"], v)
        return dict(self.sig)
