"""C01 - coroutine-to-state-machine translation is clock-accurate.

Generated `async` process bodies (awaits on conditions, await true/false, while loops with
break/continue, branches containing awaits, awaited sub-coroutines with return, plus the
sequential statement language of C03) are compiled by cohdl; the emitted state machine is
simulated by cv.vhdl and compared after EVERY clock with the same body executed directly as
a Python generator by cv/ref/seq.py under the pause rules the property states.  On top of
the drawn input sequence, a breadth-first lock-step exploration applies every input symbol
in every reachable joint state (bounded)."""
from __future__ import annotations

from hypothesis import strategies as st

from cv.gen import stmt as G
from cv.props import _stmt as S

PROPERTY = "C01"
TECHNIQUE = ("grammar-based coroutine generation (Hypothesis) + differential simulation against a generator-based reference, "
             "plus bounded lock-step state exploration over all input symbols")
RULE = (
    "case = generated async body (depth <= 3: await cond / await true / await false, while [True], break, continue, "
    "awaited sub-coroutines with return, if/elif/else and match around awaits, assignments, variables, push) + drawn input "
    "sequence of 40 clocks; every output/internal signal compared after every clock; then BFS over simulator states applying "
    "all input valuations (<= 16 symbols, else the drawn ones) with the reference replayed along each path. non-trivial = the "
    "body has a pause point nested inside if/while/sub-coroutine, the run visited >= 3 distinct pause points and at least one "
    "signal was written; distinct = hash of the spec"
)
ASSUMPTIONS = [
    "VHDL semantics as implemented by cv.vhdl (calibrated on 254 upstream ghdl benches, incl. all 30 upstream coroutine benches)",
    "pause rules: await polls from the clock after it is reached (immediately when nothing has executed since (re)start), "
    "loop entry and loop back-edge cost one clock (no clock when the loop is the first action), continue/break/return cost none, "
    "a finished coroutine restarts on the next clock; `await true` = one clock, `await false` = halt",
    "programs cohdl rejects (e.g. continue in the first state of a loop) are counted as rejected",
]


def plan(tier):
    if tier == "quick":
        return [{"kind": "hyp", "name": f"coro{i}", "examples": 30, "cap": 60} for i in range(16)]
    return [{"kind": "hyp", "name": f"coro{i}", "examples": 400, "cap": 400} for i in range(48)]


@st.composite
def _case(draw, flavor="coro", cap=60):
    spec = draw(G.design("coro", max_stmts=7, depth=3))
    stim = draw(G.stimulus(spec, 40))
    return {"spec": spec, "stim": stim, "cap": cap}


def strategy(shard):
    return _case("coro", shard.get("cap", 60))


def _nested_pause(body, nested=False):
    for s in body:
        k = s["k"]
        if k in ("await", "while", "awaitsub") and nested:
            return True
        if k == "if":
            if any(_nested_pause(b, True) for _, b in s["arms"]) or (s.get("else") and _nested_pause(s["else"], True)):
                return True
        if k == "while" and _nested_pause(s["body"], True):
            return True
        if k == "match":
            if any(_nested_pause(b, True) for _, b in s["cases"]) or (s.get("default") and _nested_pause(s["default"], True)):
                return True
    return False


def _nontrivial(spec, m, info):
    nested = _nested_pause(spec["body"]) or any(_nested_pause(sub["body"], True) for sub in spec.get("subs", []))
    return nested and len(m.visited_pauses) >= 3 and "sig_write" in m.labels


def check(case):
    return S.check_design(case, PROPERTY, explore_cap=case.get("cap", 60), nontrivial_rule=_nontrivial)


view = S.view
