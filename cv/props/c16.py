"""C16 - std timing utilities are exact to the clock.

Six families of generated wrapper entities (cv/gen/c16_designs.py), simulated on cv.vhdl and compared
clock by clock with counter-level reference models (cv/ref/c16_models.py):

  wait     std.wait_for / Waiter.wait_for: constant n 1..12, run-time n on an Unsigned[2..4] port, allow_zero
           (n = 0), std.Duration arguments on clocks that divide / do not divide; one or two consecutive waits;
           pulses before / between / after the waits measure the distance in clocks
  delay    std.delayed / DelayLine (inline, under an enable, taps, ctx= form), n 0..5, initial values, 4 element kinds
  counter  continuous_counter, constant / run-time limit, on_change, context reset
  clkdiv   ClockDivider, constant / run-time / Duration period, default_state, tick_at_start, require_enable,
           enable()/disable() sequences or a driven reset signal, callbacks
  toggle   ToggleSignal, first/second duration constant / run-time / Duration, default/first state, enable, callbacks
  debounce std.debounce, period 1..8 (and Duration), initial, input sequences

All n / period cells are enumerated (enum shards; input / enable sequences of <= L clocks are enumerated
completely inside the case), longer sequences and two-wait combinations are drawn by Hypothesis.  Run-time
periods / limits are also changed mid-run (`vary` cases: every step change a -> b at every phase, and drawn
sequences of period values).
"""
from __future__ import annotations

import builtins
import itertools

from hypothesis import strategies as st

from cv.gen import c16_designs as G
from cv.gen.c1416_common import SimError, build_cached, drop_cached
from cv.harness.runner import Outcome, canon
from cv.ref import c16_models as M

PROPERTY = "C16"
TECHNIQUE = (
    "model-based property testing: complete enumeration of the n/period/option cells with completely enumerated "
    "short input/enable sequences, plus Hypothesis-drawn long sequences and wait combinations, of generated wrapper "
    "entities simulated on cv.vhdl against counter-level reference models"
)
RULE = (
    "case = (family, configuration cell, input/enable/start sequence | 'all binary sequences of length L'); "
    "non-trivial = wait: a completed wait with n >= 2 or a run-time n; delay: n >= 1 and more clocks than n+1; "
    "counter: the counter wrapped; clkdiv/toggle: period >= 2 or run-time period and (with enable control) an "
    "enable/disable edge inside a period, or a run-time period lowered while the counter is inside the period; "
    "debounce: the output changed; distinct = case hash"
)
ASSUMPTIONS = [
    "VHDL semantics as implemented by cv.vhdl (calibrated on the upstream cocotb benches)",
    "wait_for: 'reached' is the clock in which the statement before the wait executes (a pulse output assigned right "
    "before the await); 'resumes n steps later' = the statement after the await executes n clocks later (this is how "
    "upstream test_wait_for.py measures it); when a coroutine reaches the wait is not predicted (property C01)",
    "run-time n of wait_for is held constant during one run; run-time periods/limits of continuous_counter, "
    "ClockDivider and ToggleSignal are additionally CHANGED during the run (all step changes a -> b at every counter "
    "phase, plus drawn sequences of period values).  Documented behaviour for a changed period: ToggleSignal = "
    "upstream ToggleMock of test_toggle_signal_02.py (that bench changes both intervals at random times: the period "
    "counter wraps as soon as it is at or above the current end value), compared per tick after a reset has been "
    "seen; for the raw continuous_counter and for ClockDivider a lowered limit/period is documented nowhere, so only "
    "what is determined is asserted: exact successor while the counter is within the limit / exact pulse spacing "
    "once a pulse has occurred, and resumption within one new period (counter <= limit after limit+1 ticks, a pulse "
    "within the first D ticks of an unchanged period D)",
    "Duration arguments: expected tick count = duration / clock period when that is an integer; when it is not, a "
    "rejection is expected and an accepted design is `unspecified` (wait_for documents no tolerance)",
    "delayed/DelayLine: semantics of the DelayLine docstring and its example table (element 0 is the input, every "
    "evaluation shifts, values read are those before the clock edge); elements without `initial` are undefined until "
    "shifted in and are not compared",
    "ClockDivider: period/one-cycle pulse from the docstring; phase of the first pulse, default_state inversion, "
    "tick_at_start and the behaviour while disabled are taken from the upstream MockClkDivider "
    "(test_clock_divider_01.py) as the documented behaviour; rising()/falling()/callbacks in the sample in which the "
    "state shows the new value (same mock); the sample of a transition forced by disable/reset is not compared for "
    "rising/falling",
    "ToggleSignal: docstring ('first_state defines the state when starting after a reset', durations = how long the "
    "signal remains in each state, default_state while disabled); rising/falling/callbacks checked against the "
    "observed state sequence (one-step pulses exactly at the transitions)",
    "debounce: docstring + upstream MockDebounce (test_debounce.py): the output register is updated in the tick in "
    "which the counter is *found* at period / 0 (one tick after it arrived there, and only if the input still points "
    "the same way); the stricter reading 'in the tick in which the counter arrives' is only counted "
    "(counter debounce_strict_reading_differs)",
    "context reset (cells `ctx_reset`): the SequentialContext the generator is made from has its own std.Reset "
    "(active-high / active-low, synchronous / asynchronous); the stimulus holds it inactive according to its polarity "
    "and pulses it; while it is active the generator is in its reset state (default_state, no pulses) and the "
    "enable register of the enable()/disable() process returns to its initial value; asynchronous resets are only "
    "combined with drive none/signal, where they are indistinguishable from synchronous ones at the clock samples",
    "enable()/disable() are called from a separate clocked process (effective one clock later); alternatively the "
    "reset signal returned by get_reset_signal() is driven from an input as upstream test_toggle_signal_01.py does",
]
LEVEL = "exploration"

# Length of the very first ToggleSignal phase after a reset/start: "docstring" asserts the docstring (first_duration
# ticks in first_state; the implementation and the upstream ToggleMock give first_duration-1 -> known finding
# C16-toggle-first-phase-one-tick-short); "unspecified" only counts it (label toggle:first_phase_one_tick_short).
TOGGLE_FIRST_PHASE = "docstring"


# ======================================================================================= cells
def _wait_cells(tier):
    cells = []
    for api in ("std", "waiter"):
        for n in range(1, 13):
            for wm in ({n, 12} if api == "waiter" else {None}):
                cells.append({"waits": [{"api": api, "kind": "const", "n": n}], "waiter_max": wm})
        for n in (0, 1, 2, 5):
            cells.append({"waits": [{"api": api, "kind": "const", "n": n, "allow_zero": True}], "waiter_max": 7})
        for pw in (2, 3, 4):
            for az in (False, True):
                cells.append({"waits": [{"api": api, "kind": "rt", "allow_zero": az}], "port_width": pw,
                              "waiter_max": (1 << pw) - 1})
        for f, dur in [(100, {"unit": "ns", "val": 10}), (100, {"unit": "ns", "val": 30}), (100, {"unit": "ps", "val": 20000}),
                       (100, {"unit": "us", "val": "0.07"}), (125, {"unit": "ns", "val": 40}), (125, {"unit": "ns", "val": 8}),
                       (250, {"unit": "ns", "val": 44}), (40, {"unit": "ns", "val": 100}),
                       (125, {"unit": "ns", "val": 30}), (3, {"unit": "us", "val": 1}), (100, {"unit": "ns", "val": 25}),
                       (7, {"unit": "us", "val": 1}), (100, {"unit": "ns", "val": 4})]:
            cells.append({"waits": [{"api": api, "kind": "dur", "dur": dur}], "freq_mhz": f,
                          "waiter_max": {"unit": "us", "val": 1} if api == "waiter" else None})
    return cells


def _delay_cells(tier):
    cells = []
    elems = list(G.ELEM)
    i = 0
    for n in range(0, 6):
        for usage in ("inline", "inline_en", "line", "ctx_arg"):
            for init in ("none", "Null", "Full", "val"):
                for e in (elems if tier != "quick" else [elems[i % 4]]):
                    cells.append({"elem": e, "n": n, "init": init, "usage": usage})
                i += 1
    return cells


def _counter_cells(tier):
    cells = []
    for lim in range(0, 10):
        for reset in (False, True):
            cells.append({"limit_kind": "const", "limit": lim, "reset": reset, "callback": True})
    cells.append({"limit_kind": "const", "limit": 5, "reset": False, "callback": False})
    for pw in (2, 3, 4):
        for reset in (False, True):
            cells.append({"limit_kind": "rt", "port_width": pw, "reset": reset, "callback": True})
    return cells


_CTX_RESETS = ["high", "low", "high_async", "low_async"]
_DRIVES = [("none", False), ("method", False), ("method", True), ("signal", True), ("none", True), ("signal", False)]


def _clkdiv_cells(tier):
    cells = []
    i = 0
    for d in range(2, 10):
        for default in (False, True):
            for tick in (False, True):
                for drive, req in (_DRIVES[:4] if tier == "quick" else _DRIVES):
                    cells.append({"comp": "clkdiv", "p0": {"kind": "const", "n": d}, "default_state": default,
                                  "tick_at_start": tick, "require_enable": req, "drive": drive, "callbacks": i % 2 == 0})
                    i += 1
    for pw in (2, 3):
        for default in (False, True):
            for drive, req in _DRIVES[:4]:
                cells.append({"comp": "clkdiv", "p0": {"kind": "rt"}, "port_width": pw, "default_state": default,
                              "tick_at_start": False, "require_enable": req, "drive": drive, "callbacks": True})
    cells.append({"comp": "clkdiv", "p0": {"kind": "rt"}, "port_width": 3, "default_state": False,
                  "tick_at_start": True, "require_enable": False, "drive": "none", "callbacks": False})
    # the context the divider is made from has its own reset: active-high / active-low, synchronous / asynchronous
    for d in (2, 5):
        for default in (False, True):
            for drive, req in (("none", False), ("method", False), ("signal", True)):
                for cr in _CTX_RESETS:
                    if not (cr.endswith("async") and drive == "method"):
                        cells.append({"comp": "clkdiv", "p0": {"kind": "const", "n": d}, "default_state": default,
                                      "tick_at_start": d == 5 and default, "require_enable": req, "drive": drive,
                                      "callbacks": True, "ctx_reset": cr})
    for f, dur in [(100, {"unit": "ns", "val": 30}), (125, {"unit": "ns", "val": 40}), (125, {"unit": "ns", "val": 30}),
                   (3, {"unit": "us", "val": 1})]:
        cells.append({"comp": "clkdiv", "p0": {"kind": "dur", "dur": dur}, "freq_mhz": f, "default_state": False,
                      "tick_at_start": False, "require_enable": False, "drive": "method", "callbacks": True})
    return cells


def _toggle_cells(tier):
    pairs = [(f, None) for f in range(1, 10)]
    pairs += [(a, b) for a in (0, 1, 2, 3, 5) for b in (0, 1, 2, 3, 5) if a + b]
    pairs += [(9, 1), (1, 9), (4, 7)]
    cells = []
    combos = [(fs, ds, dr) for fs in (False, True) for ds in (False, True) for dr in _DRIVES[:4]]
    i = 0
    for (a, b) in pairs:
        mine = combos if tier != "quick" else [combos[(i * 3 + j * 5) % len(combos)] for j in range(3)]
        for fs, ds, (drive, req) in mine:
            cells.append({"comp": "toggle", "p0": {"kind": "const", "n": a},
                          "p1": None if b is None else {"kind": "const", "n": b}, "first_state": fs,
                          "default_state": ds, "require_enable": req, "drive": drive, "callbacks": i % 2 == 0})
        i += 1
    for (a, b), fs, ds in [((1, 1), True, False), ((3, 2), False, True), ((4, None), True, True)]:
        for drive, req in (("none", False), ("method", False), ("signal", True)):
            for cr in _CTX_RESETS:
                if not (cr.endswith("async") and drive == "method"):
                    cells.append({"comp": "toggle", "p0": {"kind": "const", "n": a},
                                  "p1": None if b is None else {"kind": "const", "n": b}, "first_state": fs,
                                  "default_state": ds, "require_enable": req, "drive": drive, "callbacks": True,
                                  "ctx_reset": cr})
    for pw in (2, 3):
        for fs in (False, True):
            for drive, req in (("signal", True), ("method", False)):
                cells.append({"comp": "toggle", "p0": {"kind": "rt"}, "p1": {"kind": "rt"}, "port_width": pw,
                              "first_state": fs, "default_state": False, "require_enable": req, "drive": drive,
                              "callbacks": True})
    cells.append({"comp": "toggle", "p0": {"kind": "rt"}, "p1": {"kind": "const", "n": 2}, "port_width": 3,
                  "first_state": False, "default_state": True, "require_enable": False, "drive": "method", "callbacks": True})
    cells.append({"comp": "toggle", "p0": {"kind": "const", "n": 3}, "p1": {"kind": "rt"}, "port_width": 2,
                  "first_state": True, "default_state": False, "require_enable": False, "drive": "none", "callbacks": False})
    for f, d0, d1 in [(100, {"unit": "ns", "val": 30}, None), (100, {"unit": "ns", "val": 20}, {"unit": "ps", "val": 10000}),
                      (125, {"unit": "ns", "val": 30}, None)]:
        cells.append({"comp": "toggle", "p0": {"kind": "dur", "dur": d0}, "p1": None if d1 is None else {"kind": "dur", "dur": d1},
                      "freq_mhz": f, "first_state": False, "default_state": False, "require_enable": False,
                      "drive": "signal", "callbacks": False})
    return cells


def _debounce_cells(tier):
    cells = [{"period": p, "initial": ini} for p in range(1, 9) for ini in (False, True)]
    for f, dur in [(100, {"unit": "ns", "val": 30}), (125, {"unit": "ns", "val": 56}), (125, {"unit": "ns", "val": 30})]:
        cells.append({"period": {"dur": dur}, "freq_mhz": f, "initial": False})
    return cells


CELLS = {"wait": _wait_cells, "delay": _delay_cells, "counter": _counter_cells, "clkdiv": _clkdiv_cells,
         "toggle": _toggle_cells, "debounce": _debounce_cells}


def plan(tier):
    quick = tier == "quick"
    shards = []
    L = {"wait": 0, "delay": 6 if quick else 8, "counter": 7 if quick else 10, "clkdiv": 8 if quick else 10,
         "toggle": 8 if quick else 10, "debounce": 10 if quick else 12}
    nsh = {"wait": 3, "delay": 3, "counter": 1, "clkdiv": 4, "toggle": 3, "debounce": 1}
    for fam, fn in CELLS.items():
        cells = fn(tier)
        k = nsh[fam] * (1 if quick else 3)
        for i in range(k):
            mine = cells[i::k]
            if mine:
                shards.append({"kind": "enum", "name": f"{fam}_cells{i}", "family": fam, "cells": mine, "L": L[fam]})
    # drawn long sequences / wait combinations
    per = 14 if quick else 200
    for fam, fn in CELLS.items():
        cells = fn(tier)
        k = 1 if quick else 4
        if fam in ("clkdiv", "toggle", "delay") and quick:
            k = 2
        for i in range(k):
            mine = cells[i::k]
            shards.append({"kind": "hyp", "name": f"{fam}_draw{i}", "family": fam, "cells": mine,
                           "examples": max(60, (per * len(mine)) // (3 if quick else 1))})
    shards.append({"kind": "hyp", "name": "wait_pairs", "family": "wait2", "examples": 120 if quick else 3000})
    return shards


# ======================================================================================= strategies
def _bits(maxlen=70, minlen=4):
    seg = st.tuples(st.integers(0, 1), st.integers(1, 12))
    return st.lists(seg, min_size=1, max_size=12).map(
        lambda segs: [v for v, k in segs for _ in range(k)][:maxlen]).filter(lambda l: len(l) >= minlen)


def _wait_spec():
    const = st.builds(lambda api, n: {"api": api, "kind": "const", "n": n}, st.sampled_from(["std", "waiter"]),
                      st.integers(1, 12))
    constz = st.builds(lambda api, n: {"api": api, "kind": "const", "n": n, "allow_zero": True},
                       st.sampled_from(["std", "waiter"]), st.integers(0, 4))
    rt = st.builds(lambda api, az: {"api": api, "kind": "rt", "allow_zero": az}, st.sampled_from(["std", "waiter"]),
                   st.booleans())
    return st.one_of(const, constz, rt)


def strategy(shard):
    fam = shard["family"]
    if fam == "wait2":
        def mk(w0, w1, pw, start, v0, v1):
            return {"kind": "wait", "cfg": {"waits": [w0, w1], "port_width": pw, "waiter_max": max(12, (1 << pw) - 1)},
                    "start": start, "n0": v0 % (1 << pw), "n1": v1 % (1 << pw)}
        return st.builds(mk, _wait_spec(), _wait_spec(), st.integers(2, 4), _bits(), st.integers(0, 15), st.integers(0, 15))
    cells = shard["cells"]
    cell = st.sampled_from(cells)
    if fam == "wait":
        return st.builds(lambda c, start, v0: {"kind": "wait", "cfg": c, "start": start,
                                               "n0": v0 % (1 << c.get("port_width", 3)), "n1": 1},
                         cell, _bits(), st.integers(0, 15))
    if fam == "delay":
        seq = st.lists(st.tuples(st.integers(0, 7), st.integers(0, 1)), min_size=3, max_size=40)
        return st.builds(lambda c, s: {"kind": "delay", "cfg": c, "seq": [list(x) for x in s]}, cell, seq)
    rt_cells = [c for c in cells if _is_rt_cell(fam, c) and c.get("drive", "x") != "none" and not c.get("tick_at_start")] \
        if fam in ("counter", "clkdiv", "toggle") else []
    if rt_cells:
        def mk_vary(c, segs):
            pw = c.get("port_width", 3)
            lo = 0 if fam == "counter" else 1
            ticks = [[1, 1, 1]] if fam == "counter" else [[0, 1, 1], [0, 1, 1]]
            for en, a, b_, k in segs:
                a = lo + a % ((1 << pw) - lo)
                b_ = lo + b_ % ((1 << pw) - lo)
                if fam == "counter":
                    ticks += [[0 if en else 1, a, 0]] * k
                else:
                    ticks += [[en, a, b_]] * k
            return {"kind": fam, "cfg": c, "vary": "ticks", "ticks": ticks[:90]}
        seg = st.tuples(st.sampled_from([1, 1, 1, 1, 0]), st.integers(0, 15), st.integers(0, 15), st.integers(1, 11))
        vary = st.builds(mk_vary, st.sampled_from(rt_cells), st.lists(seg, min_size=2, max_size=12))
    else:
        vary = None
    if fam == "counter":
        base = st.builds(lambda c, r, lim: {"kind": "counter", "cfg": c, "rst": r, "lim": lim % (1 << c.get("port_width", 3))},
                         cell, _bits(), st.integers(0, 15))
        return st.one_of(base, vary, vary) if vary is not None else base
    if False:
        return st.builds(lambda c, r, lim: {"kind": "counter", "cfg": c, "rst": r, "lim": lim % (1 << c.get("port_width", 3))},
                         cell, _bits(), st.integers(0, 15))
    if fam in ("clkdiv", "toggle"):
        crs = st.lists(st.sampled_from([0, 0, 0, 0, 0, 1]), min_size=5, max_size=40)
        base = st.builds(lambda c, en, d0, d1, cr: {"kind": fam, "cfg": c, "en": en,
                                                    "d0": d0 % (1 << c.get("port_width", 3)),
                                                    "d1": d1 % (1 << c.get("port_width", 3)), "cr": cr},
                         cell, _bits(), st.integers(0, 15), st.integers(0, 15), crs)
        return st.one_of(base, base, vary) if vary is not None else base
    if fam == "debounce":
        return st.builds(lambda c, s: {"kind": "debounce", "cfg": c, "inp": s}, cell, _bits(80))
    raise ValueError(fam)


def enumerate(shard):  # noqa: A001 - name fixed by the module contract
    fam = shard["family"]
    for c in shard["cells"]:
        if fam == "wait":
            pw = c.get("port_width", 3)
            vals = [0] if c["waits"][0]["kind"] != "rt" else list(range(0, 1 << pw))
            for v in vals:
                yield {"kind": "wait", "cfg": c, "start": "held", "n0": v, "n1": 1}
                yield {"kind": "wait", "cfg": c, "start": "pulsed", "n0": v, "n1": 1}
        elif fam in ("clkdiv", "toggle") and (c["p0"]["kind"] == "rt" or (c.get("p1") or {}).get("kind") == "rt"):
            pw = c.get("port_width", 3)
            for d0 in range(1 << pw):
                d1s = range(1 << pw) if (c.get("p1") or {}).get("kind") == "rt" and c["p0"]["kind"] == "rt" else [1]
                for d1 in d1s:
                    yield {"kind": fam, "cfg": c, "en": "all", "L": max(4, shard["L"] - 3), "d0": d0, "d1": d1}
            if c.get("drive") != "none" and not c.get("tick_at_start"):
                yield {"kind": fam, "cfg": c, "vary": "steps"}
        elif fam == "counter" and c["limit_kind"] == "rt":
            for lim in range(1 << c["port_width"]):
                yield {"kind": fam, "cfg": c, "rst": "all", "L": shard["L"], "lim": lim}
            yield {"kind": fam, "cfg": c, "vary": "steps"}
        else:
            key = {"delay": "seq", "counter": "rst", "clkdiv": "en", "toggle": "en", "debounce": "inp"}[fam]
            yield {"kind": fam, "cfg": c, key: "all", "L": shard["L"], "d0": 1, "d1": 1, "lim": 0}


# ======================================================================================= helpers
def _build(kind, cfg, init):
    key = canon([kind, cfg])
    return key, build_cached(key, lambda: G.render(kind, cfg), init=init, limit=200)


def _n_class(n):
    return str(n) if n <= 2 else ">=3"


def _dur_expect(p, cfg):
    """-> (ticks | None, known) for a period/wait spec of kind dur"""
    return M.ticks_of(p["dur"], cfg["freq_mhz"])


def _status_early(out, b, fam):
    out.labels.append(f"{fam}:{b.status}")
    if b.status != "ok":
        out.status = b.status
        if b.status == "blocked_by_static":
            out.labels.append("static:" + b.info.split(":")[0])
        return True
    return False


def _sim_fail(out, key, e, sig):
    drop_cached(key)
    out.status = "blocked"
    out.labels.append("blocked:sim_" + e.kind)


# ======================================================================================= wait
def _check_wait(case, out):
    cfg = case["cfg"]
    ws = cfg["waits"]
    pw = cfg.get("port_width", 3)
    vals = [case["n0"], case["n1"]]
    ns = []
    expect_reject = False
    precond_ok = True
    for i, w in builtins.enumerate(ws):
        if w["kind"] == "const":
            n = w["n"]
        elif w["kind"] == "rt":
            n = vals[i]
        else:
            n = _dur_expect(w, cfg)
            if n is None:
                expect_reject = True
                n = 1
        if n == 0 and not w.get("allow_zero"):
            precond_ok = False
        if w["api"] == "waiter":
            wm = cfg["waiter_max"]
            wmax = M.ticks_of(wm, cfg["freq_mhz"]) if isinstance(wm, dict) else wm
            if wmax is None or n > wmax:
                precond_ok = False
        ns.append(n)
    if not precond_ok:
        out.status = "unspecified"
        out.labels.append("wait:precondition_excluded")
        return
    key, b = _build("wait", cfg, {"clk": 0, "start": 0, "n0": 0, "n1": 0})
    if expect_reject:
        out.labels.append("wait:duration_not_dividing:" + b.status)
        if b.status == "ok":
            out.status = "unspecified"
        else:
            out.status = b.status
        return
    if _status_early(out, b, "wait"):
        return
    sim = b.sim
    total = sum(ns)
    if case["start"] == "held":
        start = [1] * (3 * (total + 2) + 4)
    elif case["start"] == "pulsed":
        start = ([1] + [0] * (total + 2)) * 2 + [0, 1, 1] + [0] * (total + 2)
    else:
        start = list(case["start"]) + [0] * (total + 2)
    mon = M.WaitMonitor(ns)
    sig = None
    try:
        for t, s_ in builtins.enumerate(start):
            sim.clock("clk", start=s_, n0=vals[0], n1=vals[1])
            bad = mon.step(sim.get("o_before"), sim.get("o_mid") if len(ws) == 2 else 0, sim.get("o_after"))
            if bad:
                idx = 0 if bad[0][0] == "resume_1" else 1
                w = ws[idx]
                sig = {"util": "wait_for", "api": w["api"], "n_kind": w["kind"], "n": _n_class(ns[idx]),
                       "allow_zero": bool(w.get("allow_zero")) and ns[idx] == 0, "position": idx, "obs": "resume_distance"}
                out.add(sig, f"waits {ws} with n = {ns}: " + "; ".join(x for _o, x in bad)
                        + f" (reached at clocks {sorted(e - total for e in mon.exp_after)})")
                break
    except SimError as e:
        _sim_fail(out, key, e, sig)
        return
    for i, w in builtins.enumerate(ws):
        out.labels.append(f"wait:{w['api']}:{w['kind']}:n={_n_class(ns[i])}" + (":allow_zero" if w.get("allow_zero") else ""))
    out.counters["wait_rounds"] = mon.rounds
    out.nontrivial = mon.rounds > 0 and any(n >= 2 or w["kind"] == "rt" for n, w in zip(ns, ws))


# ======================================================================================= delay
_INIT_VAL = {"bit": 1, "bv3": 5, "u3": 5, "s3": -3}


def _delay_init(cfg):
    e = cfg["elem"]
    _T, w, signed = G.ELEM[e]
    if cfg["init"] == "none":
        return None
    if cfg["init"] == "Null":
        return 0
    if cfg["init"] == "Full":
        return -1 if signed else (1 << w) - 1
    return _INIT_VAL[e]


def _delay_val(cfg, v):
    _T, w, signed = G.ELEM[cfg["elem"]]
    v &= (1 << w) - 1
    if signed and v >= 1 << (w - 1):
        v -= 1 << w
    return v


def _check_delay(case, out):
    cfg = case["cfg"]
    key, b = _build("delay", cfg, {"clk": 0, "en": 0, "inp": 0})
    if _status_early(out, b, "delay"):
        return
    sim = b.sim
    n = cfg["n"]
    usage = cfg["usage"]
    if case["seq"] == "all":
        L = case["L"]
        if usage == "inline_en":
            seqs = ([list(z) for z in zip(a, e)] for a in itertools.product((2, 5), repeat=L - 1)
                    for e in itertools.product((0, 1), repeat=L - 1))
        else:
            seqs = ([[a_, 1] for a_ in a] for a in itertools.product((2, 5), repeat=L + 1))
    else:
        seqs = [case["seq"]]
    runs = 0
    nontrivial = False
    try:
        for seq in seqs:
            runs += 1
            sim.restore(b.snap0)
            m = M.DelayModel(n, _delay_init(cfg))
            for t, (raw, en) in builtins.enumerate(seq):
                v = _delay_val(cfg, raw)
                ev = bool(en) if usage == "inline_en" else True
                m.step(v, evaluated=ev, shift=ev)
                sim.clock("clk", inp=v, en=en)
                bad = []
                if sim.get("o_ref") != m.o_ref:
                    bad.append(("reference", f"o_ref={sim.get('o_ref')} expected {m.o_ref}"))
                if m.o_d is not None and sim.get("o_d") != m.o_d:
                    bad.append(("delayed", f"delayed output = {sim.get('o_d')}, expected {m.o_d}"))
                if usage in ("line", "ctx_arg"):
                    for k in range(n + 1):
                        if m.taps.get(k) is not None and sim.get(f"o_t{k}") != m.taps[k]:
                            bad.append(("tap", f"line[{k}] = {sim.get(f'o_t{k}')}, expected {m.taps[k]}"))
                if bad:
                    out.add({"util": "delayed", "usage": usage, "n": _n_class(n), "obs": bad[0][0]},
                            f"{cfg}, inputs (value, en) {seq[:t + 1]}: clock {t}: " + "; ".join(x for _o, x in bad))
                    return
            if n >= 1 and len(seq) > n + 1:
                nontrivial = True
    except SimError as e:
        _sim_fail(out, key, e, None)
        return
    out.counters["sequences"] = runs
    out.labels.append(f"delay:{usage}:n={_n_class(n)}:init={cfg['init']}")
    out.labels.append("delay:elem=" + cfg["elem"])
    out.nontrivial = nontrivial


# ======================================================================================= counter
def _check_counter(case, out):
    if case.get("vary"):
        return _check_vary(case, out)
    cfg = case["cfg"]
    key, b = _build("counter", cfg, {"clk": 0, "rst": 0, "lim": 0})
    if _status_early(out, b, "counter"):
        return
    sim = b.sim
    rt = cfg["limit_kind"] == "rt"
    limit = case["lim"] if rt else cfg["limit"]
    if case["rst"] == "all":
        if cfg.get("reset"):
            seqs = (list(bits) + [0] * (limit + 2) for bits in itertools.product((0, 1), repeat=case["L"]))
        else:
            seqs = [[0] * (3 * (limit + 2))]
    else:
        seqs = [case["rst"]]
    wrapped = False
    runs = 0
    try:
        for seq in seqs:
            runs += 1
            sim.restore(b.snap0)
            m = M.CounterModel()
            for t, r in builtins.enumerate(seq):
                r = r if cfg.get("reset") else 0
                before = m.v
                exp = m.step(limit, reset=bool(r))
                wrapped = wrapped or (not r and exp == 0 and before == limit and limit > 0)
                sim.clock("clk", rst=r, lim=limit)
                bad = []
                if sim.get("o_cnt") != exp:
                    bad.append(("count", f"counter = {sim.get('o_cnt')}, expected {exp}"))
                if sim.get("o_cb") != exp:
                    bad.append(("on_change", f"value passed to on_change = {sim.get('o_cb')}, expected {exp}"))
                if bad:
                    out.add({"util": "continuous_counter", "limit_kind": cfg["limit_kind"], "limit": _n_class(limit),
                             "reset": bool(cfg.get("reset")), "obs": bad[0][0]},
                            f"{cfg} limit={limit} reset sequence {seq[:t + 1]}: clock {t}: " + "; ".join(x for _o, x in bad))
                    return
    except SimError as e:
        _sim_fail(out, key, e, None)
        return
    out.counters["sequences"] = runs
    out.labels.append(f"counter:{cfg['limit_kind']}:limit={_n_class(limit)}")
    out.nontrivial = wrapped


# ======================================================================================= clkdiv / toggle
def _period(p, port_val, cfg):
    """-> (ticks, status) status in ok | reject_expected"""
    if p["kind"] == "const":
        return p["n"], "ok"
    if p["kind"] == "rt":
        return port_val, "ok"
    n = M.ticks_of(p["dur"], cfg["freq_mhz"])
    return (n, "ok") if n is not None else (None, "reject_expected")


def _en_sequences(case, cfg):
    if case["en"] == "all":
        if cfg["drive"] == "none":
            return [[1] * (case["L"] * 4)]
        return (list(bits) + [1] * 6 for bits in itertools.product((0, 1), repeat=case["L"]))
    seq = list(case["en"])
    return [seq]


def _check_gen(case, out):
    if case.get("vary"):
        return _check_vary(case, out)
    cfg = case["cfg"]
    fam = case["kind"]
    d0, st0 = _period(cfg["p0"], case["d0"], cfg)
    if fam == "toggle":
        d1, st1 = (d0, st0) if cfg.get("p1") is None else _period(cfg["p1"], case["d1"], cfg)
    else:
        d1, st1 = 0, "ok"
    ctx_reset = cfg.get("ctx_reset")
    low = bool(ctx_reset) and ctx_reset.startswith("low")
    key, b = _build(fam, cfg, {"clk": 0, "en": 0, "dis": 1 if cfg.get("require_enable") else 0, "d0": 1, "d1": 1,
                               "rst": 1 if low else 0})  # the context reset starts inactive according to its polarity
    if "reject_expected" in (st0, st1):
        out.labels.append(f"{fam}:duration_not_dividing:{b.status}")
        out.status = "unspecified" if b.status == "ok" else b.status
        return
    # documented preconditions
    if fam == "clkdiv":
        if (cfg["p0"]["kind"] != "rt" and d0 < 2) or d0 < 1:
            out.labels.append(f"{fam}:period_precondition:{b.status}")
            out.status = "unspecified" if b.status == "ok" else b.status
            return
    else:
        if d0 + d1 == 0:
            out.labels.append(f"{fam}:period_precondition:{b.status}")
            out.status = "unspecified" if b.status == "ok" else b.status
            return
    if _status_early(out, b, fam):
        return
    sim = b.sim
    drive = cfg["drive"]
    default = bool(cfg.get("default_state"))
    cb = bool(cfg.get("callbacks"))
    base = {"util": "ClockDivider" if fam == "clkdiv" else "ToggleSignal",
            "period_kind": cfg["p0"]["kind"] + ("" if fam == "clkdiv" or cfg.get("p1") is None else "+" + cfg["p1"]["kind"]),
            "enable_ctl": drive != "none"}
    runs = 0
    edge_inside = False
    ctx_resets = 0
    if ctx_reset:
        base = dict(base, ctx_reset=ctx_reset)
    try:
        for seq in _en_sequences(case, cfg):
            runs += 1
            sim.restore(b.snap0)
            rl = M.ResetLine(drive, cfg.get("require_enable"))
            if fam == "clkdiv":
                m = M.ClkDivModel(default, cfg.get("tick_at_start"))
            obs_states, stretch_start = [], None
            prev_state = default
            for t, en in builtins.enumerate(seq):
                dis = 1 - en
                # activity of the context's own reset in this clock (stimulus respects the configured polarity)
                if not ctx_reset:
                    ca = 0
                elif case.get("cr", "std") == "std":
                    ca = int(t in (0, 5))
                else:
                    ca = case["cr"][t % len(case["cr"])]
                ctx_resets += ca
                reset = rl.at_edge(en, dis, bool(ca))
                sim.clock("clk", en=en, dis=dis, d0=case["d0"], d1=case["d1"], rst=(1 - ca) if low else ca)
                s_, r_, f_ = sim.get("o_state"), sim.get("o_rise"), sim.get("o_fall")
                cr, cf = sim.get("o_cbr"), sim.get("o_cbf")
                bad = []
                if fam == "clkdiv":
                    if reset and m.k % max(d0, 1) != 0:
                        edge_inside = True
                    m.step(d0, reset)
                    if s_ != int(m.state):
                        bad.append(("state", f"state = {s_}, expected {int(m.state)}"))
                    elif not m.reset_transition:
                        if r_ != int(m.rising):
                            bad.append(("rising", f"rising() = {r_}, expected {int(m.rising)}"))
                        if f_ != int(m.falling):
                            bad.append(("falling", f"falling() = {f_}, expected {int(m.falling)}"))
                        if cb and cr != int(m.rising):
                            bad.append(("on_rising", f"on_rising called = {cr}, expected {int(m.rising)}"))
                        if cb and cf != int(m.falling):
                            bad.append(("on_falling", f"on_falling called = {cf}, expected {int(m.falling)}"))
                    if bad:
                        sg = dict(base, tick_at_start=bool(cfg.get("tick_at_start")), default_state=default, obs=bad[0][0])
                        out.add(sg, f"{cfg} period={d0} enable sequence {seq[:t + 1]}: clock {t}: " + "; ".join(x for _o, x in bad))
                        return
                else:
                    if reset:
                        if obs_states:
                            if len(obs_states) % max(d0 + d1, 1):
                                edge_inside = True
                            if _toggle_stretch(out, base, cfg, case, d0, d1, obs_states, seq, t):
                                return
                        obs_states = []
                        forced = prev_state != default
                        if s_ != int(default):
                            bad.append(("state_disabled", f"state = {s_} while disabled/reset, default_state = {int(default)}"))
                        elif not forced and (r_ or f_ or (cb and (cr or cf))):
                            bad.append(("pulse_disabled", f"rising/falling/callback = {r_}/{f_}/{cr}/{cf} while disabled"))
                    else:
                        obs_states.append(s_)
                        rise = int((not prev_state) and bool(s_))
                        fall = int(prev_state and not s_)
                        if r_ != rise:
                            bad.append(("rising", f"rising() = {r_} but the state went {int(prev_state)} -> {s_}"))
                        if f_ != fall:
                            bad.append(("falling", f"falling() = {f_} but the state went {int(prev_state)} -> {s_}"))
                        if cb and cr != rise:
                            bad.append(("on_rising", f"on_rising called = {cr} but the state went {int(prev_state)} -> {s_}"))
                        if cb and cf != fall:
                            bad.append(("on_falling", f"on_falling called = {cf} but the state went {int(prev_state)} -> {s_}"))
                    if s_ is None:
                        bad.append(("state", "state undefined"))
                    if bad:
                        out.add(dict(base, obs=bad[0][0]), f"{cfg} first={d0} second={d1} enable sequence {seq[:t + 1]}: clock {t}: "
                                + "; ".join(x for _o, x in bad))
                        return
                    prev_state = bool(s_)
            if fam == "toggle" and obs_states:
                if _toggle_stretch(out, base, cfg, case, d0, d1, obs_states, seq, len(seq)):
                    return
    except SimError as e:
        _sim_fail(out, key, e, None)
        return
    out.counters["sequences"] = runs
    per = d0 if fam == "clkdiv" else d0 + d1
    out.labels.append(f"{fam}:{base['period_kind']}:drive={drive}:req={int(bool(cfg.get('require_enable')))}")
    out.labels.append(f"{fam}:period={_n_class(per)}")
    if edge_inside:
        out.labels.append(f"{fam}:edge_inside_period")
    if ctx_reset:
        out.labels.append(f"{fam}:ctx_reset={ctx_reset}")
    out.nontrivial = (per >= 2 or "rt" in base["period_kind"]) and (drive == "none" or edge_inside or ctx_resets > 0)


def _toggle_stretch(out, base, cfg, case, first, second, obs, seq, t_end):
    """Compare one enabled stretch with the docstring sequence.  Returns True when a finding was added."""
    fs = bool(cfg.get("first_state"))
    exp = M.toggle_expected(first, second, fs, len(obs))
    got = [bool(x) for x in obs]
    if got == exp:
        return False
    if first >= 1 and got == M.toggle_expected(first, second, fs, len(obs), short_first=True):
        out.counters["toggle_first_phase_one_tick_short"] = out.counters.get("toggle_first_phase_one_tick_short", 0) + 1
        if TOGGLE_FIRST_PHASE != "docstring":
            if "toggle:first_phase_one_tick_short" not in out.labels:
                out.labels.append("toggle:first_phase_one_tick_short")
            return False
        if any(f["signature"].get("obs") == "first_phase" for f in out.findings):
            return False  # reported once per case; the rest of the case is still checked
        out.add({"util": "ToggleSignal", "obs": "first_phase", "kind": "one_tick_short"},
                f"{cfg} first={first} second={second}: after the reset is released the first phase lasts {first - 1} instead "
                f"of {first} ticks (all later phases are exact): states {[int(x) for x in got]}, "
                f"docstring says {[int(x) for x in exp]} (enable sequence {seq[:t_end]})")
        return False
    i = next(i for i, (a, b) in builtins.enumerate(zip(got, exp)) if a != b)
    out.add(dict(base, obs="state"),
            f"{cfg} first={first} second={second}: tick {i} after release: states {[int(x) for x in got]}, expected "
            f"{[int(x) for x in exp]} (enable sequence {seq[:t_end]})")
    return True



# ======================================================================================= run-time periods changing mid-run
def _is_rt_cell(fam, c):
    if fam == "counter":
        return c["limit_kind"] == "rt"
    return c["p0"]["kind"] == "rt" or (c.get("p1") or {}).get("kind") == "rt"


def _vary_runs(case):
    """-> iterable of tick lists; a tick is [en_or_rst, d0_or_limit, d1]"""
    fam, cfg = case["kind"], case["cfg"]
    if case["vary"] == "ticks":
        yield [list(t) for t in case["ticks"]]
        return
    pw = cfg.get("port_width", 3)
    if fam == "counter":
        vals = range(0, 1 << pw)
        r = 1 if cfg.get("reset") else 0
        for a in vals:
            for b in vals:
                if a != b:
                    for t in range(0, a + 2):
                        yield [[r, a, 0]] + [[0, a, 0]] * (a + 1 + t) + [[0, b, 0]] * (2 * b + 4)
        return
    vals = range(1, 1 << pw)
    if fam == "clkdiv":
        for a in vals:
            for b in vals:
                if a != b:
                    for t in range(0, a + 1):
                        yield [[0, a, 1]] * 2 + [[1, a, 1]] * (a + t + 1) + [[1, b, 1]] * (2 * b + 3)
        return
    p0rt = cfg["p0"]["kind"] == "rt"
    p1rt = (cfg.get("p1") or {}).get("kind") == "rt"
    top = (1 << pw) - 1
    firsts = sorted({top, max(1, top - 2), 1}) if p0rt else [1]
    seconds = sorted({top, 2, 1}) if p1rt else [1]
    for f1 in firsts:
        for s1 in seconds:
            for f2 in (vals if p0rt else [1]):
                for s2 in (vals if p1rt else [1]):
                    if (f1, s1) != (f2, s2):
                        per = 2 * top
                        for t in range(0, per + 1):
                            yield [[0, f1, s1]] * 2 + [[1, f1, s1]] * (per + t + 1) + [[1, f2, s2]] * (2 * per + 3)


def _check_vary(case, out):
    fam, cfg = case["kind"], case["cfg"]
    if not _is_rt_cell(fam, cfg):
        out.status = "unspecified"
        out.labels.append(f"{fam}:vary_needs_runtime_period")
        return
    if fam == "counter":
        init = {"clk": 0, "rst": 0, "lim": 0}
    else:
        init = {"clk": 0, "en": 0, "dis": 1 if cfg.get("require_enable") else 0, "d0": 1, "d1": 1, "rst": 0}
    key, b = _build(fam, cfg, init)
    if _status_early(out, b, fam):
        return
    sim = b.sim
    util = {"counter": "continuous_counter", "clkdiv": "ClockDivider", "toggle": "ToggleSignal"}[fam]
    runs = 0
    lowered_inside = False
    default = bool(cfg.get("default_state"))
    cb = bool(cfg.get("callbacks"))

    def const_or(p, port_val, dflt):
        if p is None:
            return dflt
        return port_val if p["kind"] == "rt" else p["n"]

    try:
        for ticks in _vary_runs(case):
            runs += 1
            sim.restore(b.snap0)
            if fam == "counter":
                mon = M.CounterWindowMonitor()
                for t, (r, lim, _x) in builtins.enumerate(ticks):
                    r = r if cfg.get("reset") else 0
                    if mon.L is not None and lim < mon.L and mon.prev > lim:
                        lowered_inside = True
                    sim.clock("clk", rst=r, lim=lim)
                    v = sim.get("o_cnt")
                    bad = mon.tick(lim, v, bool(r))
                    if sim.get("o_cb") != v:
                        bad.append(("on_change", f"value passed to on_change = {sim.get('o_cb')}, counter = {v}"))
                    if bad:
                        out.add({"util": util, "limit_kind": "rt", "vary": True, "obs": bad[0][0]},
                                f"{cfg} (reset, limit) per tick {[x[:2] for x in ticks[:t + 1]]}: tick {t}: "
                                + "; ".join(x for _o, x in bad))
                        return
                continue
            rl = M.ResetLine(cfg["drive"], cfg.get("require_enable"))
            armed = False
            prev_state = default
            if fam == "clkdiv":
                mon = M.PulseWindowMonitor()
            else:
                mon = M.ToggleTickModel(default, cfg.get("first_state"))
            last_per = None
            for t, (en, d0, d1) in builtins.enumerate(ticks):
                dis = 1 - en
                reset = rl.at_edge(en, dis)
                sim.clock("clk", en=en, dis=dis, d0=d0, d1=d1)
                s_, r_, f_ = sim.get("o_state"), sim.get("o_rise"), sim.get("o_fall")
                cr, cf = sim.get("o_cbr"), sim.get("o_cbf")
                bad = []
                if s_ is None:
                    bad.append(("state", "state undefined"))
                elif fam == "clkdiv":
                    D = d0
                    if last_per is not None and D < last_per and not reset:
                        lowered_inside = True
                    last_per = D
                    if reset:
                        mon.reset()
                        if s_ != int(default):
                            bad.append(("state_disabled", f"state = {s_} while disabled, default_state = {int(default)}"))
                    else:
                        bad += mon.tick(D, s_ != int(default))
                        rise = int((not prev_state) and bool(s_))
                        fall = int(prev_state and not s_)
                        if r_ != rise:
                            bad.append(("rising", f"rising() = {r_} but the state went {int(prev_state)} -> {s_}"))
                        if f_ != fall:
                            bad.append(("falling", f"falling() = {f_} but the state went {int(prev_state)} -> {s_}"))
                        if cb and (cr != rise or cf != fall):
                            bad.append(("callback", f"callbacks {cr}/{cf} but the state went {int(prev_state)} -> {s_}"))
                else:
                    first = const_or(cfg["p0"], d0, None)
                    second = const_or(cfg.get("p1"), d1, first)
                    per = first + second
                    if last_per is not None and per < last_per and not reset and armed:
                        lowered_inside = True
                    last_per = per
                    if reset:
                        armed = True
                    if armed:
                        forced = reset and prev_state != default
                        mon.tick(first, second, reset)
                        if s_ != int(mon.state):
                            bad.append(("state", f"state = {s_}, upstream mock says {int(mon.state)}"))
                        elif not forced:
                            if r_ != int(mon.rising) or f_ != int(mon.falling):
                                bad.append(("pulse", f"rising/falling = {r_}/{f_}, upstream mock says "
                                            f"{int(mon.rising)}/{int(mon.falling)}"))
                            elif cb and (cr != int(mon.rising) or cf != int(mon.falling)):
                                bad.append(("callback", f"callbacks = {cr}/{cf}, upstream mock says "
                                            f"{int(mon.rising)}/{int(mon.falling)}"))
                if bad:
                    pk = cfg["p0"]["kind"] + ("" if fam == "clkdiv" or cfg.get("p1") is None else "+" + cfg["p1"]["kind"])
                    out.add({"util": util, "period_kind": pk, "vary": True, "obs": bad[0][0]},
                            f"{cfg} (enable, d0, d1) per tick {ticks[:t + 1]}: tick {t}: " + "; ".join(x for _o, x in bad))
                    return
                prev_state = bool(s_)
    except SimError as e:
        _sim_fail(out, key, e, None)
        return
    out.counters["sequences"] = runs
    out.labels.append(f"{fam}:vary:{case['vary']}")
    if lowered_inside:
        out.labels.append(f"{fam}:period_lowered_mid_period")
    out.nontrivial = lowered_inside


# ======================================================================================= debounce
def _check_debounce(case, out):
    cfg = case["cfg"]
    p = cfg["period"]
    if isinstance(p, dict):
        period = M.ticks_of(p["dur"], cfg["freq_mhz"])
    else:
        period = p
    key, b = _build("debounce", cfg, {"clk": 0, "inp": 0})
    if period is None:
        out.labels.append("debounce:duration_not_dividing:" + b.status)
        out.status = "unspecified" if b.status == "ok" else b.status
        return
    if _status_early(out, b, "debounce"):
        return
    sim = b.sim
    seqs = (list(bits) for bits in itertools.product((0, 1), repeat=case["L"])) if case["inp"] == "all" else [case["inp"]]
    runs = 0
    strict_diff = 0
    changed = False
    try:
        for seq in seqs:
            runs += 1
            sim.restore(b.snap0)
            m = M.DebounceModel(period, cfg.get("initial"))
            if sim.get("o") != int(m.out):
                out.add({"util": "debounce", "period": _n_class(period), "initial": bool(cfg.get("initial")), "obs": "initial"},
                        f"{cfg}: output before the first clock = {sim.get('o')}, initial = {int(m.out)}")
                return
            for t, x in builtins.enumerate(seq):
                was = m.out
                exp = m.step(x)
                changed = changed or exp != was
                sim.clock("clk", inp=x)
                got = sim.get("o")
                if m.out_s != m.out:
                    strict_diff += 1
                if got != int(exp):
                    out.add({"util": "debounce", "period": _n_class(period), "initial": bool(cfg.get("initial")), "obs": "output"},
                            f"{cfg} input {seq[:t + 1]}: clock {t}: output = {got}, expected {int(exp)}")
                    return
    except SimError as e:
        _sim_fail(out, key, e, None)
        return
    out.counters["sequences"] = runs
    out.counters["debounce_strict_reading_differs"] = strict_diff
    out.labels.append(f"debounce:period={_n_class(period)}:initial={int(bool(cfg.get('initial')))}")
    out.nontrivial = changed


# ======================================================================================= check / view
_CHECKS = {"wait": _check_wait, "delay": _check_delay, "counter": _check_counter, "clkdiv": _check_gen,
           "toggle": _check_gen, "debounce": _check_debounce}


def check(case):
    out = Outcome()
    _CHECKS[case["kind"]](case, out)
    if any(case.get(k) == "all" for k in ("seq", "rst", "en", "inp")) and out.status == "ok" and not out.findings:
        out.exhaustive_cell = f"{case['kind']}:{canon(case['cfg'])[:120]}:L={case.get('L')}:{case.get('d0')},{case.get('d1')},{case.get('lim')}"
    return out


def view(case):
    v = {k: case[k] for k in case if k != "cfg"}
    v["cfg"] = case["cfg"]
    v["wrapper_source"] = G.render(case["kind"], case["cfg"])
    return v
