"""C15 - SyncFlag and Mailbox hand over every event exactly once.

A case is a configuration (SyncFlag | Mailbox[Unsigned[3]], tx/rx delay in 0..4, producer and
consumer in the same or in two contexts, wrapper style, send policy) plus either a drawn schedule of
(want_send, want_recv, payload) per clock or an exploration order: breadth-first over the joint
states (simulator snapshot, monitor state) applying every (want_send, want_recv[, payload in a
2-symbol alphabet]) combination per clock until closure or a state cap.

Oracle = trace monitor (cv/ref/c15_monitor.py) over the events the wrapper exports
(producer_sees_clear, set_issued, consumer_sees_set, cleared, payload_out).
"""
from __future__ import annotations

import builtins

from hypothesis import strategies as st

from cv.gen import c15_designs as G
from cv.gen.c1416_common import SimError, build_cached, drop_cached, explore
from cv.harness.runner import Outcome, canon
from cv.ref.c15_monitor import CoroMonitor, PlainMonitor

PROPERTY = "C15"
TECHNIQUE = (
    "property-based testing with a trace monitor: Hypothesis-drawn readiness schedules and breadth-first lock-step "
    "exploration (simulator snapshot x monitor state, all (want_send, want_recv) choices per clock, to closure) of "
    "generated producer/consumer wrapper entities simulated on cv.vhdl"
)
RULE = (
    "case = configuration {SyncFlag | Mailbox[Unsigned[3]], tx/rx delay 0..4 (tx_delay/rx_delay or delay=k), same "
    "context | two contexts, wrapper style plain (one decision per clock) | coro (await idiom of the docstrings), "
    "send policy always (sets also while set; SyncFlag only) | guarded} + schedule of (want_send, want_recv, payload) "
    "<= 80 clocks followed by a drain phase, or exploration order; non-trivial = >= 3 completed hand-overs including "
    "a tight alignment (clear issued in the first clock in which the consumer sees the set, or a set issued in the "
    "first clock in which the producer sees clear again / with the consumer already waiting); explorations are "
    "non-trivial when they contain a completed hand-over; distinct = case hash"
)
ASSUMPTIONS = [
    "VHDL semantics as implemented by cv.vhdl (calibrated on the upstream cocotb benches)",
    "an *effective* set is a set()/send() issued in a clock in which the producer's is_clear() is true; the consumer's "
    "observation that counts is the one at which it clears (consumption)",
    "Mailbox.send is only issued while the producer sees the mailbox clear (sending into a full mailbox overwrites the "
    "data register and is outside the statement); SyncFlag.set is also issued while set (policy `always`) to check "
    "that it has no effect",
    "liveness: the Mailbox docstring bounds the latency ('tx_delay specifies after how many clock ticks the receiver "
    "context sees requests set by the sender', 'rx_delay ... the sender context sees acknowledge states'), so after the "
    "schedule a drain phase of 8+2*(tx+rx) clocks (more than twice the documented delays plus the wrapper's registers) "
    "with want_recv=1, want_send=0 must deliver a pending event (`undelivered`) and let the producer see the flag clear "
    "again (`producer_never_clear`); in the explorations liveness is not judged",
    "a SyncFlag/Mailbox with delays used from one context is refused by cohdl (documented assertion): rejected",
    "a wrapper whose VHDL has static errors (owned by C06/C07) is still simulated with Sim(check_static=False) when it "
    "elaborates, and judged by the same monitor; if it does not elaborate the case is blocked_by_static",
    "extra observations (configurations `xobs`): is_set()/is_clear() are additionally mirrored to status outputs "
    "before the deciding call, between it and set()/clear() in source order, and after it; in the plain style all "
    "observations a context makes in one clock must agree; no internal observer signal of the component may be "
    "undefined ('U') after a clock (every signal a flag observation reads has a driver)",
    "unguarded clear (configurations `uclear`): SyncFlag.clear docstring 'This has no effect when it is already "
    "clear' - a clear() issued in a clock in which the consumer observes the flag as clear (on an empty flag, one clock "
    "after a receive, coinciding with a new set that is not yet visible) must neither create nor destroy an event; "
    "issued while the consumer observes the flag as set it consumes the event",
    "coroutine timing itself (when an await resumes) belongs to property C01; the coro-style monitor only uses the "
    "order of the exported pulses",
]
LEVEL = "exploration"


# ------------------------------------------------------------------------- configurations
def _cfg(comp, tx, rx, topo, style, send, order="obs_first", form=None, first="prod", uclear=False, xobs=False):
    if form is None:
        form = "none" if (tx, rx) == (0, 0) else "txrx"
    c = {"comp": comp, "tx": tx, "rx": rx, "form": form, "topo": topo, "style": style, "send": send, "order": order,
         "first": first}
    if uclear:
        c["uclear"] = True
    if xobs:
        c["xobs"] = True
    return c


def all_cfgs(maxd=4):
    out = []
    for tx in range(maxd + 1):
        for rx in range(maxd + 1):
            if max(tx, rx) >= 4:
                # delay 4 on either side (2 and more delay-line stages): a reduced set of program kinds
                out.append(_cfg("flag", tx, rx, "two", "plain", "always"))
                out.append(_cfg("flag", tx, rx, "two", "plain", "guarded", "act_first"))
                out.append(_cfg("mailbox", tx, rx, "two", "plain", "guarded"))
                out.append(_cfg("flag", tx, rx, "two", "coro", "guarded"))
                out.append(_cfg("mailbox", tx, rx, "two", "coro", "guarded"))
                out.append(_cfg("mailbox", tx, rx, "two", "plain", "guarded", uclear=True))
                out.append(_cfg("flag", tx, rx, "two", "plain", "guarded", xobs=True))
                if tx == rx:
                    out.append(_cfg("mailbox", tx, rx, "two", "plain", "guarded", form="delay"))
                continue
            out.append(_cfg("flag", tx, rx, "two", "plain", "always"))
            out.append(_cfg("flag", tx, rx, "two", "plain", "always", "act_first"))
            out.append(_cfg("flag", tx, rx, "two", "plain", "guarded"))
            out.append(_cfg("flag", tx, rx, "two", "plain", "guarded", "act_first"))
            out.append(_cfg("mailbox", tx, rx, "two", "plain", "guarded", "act_first"))
            out.append(_cfg("flag", tx, rx, "two", "coro", "guarded"))
            out.append(_cfg("mailbox", tx, rx, "two", "plain", "guarded"))
            out.append(_cfg("mailbox", tx, rx, "two", "coro", "guarded"))
            # consumer with clear() calls that are not guarded by is_set() (also on a clear flag)
            out.append(_cfg("flag", tx, rx, "two", "plain", "guarded", uclear=True))
            out.append(_cfg("flag", tx, rx, "two", "plain", "always", "act_first", uclear=True))
            out.append(_cfg("mailbox", tx, rx, "two", "plain", "guarded", uclear=True))
            out.append(_cfg("flag", tx, rx, "two", "coro", "guarded", uclear=True))
            out.append(_cfg("mailbox", tx, rx, "two", "coro", "guarded", uclear=True))
            # several observer calls (status outputs) per context, before / between / after the hand-over call
            out.append(_cfg("flag", tx, rx, "two", "plain", "guarded", xobs=True))
            out.append(_cfg("mailbox", tx, rx, "two", "plain", "guarded", xobs=True))
            out.append(_cfg("flag", tx, rx, "two", "coro", "guarded", xobs=True))
            if (tx == 0) != (rx == 0):
                out.append(_cfg("mailbox", tx, rx, "two", "coro", "guarded", xobs=True))
                out.append(_cfg("flag", tx, rx, "two", "plain", "always", "act_first", xobs=True, uclear=True))
            if tx == rx and tx:
                out.append(_cfg("flag", tx, rx, "two", "plain", "always", form="delay"))
                out.append(_cfg("mailbox", tx, rx, "two", "plain", "guarded", form="delay"))
    out.append(_cfg("flag", 0, 0, "same", "plain", "always"))
    out.append(_cfg("flag", 0, 0, "same", "plain", "always", "act_first"))
    out.append(_cfg("flag", 0, 0, "same", "plain", "guarded"))
    out.append(_cfg("mailbox", 0, 0, "same", "plain", "guarded"))
    out.append(_cfg("flag", 0, 0, "same", "plain", "guarded", first="cons"))
    out.append(_cfg("flag", 0, 0, "same", "plain", "guarded", uclear=True))
    out.append(_cfg("flag", 0, 0, "same", "plain", "guarded", xobs=True))
    out.append(_cfg("mailbox", 0, 0, "same", "plain", "guarded", first="cons", xobs=True))
    out.append(_cfg("flag", 0, 0, "same", "plain", "always", first="cons", uclear=True))
    out.append(_cfg("mailbox", 0, 0, "same", "plain", "guarded", uclear=True))
    # delays in one context: documented (assertion text) to be refused
    for (tx, rx) in [(1, 0), (0, 1), (2, 0), (0, 2), (3, 0), (0, 3), (1, 1), (2, 3)]:
        if max(tx, rx) <= maxd:
            for first in ("prod", "cons"):
                out.append(_cfg("flag", tx, rx, "same", "plain", "always", first=first))
                if (tx, rx) in ((1, 0), (0, 1), (0, 2), (3, 0)):
                    out.append(_cfg("mailbox", tx, rx, "same", "plain", "guarded", first=first))
    return out


def plan(tier):
    cfgs = all_cfgs()
    nsh = 16 if tier == "quick" else 32
    per_cfg = 20 if tier == "quick" else 300
    shards = []
    for i in range(nsh):
        mine = cfgs[i::nsh]
        shards.append({"kind": "hyp", "name": f"sched{i}", "examples": per_cfg * len(mine), "cfgs": mine})
    maxd = 1 if tier == "quick" else 4
    ex = all_cfgs(maxd)
    nex = 8 if tier == "quick" else 16
    for i in range(nex):
        shards.insert(0, {"kind": "enum", "name": f"explore{i}", "items": ex[i::nex],
                          "cap": 40000 if tier == "quick" else 400000})
    return shards


# ------------------------------------------------------------------------- schedules
def _sched():
    seg = st.one_of(
        st.tuples(st.just("both"), st.integers(1, 12)),      # both willing
        st.tuples(st.just("send"), st.integers(1, 6)),       # only the producer
        st.tuples(st.just("recv"), st.integers(1, 6)),       # only the consumer
        st.tuples(st.just("idle"), st.integers(1, 4)),
        st.tuples(st.just("alt"), st.integers(2, 10)),       # alternate send / recv per clock
        st.tuples(st.just("rand"), st.lists(st.tuples(st.booleans(), st.booleans()), min_size=1, max_size=10)),
    )
    pay = st.lists(st.integers(0, 7), min_size=1, max_size=7)
    fcl = st.lists(st.integers(0, 3), min_size=1, max_size=9)  # force_clr in the clocks where the cycled value is 0

    def expand(args):
        segs, pv, fv = args
        out = []
        for kind, x in segs:
            if kind == "rand":
                steps = [(int(a), int(b)) for a, b in x]
            elif kind == "alt":
                steps = [(i & 1, 1 - (i & 1)) for i in range(x)]
            else:
                steps = [{"both": (1, 1), "send": (1, 0), "recv": (0, 1), "idle": (0, 0)}[kind]] * x
            for ws, wr in steps:
                out.append([ws, wr, pv[len(out) % len(pv)], int(fv[len(out) % len(fv)] == 0)])
        return out[:80]

    return st.tuples(st.lists(seg, min_size=1, max_size=12), pay, fcl).map(expand)


def strategy(shard):
    return st.tuples(st.sampled_from(shard["cfgs"]), _sched()).map(
        lambda t: {"cfg": t[0], "mode": "sched", "sched": t[1]})


def enumerate(shard):  # noqa: A001 - name fixed by the module contract
    for cfg in shard["items"]:
        yield {"cfg": cfg, "mode": "explore", "cap": shard["cap"], "alpha": [2, 5]}


# ------------------------------------------------------------------------- driver
_ZERO = {"clk": 0, "want_send": 0, "want_recv": 0, "payload": 0, "force_clr": 0}


def _sig(cfg, obs):
    comp = "Mailbox" if cfg["comp"] == "mailbox" else "SyncFlag"
    if cfg["topo"] == "same" and (cfg["tx"] or cfg["rx"]):
        # one root cause for the whole class: a configuration cohdl documents as refused was accepted
        return {"comp": comp, "topo": "same", "delayed_same_ctx": True,
                "delay_side": "both" if (cfg["tx"] and cfg["rx"]) else "tx" if cfg["tx"] else "rx", "obs": obs}
    return {"comp": comp, "topo": cfg["topo"], "style": cfg["style"], "send": cfg["send"], "tx": cfg["tx"],
            "rx": cfg["rx"], "obs": obs, "delayed_same_ctx": False, "unguarded_clear": bool(cfg.get("uclear")),
            "extra_obs": bool(cfg.get("xobs"))}


class _Driver:
    def __init__(self, cfg):
        self.cfg = cfg
        mb = cfg["comp"] == "mailbox"
        self.coro = cfg["style"] == "coro"
        self.mon = CoroMonitor(mb) if self.coro else PlainMonitor(mb)
        self.forced = 0
        self.forced_on_clear = 0
        self.xobs = bool(cfg.get("xobs"))
        self.obs_sigs = None
        self.last_pclear = 1

    def state(self):
        return self.mon.state()

    def set_state(self, s):
        self.mon.set_state(s)

    def step(self, sim, action):
        ws, wr, pay = action[:3]
        fc = action[3] if len(action) > 3 else 0
        sim.clock("clk", want_send=ws, want_recv=wr, payload=pay, force_clr=fc)
        g = sim.get
        pclear, set_, cset, clr, pout = g("o_pclear"), g("o_set"), g("o_cset"), g("o_clr"), g("o_payload")
        fclr = g("o_fclr")
        self.last_pclear = pclear
        if fclr:
            self.forced += 1
            if not (cset if not self.coro else False):
                self.forced_on_clear += 1
        if None in (pclear, set_, cset, clr) or (clr and pout is None):
            return "undefined", [("undefined", f"undefined output: pclear={pclear} set={set_} cset={cset} clr={clr} payload={pout}")]
        extra = []
        if self.obs_sigs is None:
            # observer ("indirect") signals the component creates for contexts whose role it does not know yet
            self.obs_sigs = [x for x in sim.sigs if "indirect" in x.name.lower()]
        for x in self.obs_sigs:
            if sim._decode(x.ty, x.cur) is None:
                extra.append(("undriven_observer", f"internal observer signal {x.name} is undefined ('U'): a flag "
                              "observation reads a signal without a driver"))
                break
        if self.xobs:
            st_ = {n: g("o_st_" + n) for n in ("p0", "p1", "p2", "c0", "c1", "c2")}
            if None in st_.values():
                extra.append(("undefined", f"undefined status output {st_}"))
            elif not self.coro:
                # all observations of one context in one clock see the same flag state
                want = {"p0": 1 - pclear, "p1": pclear, "p2": 1 - pclear, "c0": 1 - cset, "c1": cset, "c2": 1 - cset}
                diff = [n for n in want if st_[n] != want[n]]
                if diff:
                    extra.append(("observations_disagree", f"status observations {diff} = {[st_[n] for n in diff]} "
                                  f"disagree with the deciding observation (producer is_clear={pclear}, consumer is_set={cset})"))
        if self.coro:
            bad = self.mon.step(pay, wr, set_, clr, pclear, pout)
            return "run", bad + extra
        else:
            # an unguarded clear() issued while the consumer sees the flag set consumes the event (no payload read);
            # issued while it sees the flag clear it must change nothing (not reported to the monitor)
            bad = self.mon.step(pay, pclear, set_, cset, int(bool(clr) or bool(fclr and cset)), pout,
                                check_payload=bool(clr))
        return "run", bad + extra

    def pending(self):
        if self.coro:
            return self.mon.phase == CoroMonitor.PENDING
        return self.mon.pending is not None

    def producer_clear(self):
        """nothing pending and the producer has observed the flag as clear again"""
        if self.coro:
            return self.mon.phase == CoroMonitor.IDLE
        return bool(self.last_pclear)


def check(case):
    cfg = case["cfg"]
    out = Outcome()
    key = canon(cfg)
    # a design with static errors (C06/C07 own those) is still simulated when the engine can elaborate it: what the
    # hand-over *does* is this property's observable
    b = build_cached(key, lambda: G.render(cfg), init=_ZERO, despite_static=True)
    name = f"{cfg['comp']}/{cfg['topo']}/{cfg['style']}/{cfg['send']}"
    out.labels.append(f"{name}:{b.status}")
    if b.status != "ok":
        out.status = b.status
        if b.status == "blocked_by_static":
            out.labels.append("static:" + b.info.split(":")[0])
        return out
    sim = b.sim
    if b.static:
        out.labels.append("simulated_despite_static:" + b.static.split(":")[0])
    drv = _Driver(cfg)
    zero = {k: v for k, v in _ZERO.items() if k != "clk"}
    out.labels.append(f"delays:tx{cfg['tx']}rx{cfg['rx']}")
    if case["mode"] == "explore":
        a, c = case["alpha"]
        if cfg["comp"] == "mailbox":
            acts = [(0, 0, 0), (0, 1, 0), (1, 0, a), (1, 0, c), (1, 1, a), (1, 1, c)]
        else:
            acts = [(0, 0, 0), (0, 1, 0), (1, 0, 0), (1, 1, 0)]
        if cfg.get("uclear") and cfg["style"] == "plain":
            acts = [x + (fc,) for x in acts for fc in (0, 1)]
        res = explore(sim, drv, acts, zero, case["cap"])
        if res["failure"]:
            path, _when, bad = res["failure"]
            out.add(_sig(cfg, bad[0][0]), f"exploration, after (want_send, want_recv, payload) sequence {path}: "
                    + "; ".join(f"[{o}] {t}" for o, t in bad))
        if res["error"]:
            _simerror(out, cfg, key, res["error"][0])
        out.counters["explored_states"] = res["states"]
        out.counters["explored_transitions"] = res["transitions"]
        out.nontrivial = drv.mon.handovers > 0
        if res["closed"]:
            out.exhaustive_cell = "closure:" + _cfg_name(cfg)
            out.labels.append("explore:closed")
        elif not out.findings and out.status == "ok":
            out.labels.append("explore:capped")
        return out
    try:
        failed = False
        for t, action in builtins.enumerate(case["sched"]):
            _w, bad = drv.step(sim, action)
            if bad:
                out.add(_sig(cfg, bad[0][0]), f"clock {t}, (want_send, want_recv, payload) = {action}: "
                        + "; ".join(f"[{o}] {x}" for o, x in bad))
                failed = True
                break
        if not failed:
            # drain: the consumer stays willing, the producer stops sending
            window = 8 + 2 * (cfg["tx"] + cfg["rx"])
            for t in range(window):
                if not drv.pending() and drv.producer_clear() and t >= 2:
                    break
                _w, bad = drv.step(sim, (0, 1, 0))
                if bad:
                    out.add(_sig(cfg, bad[0][0]), f"drain clock {t}: " + "; ".join(f"[{o}] {x}" for o, x in bad))
                    failed = True
                    break
            if not failed and drv.pending():
                out.add(_sig(cfg, "undelivered"), f"a set/send issued while the producer saw clear is still not received "
                        f"after {window} drain clocks with a willing consumer (documented latency: tx_delay = {cfg['tx']} ticks)")
            elif not failed and not drv.producer_clear():
                out.add(_sig(cfg, "producer_never_clear"), f"the producer does not see the flag clear {window} clocks after "
                        f"the consumer cleared it (documented latency: rx_delay = {cfg['rx']} ticks)")
    except SimError as e:
        _simerror(out, cfg, key, e)
    m = drv.mon
    out.counters["handovers"] = m.handovers
    out.counters["ineffective_sets"] = m.ineffective_sets
    if cfg.get("uclear"):
        out.counters["unguarded_clears"] = drv.forced
        out.counters["unguarded_clears_on_clear_flag"] = drv.forced_on_clear
        if drv.forced_on_clear:
            out.labels.append("clear_on_clear_flag")
    if m.ineffective_sets:
        out.labels.append("set_while_set")
    if m.tight:
        out.labels.append("tight_alignment")
    out.labels.append("handovers:" + ("0" if m.handovers == 0 else "1-2" if m.handovers < 3 else "3+"))
    out.nontrivial = m.handovers >= 3 and m.tight > 0
    return out


def _simerror(out, cfg, key, e):
    drop_cached(key)
    out.status = "blocked"
    out.labels.append("blocked:sim_" + e.kind)


def _cfg_name(cfg):
    return (f"{'Mailbox' if cfg['comp'] == 'mailbox' else 'SyncFlag'}/tx{cfg['tx']}rx{cfg['rx']}"
            f"{'(delay=)' if cfg['form'] == 'delay' else ''}/{cfg['topo']}/{cfg['style']}/{cfg['send']}/{cfg['order']}"
            f"{'/cons_first' if cfg.get('first') == 'cons' else ''}{'/unguarded_clear' if cfg.get('uclear') else ''}{'/extra_obs' if cfg.get('xobs') else ''}")


def view(case):
    v = {"config": _cfg_name(case["cfg"]), "mode": case["mode"]}
    if case["mode"] == "sched":
        v["schedule"] = " ".join(("S" if x[0] else "") + ("R" if x[1] else "") + (str(x[2]) if x[0] else "")
                                 + ("C" if len(x) > 3 and x[3] else "") or "." for x in case["sched"])
    else:
        v["cap"] = case["cap"]
    v["wrapper_source"] = G.render(case["cfg"])
    return v
