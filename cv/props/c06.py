"""C06 - every accepted design yields legal, well-typed, self-consistent VHDL.

Generators (cv/gen/c06_names.py, cv/gen/c06_expr.py):
  A  name-directed designs: one feature-composed skeleton whose named objects (ports, signals, variables, helper
     parameters/locals, entities, contexts, enum types/enumerators, prefixes, array signals, user-reserved names) get
     hostile names (reserved words, predefined identifiers, case variants, underscore decorations, collisions with
     compiler-generated names, numeric-suffix families);
  B  expression/cast shapes with benign names: typed expression trees over Bit/BitVector/Unsigned/Signed/int/bool/
     enum/array operands, assigned in concurrent and sequential contexts, select_with, sub-entity connections.

Oracle: the emitted text is analysed by the independent VHDL engine (cv.vhdl.analyse); every static error in an
accepted design is a violation.  Errors are reported by *tier* so that one defect does not fan out into its follow-on
errors: lexical (S-parse, S-ident) > naming (S-dup, S-hide, S-unres, S-struct) > typing (all other rules); lower tiers
of the same design are only counted.  Signature = StaticError.signature() + `where` (syntactic position of the
offending identifier in the emitted text) [+ `word` for reserved words: vhdl93 | vhdl2008].
"""
from __future__ import annotations

import builtins
import contextlib
import io
import re

from hypothesis import strategies as st

from cv.harness.loader import Rejected, load_module, unload_module
from cv.harness.runner import Outcome

PROPERTY = "C06"
TECHNIQUE = ("property-based generation of cohdl designs (Hypothesis) + complete enumeration of (slot x hostile name); "
             "oracle = independent VHDL static analyser (LRM rules, VHDL-93 u 2008) + elaboration/simulation smoke run")
RULE = (
    "generator A: design skeleton with 9 optional features whose named objects get hostile names; generator B: typed "
    "expression/cast trees. non-trivial = accepted design with >= 1 hostile name (A) or >= 3 distinct operator/cast "
    "kinds (B); distinct = case hash. The (slot x name) product for one hostile name per design is enumerated completely."
)
ASSUMPTIONS = [
    "VHDL legality = static semantics implemented by cv.vhdl (LRM rule per S-* id; calibrated on 254 upstream benches)",
    "names are ASCII identifiers [A-Za-z_][A-Za-z0-9_]* (what a Python attribute / variable / name= argument naturally is)",
    "reserved words: IEEE 1076-1993 list; a word reserved only since 1076-2008 used as identifier is legal for a 1993 "
    "tool (union-of-editions policy) and only counted (label only_2008_reserved)",
    "user-reserved names (additional_reserved_names / reserved_names) are read as reserved words of the design: an object "
    "the backend names itself (signal, variable, label, type) must not carry one, compared case-insensitively like every "
    "VHDL identifier; interface names and enumerators are not judged against them",
]

LEXICAL = ("S-parse", "S-ident")
NAMING = ("S-dup", "S-hide", "S-unres", "S-struct")


# ------------------------------------------------------------------------------------------ plan
def plan(tier):
    from cv.gen import c06_names

    shards = []
    if tier == "quick":
        stride, nsh = 10, 12
        per_a, na, per_b, nb = 90, 10, 100, 10
    else:
        stride, nsh = 1, 32
        per_a, na, per_b, nb = 900, 32, 900, 32
    n_enum = c06_names.enum_size(stride)
    step = (n_enum + nsh - 1) // nsh
    for k, lo in builtins.enumerate(range(0, n_enum, step)):
        shards.append({"kind": "enum", "name": f"slotname{k}", "stride": stride, "lo": lo, "hi": min(n_enum, lo + step)})
    focus = [None, "reserved", "predefined", "generated", "decor", "family", "related"]
    for i in range(na):
        shards.append({"kind": "hyp", "name": f"names{i}", "gen": "A", "examples": per_a, "focus": focus[i % len(focus)]})
    for i in range(nb):
        shards.append({"kind": "hyp", "name": f"expr{i}", "gen": "B", "examples": per_b, "mode": i % 4})
    if tier == "thorough":
        # coverage-guided campaign (atheris); bounded by -runs, the time bound is only a safety net (=> inconclusive)
        for i in range(16):
            shards.append({"kind": "enum", "name": f"atheris{i}", "fuzz": True, "gen": "AB"[i % 2], "runs": 2000,
                           "max_time": 2400, "index": i})
    return shards


EXHAUSTIVE = {"quick": False, "thorough": False}


def strategy(shard):
    if shard["gen"] == "A":
        from cv.gen import c06_names

        return c06_names.cases(focus=shard.get("focus"))
    from cv.gen import c06_expr

    return c06_expr.cases(mode=shard.get("mode", 0))


def enumerate(shard):  # noqa: A001 - name fixed by the module contract
    from cv.gen import c06_names

    if shard.get("fuzz"):
        return _atheris_cases(shard)
    return c06_names.enum_cases(shard)


def _atheris_cases(shard):
    """run the coverage-guided campaign in a subprocess (libFuzzer terminates its process) and hand the recorded
    cases to the normal check path; a campaign that did not reach its run count is inconclusive (harness error)"""
    import json
    import os
    import subprocess
    import sys
    import tempfile

    from cv.harness.runner import HarnessError

    fd, path = tempfile.mkstemp(prefix="c06_fuzz_", suffix=".jsonl")
    os.close(fd)
    seed = int(os.environ.get("VERIF_SEED", "1") or "1") * 1000 + int(shard.get("index", 0))
    cmd = [sys.executable, "-m", "cv.gen.c06_fuzz", "--gen", shard["gen"], "--runs", str(shard["runs"]),
           "--max-time", str(shard["max_time"]), "--seed", str(seed), "--out", path]
    try:
        try:
            subprocess.run(cmd, stdout=subprocess.DEVNULL, stderr=subprocess.DEVNULL, timeout=shard["max_time"] + 300, check=False)
        except subprocess.TimeoutExpired:
            raise HarnessError(f"atheris campaign {shard['name']} inconclusive: time budget exceeded") from None
        meta, cases = None, []
        with open(path) as f:
            for ln in f:
                rec = json.loads(ln)
                if "meta" in rec:
                    meta = rec["meta"]
                else:
                    cases.append(rec["case"])
    finally:
        try:
            os.unlink(path)
        except OSError:
            pass
    if meta is None or not meta.get("done"):
        raise HarnessError(f"atheris campaign {shard['name']} inconclusive: "
                           f"{(meta or {}).get('execs', 0)} of {shard['runs']} executions within the time budget")
    yield {"g": "meta", "atheris": {"execs": meta["execs"], "decoded": meta["decoded"], "status": meta["status"], "gen": meta["gen"]}}
    for c in cases:
        yield c


def render(case):
    if case["g"] == "A":
        from cv.gen import c06_names

        return c06_names.render(case)
    from cv.gen import c06_expr

    return c06_expr.render(case)


def view(case):
    if case["g"] == "meta":
        return case
    src, top, ckw = render(case)
    return {"case": {k: v for k, v in case.items() if k != "stim"}, "python": src, "compile_kwargs": {k: sorted(v) for k, v in ckw.items()}}


# ------------------------------------------------------------------------------------------ compile
def compile_case(case):
    """-> (source, vhdl) or raises Rejected(stage in .stage)"""
    from cohdl import std

    src, top, ckw = render(case)
    buf = io.StringIO()
    try:
        with contextlib.redirect_stdout(buf), contextlib.redirect_stderr(buf):
            mod = load_module(src)
    except (KeyboardInterrupt, SystemExit):
        raise
    except SyntaxError:
        raise  # the renderer produced invalid Python: harness bug
    except Exception as e:  # noqa: BLE001 - building classes/enums may be refused (cohdl or Python enum rules)
        r = Rejected(e)
        r.stage = "load"
        raise r from None
    try:
        with contextlib.redirect_stdout(buf), contextlib.redirect_stderr(buf):
            return src, std.VhdlCompiler.to_string(getattr(mod, top), **ckw)
    except (KeyboardInterrupt, SystemExit, RecursionError):
        raise
    except Exception as e:  # noqa: BLE001
        r = Rejected(e)
        r.stage = "compile"
        raise r from None
    finally:
        unload_module(mod)


# ------------------------------------------------------------------------------------------ text positions
_ID = r"[A-Za-z_][A-Za-z0-9_]*"
_MSG_IDENT = [
    re.compile(r"illegal identifier (\S+)"),
    re.compile(r"reserved word '(\w+)'"),
    re.compile(r"name (\S+) in sensitivity list"),
    re.compile(r"name (\S+) is not declared"),
    re.compile(r"type (\S+) is not declared"),
    re.compile(r"^(\S+) is declared twice"),
    re.compile(r"enumeration literal (\S+) given twice"),
    re.compile(r"^(\S+) is used as a type mark"),
    re.compile(r"user declaration (\S+) hides"),
    re.compile(r"has no port (\S+)"),
    re.compile(r"attribute target (\S+) is not"),
]


def offending_ident(e):
    for rx in _MSG_IDENT:
        m = rx.search(e.msg)
        if m:
            return m.group(1)
    return None


def where_of(lines, lineno, ident):
    """syntactic position of `ident` (or of the whole line when unknown) in the emitted text"""
    if not (1 <= lineno <= len(lines)):
        return "?"
    region = "file"
    for ln in lines[:lineno - 1]:
        s = ln.strip()
        if re.match(r"entity\s", s) and s.endswith(" is"):
            region = "entity"
        elif s.startswith("port (") and region == "entity":
            region = "ports"
        elif s.startswith(");") and region == "ports":
            region = "entity"
        elif s.startswith("architecture "):
            region = "arch-decl"
        elif s == "begin" and region == "arch-decl":
            region = "arch-body"
        elif re.match(rf"({_ID})?\s*:\s*process\(", s) or re.match(r"\S*: process\(", s):
            region = "proc-decl"
        elif s == "begin" and region == "proc-decl":
            region = "proc-body"
        elif s.startswith("end process"):
            region = "arch-body"
        elif s.startswith("function "):
            region = "func"
        elif s.startswith("end function"):
            region = "arch-decl"
        elif s.startswith("port map("):
            region = "port-map"
        elif s.startswith(");") and region == "port-map":
            region = "arch-body"
    s = lines[lineno - 1].strip()
    low = s.lower()
    idl = ident.lower() if ident else None

    def first_is(tok):
        return idl is None or tok is None or tok.lower() == idl

    if low.startswith("entity ") and low.endswith(" is") or (region == "entity" and low.startswith("end ")):
        return "entity-name"
    if region == "ports" or (region == "entity" and ":" in s):
        return "port-decl" if first_is(s.split(":")[0].strip()) else "port-type"
    if low.startswith("architecture ") or low.startswith("end architecture"):
        toks = s.replace(";", " ").split()
        if low.startswith("architecture ") and len(toks) >= 4 and idl is not None and toks[3].lower() == idl and toks[1].lower() != idl:
            return "arch-entity-ref"
        return "arch-name"
    if low.startswith("signal "):
        return "signal-decl" if first_is(s.split()[1].rstrip(":")) else "signal-type-or-init"
    if low.startswith("variable "):
        return "variable-decl" if first_is(s.split()[1].rstrip(":")) else "variable-type-or-init"
    if low.startswith("type "):
        nm = s.split()[1] if len(s.split()) > 1 else None
        if " is array" in low:
            return "array-type-name" if first_is(nm) else "array-elem-type"
        if idl is None:
            return "enum-type-decl"
        return "enum-type-name" if nm and nm.lower() == idl else "enum-literal"
    if low.startswith("attribute "):
        return "attribute"
    m = re.match(r"(\S*)\s*:\s*process\(", s)
    if m:
        return "process-label" if first_is(m.group(1)) else "sensitivity-list"
    m = re.match(r"(\S*)\s*:\s*entity\s+(\S+?)\.([^(\s]*)", s)
    if m:
        if idl is None or m.group(1).lower() == idl:
            return "instance-label"
        return "instance-entity-ref"
    if region == "port-map" and "=>" in s:
        return "port-map-formal" if first_is(s.split("=>")[0].strip()) else "port-map-actual"
    if region == "func":
        return "helper-function"
    if region in ("proc-body", "arch-body"):
        return "statement"
    return region


def declarations(lines):
    """identifier (lower case) -> sorted list of the syntactic classes under which the emitted text declares it"""
    decl = {}

    def add(name, cls):
        decl.setdefault(name.lower(), set()).add(cls)

    in_ports = False
    for ln in lines:
        s = ln.strip()
        low = s.lower()
        m = re.match(rf"entity\s+(\S+)\s+is$", s, re.I)
        if m:
            add(m.group(1), "entity-name")
            continue
        if low.startswith("port ("):
            in_ports = True
            continue
        if in_ports:
            if low.startswith(");"):
                in_ports = False
                continue
            m = re.match(r"(\S*)\s*:\s*(in|out|inout)\b", s, re.I)
            if m:
                add(m.group(1), "port-decl")
            continue
        m = re.match(r"architecture\s+(\S+)\s+of\s+(\S+)\s+is", s, re.I)
        if m:
            add(m.group(1), "arch-name")
            continue
        m = re.match(r"(signal|variable)\s+(\S*?)\s*:", s, re.I)
        if m:
            add(m.group(2), m.group(1).lower() + "-decl")
            continue
        m = re.match(r"type\s+(\S+)\s+is\s+(.*)$", s, re.I)
        if m:
            if m.group(2).lower().startswith("array"):
                add(m.group(1), "array-type-name")
            else:
                add(m.group(1), "enum-type-name")
                for lit in re.findall(r"[^\s,();]+", m.group(2)):
                    add(lit, "enum-literal")
            continue
        m = re.match(r"function\s+([A-Za-z_0-9]+)", s, re.I)
        if m:
            add(m.group(1), "function")
            continue
        m = re.match(r"(\S*)\s*:\s*process\b", s, re.I)
        if m:
            add(m.group(1), "process-label")
            continue
        m = re.match(r"(\S*)\s*:\s*entity\s", s, re.I)
        if m:
            add(m.group(1), "instance-label")
    return {k: "+".join(sorted(v)) for k, v in decl.items()}


# declarations the backend prints without passing the name through its scope come first
_PRI = ["enum-literal", "port-decl", "entity-name", "arch-name", "enum-type-name", "array-type-name", "signal-decl",
        "variable-decl", "process-label", "instance-label", "function"]


def primary(classes):
    """one class for an identifier declared under several classes (fixed priority, see _PRI)"""
    if not classes:
        return classes
    cl = classes.split("+")
    return min(cl, key=lambda c: _PRI.index(c) if c in _PRI else len(_PRI))


def broken_decls(decls):
    """classes of declarations whose name is not even identifier-shaped (empty, only underscores, leading digit)"""
    bad = [cls for nm, cls in decls.items() if not re.fullmatch(r"[a-z][a-z0-9_]*", nm) and not nm.startswith("'")
           and (nm.strip("_") == "" or nm.strip("_")[0].isdigit())]
    return primary("+".join(sorted({c for b in bad for c in b.split("+")}))) if bad else None


def classify(e, lines, decls, reserved93):
    """-> (tier, signature).  The signature names the *declaration* that is wrong (class of the declared object),
    not the place where the analyser happened to notice it."""
    sig = e.signature()
    ident = offending_ident(e)
    tier = 0 if e.rule in LEXICAL else 1 if e.rule in NAMING else 2
    if e.rule == "S-ident":
        d = (decls.get(ident.lower()) or near_decl(decls, ident)) if ident else None
        sig["decl"] = primary(d) if d else "use:" + where_of(lines, e.line, ident)
        if sig.get("name") == "reserved" and ident:
            sig["word"] = "vhdl93" if ident.lower() in reserved93 else "vhdl2008"
    elif e.rule == "S-parse":
        bd = broken_decls(decls)
        if bd:
            sig["decl"] = bd
        else:
            sig["at"] = where_of(lines, e.line, None)
        m = re.search(r"^(.*?), found '(.*)'$", e.msg)
        if m:
            f = m.group(2)
            sig["msg"] = m.group(1)[:40] + "/" + ("digit" if f[:1].isdigit() else "word" if f[:1].isalpha() else f or "eof")
        else:
            sig["msg"] = re.sub(r"[0-9]+|'[^']*'", "#", e.msg)[:40]
    elif e.rule == "S-hide":
        nm = (ident or sig.get("name") or "?").lower()
        sig = {"rule": "S-hide", "name": sig.get("name", nm), "decl": primary(decls.get(nm, "?"))}
    elif e.rule == "S-dup":
        sig.pop("name", None)
    elif e.rule == "S-unres":
        if ident and sig.get("name") == "plain":
            # a name the backend's uniquifier produced (base + decimal suffix) vs. any other name
            sig["form"] = "suffixed" if re.fullmatch(r".*[A-Za-z_]\d+", ident) else "other"
        if ident:
            sig["near"] = primary(near_decl(decls, ident))
    elif tier == 2 and isinstance(sig.get("where"), str):
        # the analyser's `where` names the object ("signal assignment to buffer_o0"): keep the construct only
        sig["where"] = re.sub(r"^(signal assignment|variable assignment|initial value|association of port|argument|index of target)\b.*$",
                              r"\1", sig["where"])
    if e.rule == "S-struct":
        sig.setdefault("near", None)
        m = re.search(r"of undeclared entity (\S+)|entity (\S+) has no architecture|entity (\S+) has not been analysed", e.msg)
        if m:
            nm = next(g for g in m.groups() if g)
            near = decls.get(nm.lower()) or near_decl(decls, nm) or ""
            # names are compared file-wide; what matters is whether an *entity* of (nearly) that name is declared
            sig["near"] = "entity-name" if "entity-name" in near.split("+") else (near or None)
    return tier, sig


def near_decl(decls, ident):
    """class of a declaration whose name differs from `ident` only by underscore decoration, case, or a decimal
    suffix appended to it (i.e. the same object printed under two names), else None"""
    def norm(x):
        return re.sub(r"_+", "_", x.lower()).strip("_")

    u = norm(ident)
    cands = {u}
    t = ident.lower()
    while t and t[-1].isdigit():  # the uniquifier appends a decimal counter, possibly to a name that ends in a digit
        t = t[:-1]
        cands.add(norm(t))
    hits = sorted({c for d, cls in decls.items() if d != ident.lower() and norm(d) in cands and norm(d) for c in cls.split("+")})
    return "+".join(hits) if hits else None


def redeclared_predefined(decls):
    """predefined identifiers (types, numeric_std/std_logic_1164 functions, boolean literals, the backend's own helper
    function) that the emitted text declares itself -> {name: decl class}"""
    from cv.vhdl.types import PREDEFINED_NAMES

    out = {}
    for nm, cls in decls.items():
        if nm in PREDEFINED_NAMES or nm == "cohdl_bool_to_std_logic":
            if nm == "cohdl_bool_to_std_logic" and cls == "function":
                continue
            out[nm] = cls.replace("function+", "").replace("+function", "")
    return out


# ------------------------------------------------------------------------------------------ check
def check(case):
    from cv.vhdl.analyze import analyse
    from cv.vhdl.lexer import RESERVED_93
    from cv.vhdl.sim import Blocked, Sim
    from cv.vhdl.values import SimError

    out = Outcome()
    gen = case["g"]
    if gen == "meta":  # bookkeeping record of a coverage-guided campaign (see _atheris_cases)
        m = case["atheris"]
        out.counters.update({"atheris_execs": m["execs"], "atheris_decoded": m["decoded"]})
        for k, v in m["status"].items():
            out.counters["atheris_status_" + k] = v
        out.labels.append("atheris:" + m["gen"])
        return out
    out.labels.append(f"gen:{gen}")
    if gen == "A":
        from cv.gen import c06_names

        hostile = c06_names.hostile_slots(case)
        for s in hostile:
            out.labels.append("slot:" + c06_names.SLOTS[s][0])
        if case.get("xs"):
            out.labels.append("xs")
        if case.get("opt"):
            out.labels.append("user_reserved")
        for f in case.get("f", []):
            out.labels.append("feat:" + f)
        interesting = bool(hostile) or bool(case.get("xs"))
    else:
        from cv.gen import c06_expr

        kinds = c06_expr.op_kinds(case)
        for k in kinds:
            out.labels.append("op:" + k)
        interesting = len(kinds) >= 3
    try:
        src, vhdl = compile_case(case)
    except Rejected as r:
        out.status = "rejected"
        out.labels.append(f"rejected:{r.stage}:{r.exc_type}")
        return out
    d = analyse(vhdl)
    if d.unsupported:
        out.status = "blocked"
        out.labels.append("unsupported:" + d.unsupported[:60])
        return out
    out.nontrivial = interesting
    out.counters["vhdl_lines"] = vhdl.count("\n")
    n2008 = len({nm.lower() for kind, nm, _line in getattr(d, "notes", []) if kind == "reserved_2008_only"})
    if n2008:
        # legal VHDL-93, illegal VHDL-2008: not a violation under the union-of-editions policy, only counted
        out.labels.append("only_2008_reserved")
        out.counters["only_2008_reserved_identifiers"] = n2008
    if gen == "A" and case.get("opt"):
        # user-reserved names: unspecified by the property; only count whether one is declared verbatim
        # a user-reserved name must not be given to an object the backend names itself (signals, variables, labels,
        # types); VHDL identifiers are case-insensitive, so the comparison is too.  Interface names and enumerators
        # are printed as declared and cannot be renamed: not judged here.
        managed = ("signal-decl", "variable-decl", "process-label", "instance-label", "enum-type-name", "array-type-name")
        dd_all = declarations(vhdl.split("\n"))
        # attributes={"reserved_names": ...} belongs to the top entity only (the last design unit pair of the file)
        dd_top = declarations(vhdl[max(0, vhdl.rfind("\nentity ")):].split("\n"))
        for via in ("add", "attr"):
            dd = dd_all if via == "add" else dd_top
            for nm in case["opt"].get(via, []):
                cls = dd.get(nm.lower())
                hit = [c for c in (cls or "").split("+") if c in managed]
                if hit:
                    out.counters["user_reserved_name_declared"] = out.counters.get("user_reserved_name_declared", 0) + 1
                    out.add({"rule": "user-reserved-declared", "spelling": "lower" if nm == nm.lower() else "mixed", "via": via},
                            f"{via}: user-reserved name {nm!r} is declared in the emitted text as {hit[0]}\n"
                            + "\n".join(l for l in vhdl.split("\n") if re.search(rf"\b{re.escape(nm)}\b", l, re.I))[:600])
    if d.errors:
        lines = vhdl.split("\n")
        res93 = frozenset(RESERVED_93)
        decls = declarations(lines)
        cl = [classify(e, lines, decls, res93) + (e,) for e in d.errors]
        top = min(t for t, _, _ in cl)
        redecl = redeclared_predefined(decls) if top == 2 else {}
        if top == 2:
            # an enumerator that a process variable / other declaration of the same name hides (nested region: no S-dup)
            for nm, cls in decls.items():
                parts = cls.split("+")
                if "enum-literal" in parts and len(parts) > 1:
                    redecl[nm] = "enum-literal"
            # only a redeclared name that the text actually *uses* where it goes wrong can be the cause: the name must
            # occur on the line of at least one typing error (declaring e.g. `signal std_logic_1164` in an architecture
            # is legal, and nothing the backend prints inside an architecture refers to the package by name)
            err_lines = " ".join(lines[e.line - 1] for t, _, e in cl if t == 2 and 1 <= e.line <= len(lines)).lower()
            err_tokens = set(re.findall(r"[a-z_][a-z0-9_]*", err_lines))
            redecl = {nm: rc for nm, rc in redecl.items() if nm in err_tokens}
        seen = set()
        for t, sig, e in cl:
            if t != top:
                out.counters["follow_on_errors"] = out.counters.get("follow_on_errors", 0) + 1
                continue
            if redecl:
                # typing errors in a text that redeclares a predefined name it relies on: one finding per redeclaration
                for rn, rc in sorted(redecl.items()):
                    rc = primary(rc)
                    key = ("redecl", rn, rc)
                    if key not in seen:
                        seen.add(key)
                        out.add({"rule": "redeclared-predefined", "name": rn, "decl": rc},
                                f"the text declares {rn} ({rc}) and uses it in its predefined meaning; first symptom: {e!r}")
                continue
            key = tuple(sorted(sig.items()))
            if key in seen:
                continue
            seen.add(key)
            ctx = "\n".join(f"{i + 1:4d}| {lines[i]}" for i in range(max(0, e.line - 3), min(len(lines), e.line + 2)))
            out.add(sig, f"{e!r}\n{ctx}")
        out.status = "static_error"
        out.labels.append("static_error:tier%d" % top)
        return out
    # name stability / crash smoke test: elaborate and run a few vectors
    try:
        sim = Sim(d)
    except Blocked as b:
        out.status = "blocked"
        out.labels.append("sim_blocked:" + str(b)[:50])
        return out
    except SimError as se:
        out.labels.append("simerror_init:" + se.kind)
        return out
    try:
        ports = sim.port_objs
        ins = [p for p in ports.values() if p.mode == "in"]
        clk = next((p.name for p in ins if p.ty.kind == "sl" and _is_clock(case, p)), None)
        for vec in case.get("stim", []):
            vals = {}
            it = iter(vec)
            for p in ins:
                if p.name == clk:
                    continue
                v = next(it, 0)
                n = p.ty.length if p.ty.kind == "array" else 1
                vals[p.name] = v & ((1 << n) - 1) if p.ty.kind in ("array", "sl") else v
            if clk:
                sim.clock(clk, **vals)
            else:
                sim.poke(**vals)
            out.counters["sim_steps"] = out.counters.get("sim_steps", 0) + 1
    except SimError as se:
        out.labels.append("simerror:" + se.kind)
    return out


def _is_clock(case, p):
    if case["g"] == "A":
        from cv.gen import c06_names

        return p.raw == c06_names.names_of(case)["p_clk"]
    return p.name == "clk"
