"""C08 - intermediate values are written before read within every activation.

Two generators:
 * flow cells (enumerated): a control-flow skeleton (if / if-else / if-elif / if-elif-else / match / match-default /
   for-break / for-break-else, optionally nested in an outer if [else], in a clocked, combinational or coroutine
   context) x the set of arms in which an intermediate `t` is bound x whether `t` is bound before the construct x
   where it is used (after the construct; in coroutines also after an await).
 * random programs of the C01/C03 grammar (many bound intermediates, helper returns merged over branches).
Three oracles:
 (1) reject direction: a program that uses `t` although some path reaches the use without binding it, or that
     consumes in a later coroutine state an intermediate computed before an await, must be rejected;
 (2) static: definite-assignment dataflow over every emitted process (cv.vhdl.dataflow), independent of cohdl's own
     temporaries analysis: every read of an uninitialised process variable is dominated by a write on every path;
 (3) dynamic metamorphic: the design is simulated three times on the same stimulus - normally and with all
     intermediates re-poisoned before every activation (to 'U'/false and to ones/true); any output difference means
     an output depended on a value left over from an earlier activation.  The normal run is also compared with the
     reference interpreter."""
from __future__ import annotations

import builtins
import itertools

from hypothesis import strategies as st

from cv.gen import stmt as G
from cv.harness.runner import Outcome
from cv.props import _stmt as S
from cv.ref.seq import Machine, Unspecified
from cv.vhdl import dataflow
from cv.vhdl.values import SimError

PROPERTY = "C08"
TECHNIQUE = ("enumerated control-flow skeleton x definition/use placements + grammar-generated programs; oracles: must-reject "
             "table, independent definite-assignment dataflow over emitted processes, poisoned-intermediates metamorphic simulation")
RULE = (
    "flow cell = (context flavour, skeleton, arms binding t, bound-before flag, nesting, use placement), enumerated completely "
    "(thorough) / every 2nd cell (quick), 10 input rows each; random programs from the C01/C03 grammar with bound intermediates. "
    "non-trivial = definition and use of an intermediate lie in different blocks of the skeleton (flow cells), or the emitted "
    "processes declare >= 3 uninitialised intermediates (random programs); distinct = cell / spec hash"
)
ASSUMPTIONS = [
    "every process variable declared without initial value that is not a user Variable of the spec is a compiler intermediate",
    "must-reject = Python itself would raise UnboundLocalError on some path reaching the use, or the use follows an await "
    "that separates it from the definition",
    "VHDL semantics as implemented by cv.vhdl",
]

SKELETONS = ["if", "if_else", "if_elif", "if_elif_else", "match", "match_default", "forbreak", "forbreak_else", "match1", "forbreak1"]
N_ARMS = {"if": 1, "if_else": 2, "if_elif": 2, "if_elif_else": 3, "match": 2, "match_default": 3, "forbreak": 2, "forbreak_else": 3,
          "match1": 1, "forbreak1": 1}
EXHAUSTIVE = {"thorough": False, "quick": False}


def _all_cells():
    cells = []
    for flavor in ("seq", "comb", "coro"):
        for sk in SKELETONS:
            n = N_ARMS[sk]
            for mask in range(1 << n):
                for predef in (0, 1):
                    for nest in ("none", "outer_if", "outer_if_else"):
                        uses = ["after"]
                        if flavor == "coro":
                            uses += ["after_await", "await_in_arm"]
                        if nest == "none":
                            uses = uses + ["in_sibling"]
                        for use in uses:
                            for defkind in ("arith", "rtindex"):
                                cells.append([flavor, sk, mask, predef, nest, use, defkind])
                            if nest == "none" and flavor != "comb" and use in ("after", "after_await"):
                                # the use is an element of the tuple / list a local array Variable is initialised from
                                for defkind in ("arrtuple", "arrlist"):
                                    cells.append([flavor, sk, mask, predef, nest, use, defkind])
                        if flavor != "comb" and nest != "outer_if_else" and \
                                ((bin(mask).count("1") == 1 and predef == 0) or (mask == 0 and predef == 1)):
                            # a Signal constructed inside the body: defined in exactly one arm (every use after it / in a
                            # sibling must be rejected) or before the construct (legal control)
                            for use in [u for u in uses if u in ("after", "in_sibling")]:
                                cells.append([flavor, sk, mask, predef, nest, use, "localsig"])
                        if mask == 0 and predef == 1:
                            # explicit Temporary(..., maybe_uninitialized=True): exempt from the branch analysis, but still
                            # not allowed to live across states
                            for use in uses:
                                cells.append([flavor, sk, mask, predef, nest, use, "mu"])
    return cells


def plan(tier):
    cells = _all_cells()
    stride = 3 if tier == "quick" else 1
    n = 16
    shards = [{"kind": "enum", "name": f"flow{i}", "lo": i, "n": n, "stride": stride} for i in range(n)]
    per = 25 if tier == "quick" else 300
    for fl in ("seq", "coro"):
        for i in range(4 if tier == "quick" else 12):
            shards.append({"kind": "hyp", "name": f"rand_{fl}{i}", "examples": per, "flavor": fl})
    return shards


def enumerate(shard):
    cells = _all_cells()[:: shard["stride"]]
    for k, c in itertools.islice(zip(itertools.count(), cells), 0, None):
        if k % shard["n"] == shard["lo"]:
            yield {"cell": c}


@st.composite
def _rand(draw, flavor):
    spec = draw(G.design(flavor, max_stmts=5, depth=2))
    return {"spec": spec, "stim": draw(G.stimulus(spec, 16))}


def strategy(shard):
    return _rand(shard["flavor"])


# ----------------------------------------------------------------------------- flow cells -> spec
def build_cell(cell):
    """-> (spec, must_reject: bool, crosses_blocks: bool)"""
    flavor, sk, mask, predef, nest, use = cell[:6]
    defkind = cell[6] if len(cell) > 6 else "arith"
    W = 4
    inputs = [{"name": "ib0", "kind": "bit"}, {"name": "ib1", "kind": "bit"}, {"name": "ib2", "kind": "bit"},
              {"name": "iv0", "kind": "u"}, {"name": "iv1", "kind": "u"}, {"name": "ix", "kind": "u", "w": 2}]
    outputs = [{"name": "ov0", "kind": "u", "default": 1}, {"name": "ov1", "kind": "u", "default": 2},
               {"name": "ob0", "kind": "bit", "default": 0}]
    n = N_ARMS[sk]
    if defkind in ("arith", "mu", "localsig", "arrtuple", "arrlist"):
        exprs = [["add", ["in", "iv0"], ["const", k + 1]] for k in range(3)] + [["xor", ["in", "iv0"], ["in", "iv1"]]]
        pre_expr = ["inv", ["in", "iv1"]]
        use_stmt = {"k": "assign", "t": {"name": "ov0"}, "e": ["loc", "t"]}
    else:
        # the intermediate is a bit selected by a run-time index (the index is snapshotted into a temporary)
        exprs = [["ridx", ["in", "iv0"], ["in", "ix"]], ["ridx", ["in", "iv1"], ["in", "ix"]],
                 ["ridx", ["xor", ["in", "iv0"], ["in", "iv1"]], ["in", "ix"]], ["ridx", ["inv", ["in", "iv0"]], ["in", "ix"]]]
        pre_expr = ["ridx", ["inv", ["in", "iv1"]], ["in", "ix"]]
        use_stmt = {"k": "assign", "t": {"name": "ob0"}, "e": ["loc", "t", 1]}

    def defstmt(e):
        if defkind == "localsig":
            return {"k": "localsig", "name": "lst", "kind": "u", "e": e}
        return {"k": "bind", "bind": "t", "e": e}

    if defkind == "localsig":
        use_stmt = {"k": "assign", "t": {"name": "ov0"}, "e": ["sig", "lst"]}

    use_stmts = [use_stmt]
    if defkind in ("arrtuple", "arrlist"):
        use_stmts = [{"k": "localarr", "name": "la1", "elems": [["loc", "t"], ["in", "iv1"]], "form": defkind[3:]},
                     {"k": "assign", "t": {"name": "ov0"}, "e": ["aidx", "la1", ["const", 0]]}]

    def arm(k):
        body = [{"k": "assign", "t": {"name": "ov1"}, "e": ["add", ["in", "iv1"], ["const", k]]}]
        if mask >> k & 1:
            body.append(defstmt(exprs[k]))
            if defkind in ("arrtuple", "arrlist") and not predef and bin(mask).count("1") == 1:
                # a legal read inside the (only) defining arm keeps the intermediate declared
                body.append({"k": "assign", "t": {"name": "ov1"}, "e": ["loc", "t"]})
        if use == "await_in_arm" and k == 0:
            body.append({"k": "await", "c": ["in", "ib2"]})
        if use == "in_sibling" and k == n - 1 and n > 1:
            body.extend(use_stmts)  # the use sits in the last arm, a sibling of the defining arm(s)
        return body

    conds = [["in", "ib0"], ["in", "ib1"]]
    if sk.startswith("if"):
        has_else = sk.endswith("else")
        n_if = n - 1 if has_else else n
        s = {"k": "if", "arms": [[conds[k], arm(k)] for k in range(n_if)], "else": arm(n - 1) if has_else else None}
    elif sk.startswith("match"):
        has_else = sk == "match_default"
        s = {"k": "match", "e": ["in", "iv1"], "cases": [[k + 1, arm(k)] for k in range(1 if sk == "match1" else 2)],
             "default": arm(2) if has_else else None}
    else:
        has_else = sk == "forbreak_else"
        s = {"k": "forbreak", "items": [[conds[k], arm(k)] for k in range(1 if sk == "forbreak1" else 2)],
             "else": arm(2) if has_else else None}
    all_paths_define = has_else and mask == (1 << n) - 1
    inner = [s]
    if nest == "outer_if":
        inner = [{"k": "if", "arms": [[["in", "ib2"], [s]]], "else": None}]
        all_paths_define = False
    elif nest == "outer_if_else":
        other = [{"k": "bind", "bind": "t", "e": exprs[3]}] if mask & 1 else [{"k": "pass"}]
        inner = [{"k": "if", "arms": [[["in", "ib2"], [s]]], "else": other}]
        all_paths_define = all_paths_define and bool(mask & 1)
    body = []
    if flavor == "coro":
        body.append({"k": "assign", "t": {"name": "ov1"}, "e": ["in", "iv1"]})
    if predef:
        body.append(defstmt(pre_expr) if defkind == "localsig" else {"k": "bind", "bind": "t", "e": pre_expr, "mu": defkind == "mu"})
    body += inner
    crosses_await = False
    if use == "after_await":
        body.append({"k": "await", "c": ["in", "ib2"]})
        crosses_await = bool(mask) or bool(predef)
    if use == "await_in_arm":
        # the await sits inside arm 0 after its binding: a use after the construct then consumes, on that path,
        # an intermediate computed before the await
        crosses_await = bool(mask & 1) or bool(predef)
    if use == "in_sibling":
        if n == 1:
            body.extend(use_stmts)  # single-arm skeletons: same as "after"
            must_reject = (not predef and not all_paths_define) or crosses_await
        else:
            must_reject = not predef and not (mask >> (n - 1) & 1)
    else:
        body.extend(use_stmts)
        must_reject = (not predef and not all_paths_define) or crosses_await
    if not mask and not predef:
        must_reject = True  # t is never bound at all
    if use == "in_sibling" and n > 1 and not has_else and sk.startswith("if") is False:
        pass
    spec = {"W": W, "inputs": inputs, "outputs": outputs, "sigs": [], "vars": [], "helpers": [], "subs": [],
            "ctx": {"type": flavor, "reset": None}, "body": body}
    return spec, must_reject, bool(mask)


STIM = [{"ib0": a, "ib1": b, "ib2": c, "iv0": v, "iv1": w, "ix": (v + w) % 4}
        for (a, b, c, v, w) in [(0, 0, 0, 1, 2), (1, 0, 1, 3, 1), (0, 1, 1, 5, 2), (1, 1, 0, 7, 3), (0, 0, 1, 2, 1), (1, 0, 0, 4, 2),
                                (0, 1, 0, 6, 0), (1, 1, 1, 0, 1), (0, 0, 1, 3, 2), (1, 0, 1, 5, 5)]]


# ----------------------------------------------------------------------------- oracles (2) and (3)
def user_vars(spec):
    names = {o["name"] for o in spec.get("vars", [])}
    for lst in S._stmt_lists(spec):
        for s in lst:
            if s["k"] == "localvar":
                names.add(s["name"])
    return names


def check_emitted(cd, stim, out, sig_base):
    spec = cd.spec
    excl = user_vars(spec)
    viol, n_temps, n_procs = dataflow.analyse_text(cd.vhdl, exclude=excl)
    out.counters["intermediates"] = out.counters.get("intermediates", 0) + n_temps
    out.counters["processes"] = out.counters.get("processes", 0) + n_procs
    for v in viol[:3]:
        out.add(dict(sig_base, oracle="static_dataflow", why=v["why"].split(" ")[0] + "_" + v["why"].split(" ")[-1]),
                f"process {v['process']}: intermediate {v['variable']} (line {v['line']}): {v['why']}\n--- source ---\n{cd.src}")
    # dynamic: normal vs poisoned
    try:
        sims = [cd.sim(stim[0]), cd.sim(stim[0]), cd.sim(stim[0])]
        poisoned = dataflow.poison(sims[1], excl, 0)
        dataflow.poison(sims[2], excl, 1)
        out.counters["poisoned_variables"] = out.counters.get("poisoned_variables", 0) + poisoned
        m = Machine(spec)
        ref_ok = True
        for k, row in builtins.enumerate(stim):
            for si, sim in builtins.enumerate(sims):
                try:
                    S.apply_step(sim, spec, row)
                except SimError as e:
                    if si == 0:
                        out.labels.append("sim_error_normal_run:" + e.kind)
                        return n_temps
                    out.add(dict(sig_base, oracle="poison", why="sim_error:" + e.kind),
                            f"poisoned run {si} fails at step {k}: {e}\n--- source ---\n{cd.src}")
                    return n_temps
            for port, _ in S.observables(spec):
                a = sims[0].get_str(port)
                for si in (1, 2):
                    b = sims[si].get_str(port)
                    if a != b:
                        out.add(dict(sig_base, oracle="poison", why="output_depends_on_stale_intermediate"),
                                f"step {k} port {port}: normal {a}, poisoned(mode {si - 1}) {b}\n--- source ---\n{cd.src}")
                        return n_temps
            if ref_ok:
                try:
                    exp = S.ref_step(m, spec, row)
                    bad = S.compare(sims[0], exp, spec)
                    if bad:
                        out.add(dict(sig_base, oracle="reference", why="value"),
                                f"step {k}: {bad}\n--- source ---\n{cd.src}")
                        return n_temps
                except Unspecified:
                    ref_ok = False
    except S.Blocked:
        out.labels.append("blocked")
    return n_temps


def check(case):
    out = Outcome()
    if "cell" in case:
        cell = case["cell"]
        flavor, sk, mask, predef, nest, use = cell[:6]
        spec, must_reject, crosses = build_cell(cell)
        stim = STIM
        out.identity = "cell:" + ",".join(map(str, cell))
        out.exhaustive_cell = None
        sig_base = {"flavor": flavor, "skeleton": sk, "nest": nest, "use": use, "predef": bool(predef),
                    "defkind": cell[6] if len(cell) > 6 else "arith",
                    "defs": "none" if not mask else "all" if mask == (1 << N_ARMS[sk]) - 1 else "some"}
        out.labels += ["cell", "flavor:" + flavor, "must_reject" if must_reject else "legal"]
    else:
        spec, stim = case["spec"], case["stim"]
        must_reject, crosses = False, False
        sig_base = {"flavor": spec["ctx"]["type"], "skeleton": "random"}
        out.labels += ["random", "flavor:" + spec["ctx"]["type"]]
    try:
        cd = S.Compiled(spec)
    except S.Rejected as e:
        out.status = "rejected"
        out.labels.append("rejected:" + S.reject_class(e))
        if must_reject:
            out.labels.append("must_reject_confirmed")
            out.nontrivial = True
        return out
    if must_reject:
        out.status = "must_reject_but_accepted"
        out.add(dict(sig_base, oracle="must_reject"),
                f"accepted although some path reaches the use of t without a binding in the same activation\n--- source ---\n{cd.src}")
        return out
    d = cd.design
    if d.unsupported:
        out.status = "blocked"
        return out
    if d.errors:
        out.status = "blocked_by_static"
        out.labels += ["static:" + r for r in d.error_rules()]
        return out
    n_temps = check_emitted(cd, stim, out, sig_base)
    out.status = "ok" if not out.findings else "mismatch"
    if "cell" in case:
        out.nontrivial = bool(crosses)
    else:
        out.nontrivial = n_temps >= 3
    return out


def view(case):
    if "cell" in case:
        spec, mr, _ = build_cell(case["cell"])
        return {"cell": case["cell"], "must_reject": mr, "source": G.render(spec).split("def architecture")[1][:900]}
    return S.view(case)
