"""Shared machinery of the statement-language checks (C01, C03, C04): render the spec,
compile with cohdl, analyse + simulate the VHDL, run the reference interpreter on the same
spec, compare every observable after every clock; optional lock-step exploration; greedy
minimisation of failing specs to obtain a root-cause signature."""
from __future__ import annotations

import copy
import itertools

from cv.gen import stmt as G
from cv.harness.loader import Rejected, compile_source
from cv.harness.runner import Outcome
from cv.ref.seq import Machine, Unspecified
from cv.vhdl.analyze import analyse
from cv.vhdl.sim import Blocked, Sim
from cv.vhdl.values import SimError


def observables(spec):
    obs = [(o["name"], o["name"]) for o in spec["outputs"]]
    obs += [("x_" + o["name"], o["name"]) for o in spec.get("sigs", [])]
    return obs


class Compiled:
    def __init__(self, spec):
        self.spec = spec
        self.src = G.render(spec)
        self.vhdl = compile_source(self.src, "Top")  # raises Rejected
        self.design = analyse(self.vhdl)

    def sim(self, first_row=None):
        """test-bench style start: clock low, reset inactive, inputs at their first values"""
        spec = self.spec
        init = {}
        if spec["ctx"]["type"] in ("seq", "coro"):
            init["clk"] = 0
            r = spec["ctx"].get("reset")
            if r:
                init["rst"] = 1 if r.get("active_low") else 0
                if r.get("derive"):
                    init["rx"] = 1 if r["derive"].get("active_low") else 0
        for o in spec["inputs"]:
            init[o["name"]] = (first_row or {}).get(o["name"], 0)
        return Sim(self.design, "top", inputs=init)


def reject_class(e: Rejected):
    msg = str(e)
    for key in ("continue-statement cannot be defined in first state", "Temporaries can not be awaited",
                "nested StatemachineContext", "has no associated value", "not found in scope",
                "Temporary objects may not be shared between states", "infinite recursion"):
        if key in msg:
            return key.replace(" ", "_")[:40]
    return e.exc_type


def blocking(design):
    """static findings that make a simulation meaningless.  An incomplete sensitivity list (S-sens) is legal VHDL whose
    effect is exactly a behavioural difference, so those designs are simulated (the simulator honours the list as written)"""
    return [e for e in design.errors if e.rule != "S-sens"]


def apply_step(sim, spec, row, reset=None, rx=None):
    kw = dict(row)
    if reset is not None:
        kw["rst"] = reset
    if rx is not None:
        kw["rx"] = rx
    if spec["ctx"]["type"] in ("seq", "coro"):
        sim.clock("clk", **kw)
    else:
        sim.poke(**kw)


def ref_step(m, spec, row, reset=False):
    if spec["ctx"]["type"] == "conc":
        return m.eval_concurrent(row)
    return m.step(row, reset=reset)


def compare(sim, exp, spec):
    """-> list of (port, expected, got_str) mismatches; expected None = not determined -> skipped"""
    bad = []
    for port, name in observables(spec):
        e = exp.get(name)
        if e is None:
            continue
        got = sim.get(port)
        if got != e:
            bad.append((port, e, sim.get_str(port)))
    return bad


def run_trace(cd: Compiled, stim, resets=None):
    """-> (status, info).  status: ok | unspecified | mismatch | sim_error"""
    spec = cd.spec
    sim = cd.sim(stim[0] if stim else None)
    m = Machine(spec)
    steps = 0
    for k, row in enumerate(stim):
        r = resets[k] if resets else None
        try:
            active = False
            if r is not None:
                active = bool(r) != bool(spec["ctx"]["reset"].get("active_low"))
            exp = ref_step(m, spec, row, reset=active)
        except Unspecified as u:
            return "unspecified", {"step": k, "why": str(u), "machine": m, "steps": steps}
        try:
            apply_step(sim, spec, row, r)
        except SimError as e:
            return "sim_error", {"step": k, "kind": e.kind, "msg": str(e), "machine": m, "steps": steps}
        bad = compare(sim, exp, spec)
        if bad:
            return "mismatch", {"step": k, "bad": bad, "machine": m, "steps": steps}
        steps += 1
    return "ok", {"machine": m, "steps": steps}


def input_alphabet(spec, extra_rows=()):
    W = spec["W"]
    bits = sum(1 if o["kind"] == "bit" else W for o in spec["inputs"])
    if bits <= 4:
        doms = [range(2) if o["kind"] == "bit" else range(1 << W) for o in spec["inputs"]]
        return [dict(zip([o["name"] for o in spec["inputs"]], v)) for v in itertools.product(*doms)], True
    rows = []
    seen = set()
    for r in extra_rows:
        key = tuple(sorted(r.items()))
        if key not in seen:
            seen.add(key)
            rows.append(r)
    return rows[:10], False


def explore(cd: Compiled, alphabet, cap):
    """breadth-first lock-step exploration over (simulator state) with the reference replayed
    along the path.  -> (status, info) like run_trace, plus states/transitions counts."""
    spec = cd.spec
    sim = cd.sim()
    root = sim.snapshot()
    snaps = {(): root}
    refstate = {}
    frontier = [()]
    transitions = 0
    states = 1
    complete = True
    while frontier:
        nxt = []
        for path in frontier:
            # reference at this node
            for sym_i, sym in enumerate(alphabet):
                m = Machine(spec)
                try:
                    for i in path:
                        ref_step(m, spec, alphabet[i])
                    exp = ref_step(m, spec, sym)
                except Unspecified:
                    continue
                # simulator at this node
                sim.restore(snaps[path])
                try:
                    apply_step(sim, spec, sym)
                except SimError as e:
                    return "sim_error", {"path": [alphabet[i] for i in path] + [sym], "kind": e.kind, "msg": str(e),
                                         "states": states, "transitions": transitions}
                transitions += 1
                bad = compare(sim, exp, spec)
                if bad:
                    return "mismatch", {"path": [alphabet[i] for i in path] + [sym], "bad": bad, "states": states,
                                        "transitions": transitions}
                ns = sim.snapshot()
                rk = m.state_key()
                if ns in refstate:
                    if not _same_defined(refstate[ns], rk):
                        return "mismatch", {"path": [alphabet[i] for i in path] + [sym],
                                            "bad": [("<pairing>", str(refstate[ns])[:120], str(rk)[:120])],
                                            "states": states, "transitions": transitions}
                    continue
                refstate[ns] = rk
                if states >= cap:
                    complete = False
                    continue
                states += 1
                np_ = path + (sym_i,)
                snaps[np_] = ns
                nxt.append(np_)
        frontier = nxt
    return "ok", {"states": states, "transitions": transitions, "closed": complete}


def _same_defined(a, b):
    """reference state keys agree wherever both define a value (None = undefined = wildcard)"""
    for ga, gb in zip(a, b):
        da, db = dict(ga), dict(gb)
        for k in da.keys() & db.keys():
            if da[k] is not None and db[k] is not None and da[k] != db[k]:
                return False
    return True


# ----------------------------------------------------------------------------- minimisation
def _stmt_lists(spec):
    """yield every statement list of the spec (mutable references)"""
    def walk(body):
        yield body
        for s in body:
            k = s["k"]
            if k == "if":
                for _, b in s["arms"]:
                    yield from walk(b)
                if s.get("else") is not None:
                    yield from walk(s["else"])
            elif k == "match":
                for _, b in s["cases"]:
                    yield from walk(b)
                if s.get("default") is not None:
                    yield from walk(s["default"])
            elif k == "forbreak":
                for _, b in s["items"]:
                    yield from walk(b)
                if s.get("else") is not None:
                    yield from walk(s["else"])
            elif k == "while":
                yield from walk(s["body"])
    yield from walk(spec["body"])
    for sub in spec.get("subs", []):
        yield from walk(sub["body"])


def _variants(spec):
    """smaller specs: delete one statement, hoist a nested block, drop else/arms"""
    lists = list(_stmt_lists(spec))
    for li, lst in enumerate(lists):
        for si in range(len(lst)):
            def mk(fn, li=li, si=si):
                c = copy.deepcopy(spec)
                l2 = list(_stmt_lists(c))[li]
                fn(l2, si)
                return c
            yield mk(lambda l, i: l.pop(i))
            s = lst[si]
            if s["k"] == "if":
                for ai in range(len(s["arms"])):
                    yield mk(lambda l, i, ai=ai: l.__setitem__(slice(i, i + 1), l[i]["arms"][ai][1]))
                if s.get("else"):
                    yield mk(lambda l, i: l.__setitem__(slice(i, i + 1), l[i]["else"]))
                    yield mk(lambda l, i: l[i].__setitem__("else", None))
                if len(s["arms"]) > 1:
                    yield mk(lambda l, i: l[i]["arms"].pop())
            elif s["k"] == "while":
                yield mk(lambda l, i: l.__setitem__(slice(i, i + 1), [x for x in l[i]["body"] if x["k"] not in ("break", "continue")]))
            elif s["k"] == "match":
                if s.get("default"):
                    yield mk(lambda l, i: l[i].__setitem__("default", None))
                if len(s["cases"]) > 1:
                    yield mk(lambda l, i: l[i]["cases"].pop())
            elif s["k"] == "forbreak":
                if s.get("else"):
                    yield mk(lambda l, i: l[i].__setitem__("else", None))
                if len(s["items"]) > 1:
                    yield mk(lambda l, i: l[i]["items"].pop())


def minimise(spec, fails, budget=80):
    """greedy: keep applying the first variant that still fails"""
    cur = spec
    n = 0
    progress = True
    while progress and n < budget:
        progress = False
        for v in _variants(cur):
            n += 1
            if n > budget:
                break
            try:
                if fails(v):
                    cur = v
                    progress = True
                    break
            except Exception:  # noqa: BLE001 - a variant that breaks the harness is simply not taken
                continue
    return cur


def features(spec):
    """sorted set of construct kinds in a spec (used as the root-cause part of signatures)"""
    f = set()
    for lst in _stmt_lists(spec):
        for s in lst:
            f.add(s["k"])
            t = s.get("t")
            if t and t.get("acc"):
                f.add("acc:" + t["acc"][0])
            if s["k"] == "await":
                f.add("await:" + (s["c"] if isinstance(s["c"], str) else "cond"))
            if s["k"] == "while" and s["c"] in ("true", "false"):
                f.add("while:" + s["c"])
    return sorted(f)


def check_design(case, prop, explore_cap=0, nontrivial_rule=None):
    """case = {"spec":..., "stim":[rows], optional "resets":[...]}"""
    spec, stim = case["spec"], case["stim"]
    out = Outcome()
    flavor = spec["ctx"]["type"]
    out.labels.append("flavor:" + flavor)
    try:
        cd = Compiled(spec)
    except Rejected as e:
        out.status = "rejected"
        out.labels.append("rejected:" + reject_class(e))
        return out
    d = cd.design
    if d.unsupported:
        out.status = "blocked"
        out.labels.append("blocked:" + d.unsupported[:40])
        return out
    if blocking(d):
        out.status = "blocked_by_static"
        for r in d.error_rules():
            out.labels.append("static:" + r)
        return out
    for r in d.error_rules():
        out.labels.append("static_nonblocking:" + r)
    try:
        status, info = run_trace(cd, stim, case.get("resets"))
        if status == "ok" and explore_cap:
            alphabet, full = input_alphabet(spec, stim)
            if alphabet:
                status, einfo = explore(cd, alphabet, explore_cap)
                info.update(einfo)
                out.counters["explored_states"] = einfo.get("states", 0)
                out.counters["explored_transitions"] = einfo.get("transitions", 0)
                if status == "ok" and einfo.get("closed") and full:
                    out.labels.append("exploration_closed")
                    out.counters["closed_explorations"] = 1
    except Blocked as e:
        out.status = "blocked"
        out.labels.append("blocked:" + str(e)[:40])
        return out
    m = info.get("machine")
    if m is not None:
        for l in sorted(m.labels):
            out.labels.append("ref:" + l)
        out.counters["steps"] = info.get("steps", 0)
        out.counters["pauses_visited"] = len(m.visited_pauses)
    if status in ("ok", "unspecified"):
        out.status = "ok" if status == "ok" else "unspecified_tail"
        if nontrivial_rule is not None and m is not None:
            out.nontrivial = bool(nontrivial_rule(spec, m, info))
        return out
    # ---- divergence: minimise to get a root-cause signature
    def fails(sp):
        try:
            c2 = Compiled(sp)
        except Rejected:
            return False
        if c2.design.unsupported or blocking(c2.design):
            return False
        st_, _ = run_trace(c2, stim, case.get("resets"))
        if st_ not in ("mismatch", "sim_error") and explore_cap and "path" in info:
            alphabet, _ = input_alphabet(sp, stim)
            st_, _ = explore(c2, alphabet, min(explore_cap, 60))
        return st_ == status
    small = minimise(spec, fails)
    if small is not spec:
        try:
            c2 = Compiled(small)
            st2, info2 = run_trace(c2, stim, case.get("resets"))
            if st2 == status:
                info = info2
        except Exception:  # noqa: BLE001
            pass
    sig = {"property": prop, "flavor": flavor, "divergence": status if status == "mismatch" else "sim_error:" + info.get("kind", "?"),
           "features": ",".join(features(small))}
    if spec["ctx"].get("reset"):
        r = spec["ctx"]["reset"]
        sig["reset"] = ("async" if r.get("async") else "sync") + ("_low" if r.get("active_low") else "_high")
    detail = (f"first divergence at step {info.get('step', info.get('path'))}: {info.get('bad') or info.get('msg')}\n"
              f"--- minimised source ---\n{G.render(small)}")
    out.status = status
    out.add(sig, detail)
    return out


def view(case):
    spec = case["spec"]
    return {"source": G.render(spec).split("class Top")[1][:1500], "clocks": len(case["stim"]),
            "first_inputs": case["stim"][:3]}
