"""C05 - type conversions on assignment preserve the value or are rejected.

Enumerated: ordered pairs (source kind, target kind) x widths x assignment form x qualifier of the source.
The property statement is the decision table (cv.gen.c05_cells.classify):
  accept  may be accepted; if cohdl accepts, the emitted VHDL is simulated for ALL source values and the target must
          hold the same number (numeric kinds) / the same bits (BitVector involved, Bit/bool, Null/Full, literals)
  reject  must be rejected at compile time; accepted => violation
  unspec  the statement does not classify the pair: only counted
"""
from __future__ import annotations

import builtins
import contextlib
import io

from cv.gen import c05_cells as C
from cv.harness.runner import Outcome

_enum = builtins.enumerate

PROPERTY = "C05"
TECHNIQUE = ("complete enumeration of (source kind, target kind, widths, assignment form, source qualifier) cells; "
             "decision table from the property statement; accepted cells are simulated (cv.vhdl) for all source values")
RULE = (
    "case = 1 cell (must-reject / unclassified cells) or up to 16 may-accept cells packed into one design; cell = "
    "source (Bit, bool, BitVector/Unsigned/Signed[1..3], Integer signal, int literal representable or not, Null, Full, "
    "str literal of equal / different length) x target (Bit, bool, BitVector/Unsigned/Signed[1..3]) x form (<<= on a "
    "Signal in a clocked and in a concurrent context, @= and .value on a Variable, ^= and .push on a Signal with "
    "default, .next, static slice target of a BitVector/Unsigned/Signed, element of a vector, element of an Array, "
    "typed view of a differently typed root as target (port.signed <<= src, variable.unsigned @= src, "
    "port[h:l].signed <<= src for roots BitVector/Unsigned/Signed; classified by the view's type, read back through "
    "the root), "
    "Signal[T](src) / Variable[T](src) inside the context, port connection into / out of a sub-entity, "
    "function-return merge, if-expression merge) x qualifier of the source (input Port, Signal, Variable, Temporary, "
    "constant); non-trivial = a may-accept cell whose source type differs from the target type that was accepted and "
    "simulated on every source value, or a must-reject cell confirmed rejected; distinct = case hash"
)
ASSUMPTIONS = [
    "decision table: Unsigned->wider-or-equal Unsigned, Signed->wider-or-equal Signed, Unsigned->strictly wider "
    "Signed (same number); equal-width BitVector<->Unsigned/Signed/BitVector, str literal of the target's length "
    "(same bits); Bit/bool<->Bit/bool, literals 0/1 and '0'/'1' to Bit/bool (true = '1'); Null/Full to Bit and "
    "vectors (fill); representable int literals to Unsigned/Signed: may be accepted and then must hold the value",
    "must reject: narrowing, Signed<->Unsigned of equal width, Signed->narrower Unsigned, any width-mismatched "
    "BitVector (incl. str literal) assignment, Bit<->vector, int literal outside the target range (Bit: other "
    "than 0/1); for the forms the statement does not list (initialisation, port connection, merges) an accepted "
    "Bit<->1-bit-vector cell that keeps the bit is tolerated (first sentence: rejected or value preserved)",
    "unclassified (counted only): Signed->wider Unsigned, bool<->vector, Integer-typed values, int literal->BitVector, "
    "int literal other than 0/1 -> bool, Null/Full->bool, multi-character str->Bit/bool",
    "port connections are judged in the direction of data flow (formal out port drives the actual)",
    "a may-accept cell that cohdl rejects is only counted; static errors in the VHDL of an accepted may-accept cell "
    "are reported as blocked_by_static (C06 owns them)",
    "the target is observed through an output port of the target type after 3 clocks with stable inputs",
]
EXHAUSTIVE = {"quick": True, "thorough": True}

_PACK = 16


# ----------------------------------------------------------------------------- plan / enumerate
def _widths(tier):
    return [1, 2, 3] if tier == "quick" else [1, 2, 3, 4]


def _cases(tier):
    cs = C.cells(_widths(tier))
    if tier != "quick":
        # sampled larger widths: same table, every form, port / temp qualifiers only
        for c in C.cells([8, 16], forms=None):
            if c["qual"] in ("port", "temp", "literal") and c["tgt"][0] in C.VEC and c["src"][0] not in ("bit", "bool"):
                cs.append(c)
    singles, packs = [], {}
    for c in cs:
        if C.classify(c["src"], c["tgt"]) == "accept":
            key = "port" if c["form"].startswith("port_") else "std"
            packs.setdefault(key, []).append(c)
        else:
            singles.append(c)
    cases = [{"cells": [c]} for c in singles]
    for key in sorted(packs):
        lst = packs[key]
        for i in range(0, len(lst), _PACK):
            cases.append({"cells": lst[i:i + _PACK]})
    return cases


_NSH = {"quick": 48, "thorough": 96}


def plan(tier):
    n = _NSH[tier]
    return [{"kind": "enum", "name": f"cells-{i}", "tier": tier, "rem": i, "mod": n} for i in range(n)]


def enumerate(shard):  # noqa: A001 - name fixed by the module contract
    for i, c in _enum(_cases(shard["tier"])):
        if i % shard["mod"] == shard["rem"]:
            yield c


# ----------------------------------------------------------------------------- running designs
class _CellRes:
    __slots__ = ("status", "why", "mism", "n_cmp", "n_skip", "static", "sim_error", "natural")

    def __init__(self):
        self.status, self.why, self.mism, self.n_cmp, self.n_skip = "pending", "", None, 0, 0
        self.static, self.sim_error, self.natural = [], None, None


def _compile(src):
    from cv.harness import loader

    buf = io.StringIO()
    with contextlib.redirect_stdout(buf), contextlib.redirect_stderr(buf):
        mod = loader.load_module(src)
    try:
        try:
            return loader.compile_entity(mod.Top), None, list(mod.SINK)
        except loader.Rejected as r:
            return None, r, list(mod.SINK)
    finally:
        loader.unload_module(mod)


class _Run:
    def __init__(self):
        self.compilations = 0

    def run(self, items):
        """items: [(i, cell)] -> {i: _CellRes}"""
        from cv.vhdl.analyze import analyse
        from cv.vhdl.sim import Blocked, Sim
        from cv.vhdl.values import SimError

        res = {i: _CellRes() for i, _ in items}
        if not items:
            return res
        src = C.render(items)
        self.compilations += 1
        vhdl, rej, sink = _compile(src)
        if rej is not None:
            if len(items) > 1:
                # probe(i) is traced immediately before the statements of cell i; instances are created before
                culprit = sink[-1] if sink else None
                if culprit is None:
                    bad = [(i, c) for i, c in items if c["form"].startswith("port_")] or items
                else:
                    bad = [(i, c) for i, c in items if i == culprit]
                if len(bad) == len(items):
                    for it in items:
                        res.update(self.run([it]))
                    return res
                for it in bad:
                    res.update(self.run([it]))
                res.update(self.run([it for it in items if it not in bad]))
                return res
            r = res[items[0][0]]
            r.status, r.why = "rejected", str(rej)[:160]
            return res
        d = analyse(vhdl)
        if d.unsupported or d.errors:
            if len(items) > 1:
                for it in items:
                    res.update(self.run([it]))
                return res
            r = res[items[0][0]]
            if d.errors:
                r.status = "static"
                r.static = [(e.rule, e.msg, _line(vhdl, e.line)) for e in d.errors[:3]]
                r.why = "; ".join(f"{e.rule}: {e.msg} [{_line(vhdl, e.line)}]" for e in d.errors[:2])
            else:
                r.status, r.why = "blocked", str(d.unsupported)[:160]
            return res
        rs = {i: C.CellRender(i, c) for i, c in items}
        stims = {i: C.stimulus(c) for i, c in items}
        nmax = max(len(s) for s in stims.values())
        try:
            sim = Sim(d, top="Top")
            sim.poke(clk=0)
            for v in range(nmax):
                poke = {}
                cur = {}
                for i, c in items:
                    st = stims[i]
                    inp, exp = st[v % len(st)]
                    cur[i] = (inp, exp)
                    for name, _, bits in rs[i].inputs():
                        val = inp.get(name[0])
                        if val is None:
                            continue
                        poke[name] = bool(val) if c["src"][0] == "bool" and name[0] == "a" else val
                for _ in range(3):
                    sim.clock("clk", **poke)
                for i, c in items:
                    if v >= len(stims[i]):
                        continue
                    self._compare(sim, rs[i], c, cur[i], res[i])
        except Blocked as b:
            if len(items) > 1:
                for it in items:
                    res.update(self.run([it]))
                return res
            res[items[0][0]].status, res[items[0][0]].why = "blocked", str(b)[:160]
            return res
        except SimError as e:
            if len(items) > 1:
                for it in items:
                    res.update(self.run([it]))
                return res
            r = res[items[0][0]]
            r.status, r.sim_error, r.why = "accepted", e.kind, f"VHDL run-time error {e}"
            return res
        for i, _ in items:
            res[i].status = "accepted"
        return res

    @staticmethod
    def _compare(sim, r, cell, cur, out):
        S, T = cell["src"], cell["tgt"]
        inp, exp = cur
        _, _, (lo, n) = r.container()
        for k, o in _enum(r.out_names()):
            p = inp.get("a") if r.qual != "const" else r.consts[k]
            e = C.convert(S, T, p if p is not None else 0) if exp == "src" else exp
            got = sim.get(o)
            if isinstance(got, bool):
                got = int(got)
            if got is not None:
                got &= (1 << r.container_width()) - 1
            if e is None:
                out.n_skip += 1
                continue
            out.n_cmp += 1
            want = e << lo
            if got != want and out.mism is None:
                shown = "undefined (" + str(sim.get_str(o)) + ")" if got is None else format(got, "b")
                out.mism = (f"inputs {inp}" + (f" constant {p}" if r.qual == "const" else "")
                            + f": {o} = {shown}, expected bits {format(want, 'b')}")


def _line(vhdl, n):
    ls = vhdl.splitlines()
    return ls[n - 1].strip() if n and 0 < n <= len(ls) else ""


# ----------------------------------------------------------------------------- check
def _kind(x):
    return x[0] if x[0] != "lit" else "int"


def _wrel(S, T):
    if S[0] in C.VEC and T[0] in C.VEC:
        return "eq" if S[1] == T[1] else "lt" if S[1] < T[1] else "gt"
    if S[0] == "str" and T[0] in C.VEC:
        return "eq" if len(S[1]) == T[1] else "lt" if len(S[1]) < T[1] else "gt"
    return "na"


def _sig(cell, check_):
    S, T = cell["src"], cell["tgt"]
    return {"form": cell["form"], "src": _kind(S), "tgt": _kind(T), "wrel": _wrel(S, T), "qual": cell["qual"],
            "check": check_}


def check(case):
    out = Outcome()
    cells = case["cells"]
    items = list(_enum(cells))
    run = _Run()
    res = run.run(items)
    out.counters["compilations"] = run.compilations
    n_ok = 0
    for i, c in items:
        r = res[i]
        cls = C.classify(c["src"], c["tgt"])
        name = C.cell_name(c)
        fam = f"{_kind(c['src'])}->{_kind(c['tgt'])}"
        out.counters[f"cells_{cls}"] = out.counters.get(f"cells_{cls}", 0) + 1
        if r.status == "rejected":
            out.labels.append(f"{cls}:rejected")
            out.labels.append(f"{c['form']}:{cls}:rejected")
            if cls == "reject":
                out.nontrivial = True
                n_ok += 1
            continue
        if r.status == "blocked":
            out.labels.append(f"{cls}:blocked")
            continue
        # accepted by cohdl (VHDL emitted)
        out.labels.append(f"{cls}:accepted")
        out.labels.append(f"{c['form']}:{cls}:accepted")
        if cls == "reject":
            S, T = c["src"], c["tgt"]
            if (c["form"] not in C.EXPLICIT_FORMS and r.status == "accepted" and not r.sim_error and not r.mism
                    and "bit" in (S[0], T[0]) and C.width(S) == 1 and C.width(T) == 1):
                # initialisation / port / merge between Bit and a 1 bit vector that keeps the bit: "rejected or
                # value preserved" holds
                out.labels.append(f"reject:accepted_but_preserving:{c['form']}")
                continue
            how = r.why or r.mism or "the emitted VHDL simulates without a difference on the representable values"
            out.add(_sig(c, "accepted_must_reject"),
                    f"{name}: the statement requires a compile-time error (no conversion can hold every source "
                    f"value), cohdl accepted the design.\n  {how}")
            continue
        if r.status == "static":
            out.labels.append(f"static:{r.static[0][0]}:{c['form']}:{fam}")
            if cls == "accept":
                out.counters["cells_blocked_by_static"] = out.counters.get("cells_blocked_by_static", 0) + 1
            continue
        if cls == "unspec":
            out.labels.append("unspec:accepted:" + ("sim_error" if r.sim_error else "differs" if r.mism else "natural"))
            out.labels.append(f"unspec_accepted:{fam}")
            continue
        # may-accept, accepted: value must be preserved
        if r.sim_error:
            out.add(_sig(c, f"sim_error:{r.sim_error}"), f"{name}: {r.why}")
            continue
        out.counters["values_compared"] = out.counters.get("values_compared", 0) + r.n_cmp
        if r.mism:
            out.add(_sig(c, "value"), f"{name}: {r.mism}")
            continue
        n_ok += 1
        if r.n_cmp and (c["src"] != c["tgt"]):
            out.nontrivial = True
    sts = {res[i].status for i, _ in items}
    if "accepted" in sts or n_ok:
        out.status = "ok"
    elif sts == {"rejected"}:
        out.status = "rejected"
    elif "static" in sts:
        out.status = "blocked_by_static"
    elif "blocked" in sts:
        out.status = "blocked"
    else:
        out.status = "ok"
    if len(cells) == 1:
        out.exhaustive_cell = C.cell_name(cells[0])
    else:
        out.exhaustive_cell = "pack:" + C.cell_name(cells[0]) + ".." + C.cell_name(cells[-1])
    return out


def view(case):
    return [C.cell_name(c) for c in case["cells"]]


def selfcheck():
    assert C.classify(["u", 2], ["u", 3]) == "accept" and C.classify(["u", 3], ["u", 2]) == "reject"
    assert C.classify(["u", 2], ["s", 3]) == "accept" and C.classify(["u", 3], ["s", 3]) == "reject"
    assert C.classify(["s", 2], ["u", 3]) == "unspec" and C.classify(["s", 3], ["u", 3]) == "reject"
    assert C.classify(["bv", 3], ["s", 3]) == "accept" and C.classify(["bv", 2], ["s", 3]) == "reject"
    assert C.classify(["bit"], ["bv", 1]) == "reject" and C.classify(["bv", 1], ["bit"]) == "reject"
    assert C.classify(["lit", 8], ["u", 3]) == "reject" and C.classify(["lit", -4], ["s", 3]) == "accept"
    assert C.convert(["s", 2], ["s", 4], 0b10) == 0b1110 and C.convert(["u", 2], ["s", 4], 0b10) == 0b0010
    assert C.convert(["bv", 3], ["s", 3], 5) == 5 and C.convert(["Full"], ["u", 3], 0) == 7
    assert C.convert(["lit", -1], ["s", 3], 0) == 7 and C.convert(["str", "101"], ["bv", 3], 0) == 5
